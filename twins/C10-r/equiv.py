"""Equivalence demonstration for the C10 refactoring (seed / global-state property).

Refactored functions:
    teneva/utils.py  : _rand
    teneva/core.py   : core_qr_rand
    teneva/sample.py : sample_lhs

The same deterministic scenario list is run in two subprocesses, one importing
the pristine package (cwd=/tmp/twinsA/C10/orig) and one importing the
refactored package (cwd=/tmp/wt/C10). Each dumps a pickle with the summarised
outcomes (values, shapes, dtypes, memory-layout flags, exceptions, argument
mutation, state of passed generators after the call); the parent compares the
two pickles. Exit code 0 if everything agrees, 1 otherwise.
"""
import os
import pickle
import subprocess
import sys
import tempfile

ORIG = '/tmp/twinsA/C10/orig'
NEW = '/tmp/wt/C10'
PY = '/venv/bin/python'

RTOL = 1.E-12
ATOL = 1.E-13


# ---------------------------------------------------------------------------
# Worker part (runs inside one of the two package trees)
# ---------------------------------------------------------------------------


def worker(fpath):
    sys.path.insert(0, os.getcwd())
    import warnings
    warnings.simplefilter('ignore')
    import numpy as np
    import teneva
    assert os.path.dirname(os.path.dirname(os.path.abspath(
        teneva.__file__))) == os.path.abspath(os.getcwd()), teneva.__file__

    out = []

    def pack(x):
        """Summarise a result into plain picklable data."""
        if isinstance(x, np.ndarray):
            if x.dtype == object:
                return ('objarr', x.shape, [pack(v) for v in x.ravel()])
            return ('arr', x.shape, str(x.dtype),
                    bool(x.flags.c_contiguous), bool(x.flags.f_contiguous),
                    np.array(x))
        if isinstance(x, np.random.Generator):
            return ('gen', x.bit_generator.state)
        if isinstance(x, (list, tuple)):
            return (type(x).__name__, [pack(v) for v in x])
        if isinstance(x, dict):
            return ('dict', [(repr(k), pack(v)) for k, v in x.items()])
        if isinstance(x, np.generic):
            return ('npscalar', str(x.dtype), x.item())
        if x is None or isinstance(x, (bool, int, float, complex, str)):
            return ('py', type(x).__name__, x)
        return ('obj', type(x).__name__)

    def run(name, fn):
        """Run fn under a scrambled global generator, record the outcome."""
        np.random.seed(len(out) * 7919 % 100003)
        np.random.rand(len(out) % 5)
        try:
            res = ('ok', pack(fn()))
        except BaseException as exc:
            res = ('exc', type(exc).__name__, str(exc))
        out.append((name, res))

    # ----------------------------------------------------------- _rand ----

    def sc_rand(seed, same_obj_expected=None):
        def fn():
            g = teneva._rand(seed)
            info = {'type': type(g).__name__, 'is_input': g is seed}
            if isinstance(g, np.random.Generator):
                info['bitgen'] = type(g.bit_generator).__name__
                if seed is not None:
                    info['draws'] = g.random(5)
                    info['ints'] = g.integers(0, 1000, 7)
                    info['state'] = g
            return info
        return fn

    seeds_rand = [
        None, 0, 1, 42, 2**31, 2**64 + 5, 10**30, True, False, -1, -5,
        np.int64(3), np.int32(3), np.uint8(3), 1.0, 1.5, '7', b'7', [1, 2],
        (1, 2), np.array([1, 2, 3]), np.array(4),
        np.random.default_rng(11),
        np.random.Generator(np.random.MT19937(5)),
        np.random.RandomState(3), np.random.SeedSequence(9),
        np.random.PCG64(8), np.random, object(), {}, np.float64(2.0),
    ]
    for k, s in enumerate(seeds_rand):
        run('_rand[%d:%s]' % (k, type(s).__name__), sc_rand(s))
    run('_rand[default]', lambda: type(teneva._rand()).__name__)
    run('_rand[kw]', lambda: teneva._rand(seed=5).random(3))

    def sc_rand_fresh():
        # Two calls with the same int give independent but equal generators,
        # a passed generator is shared (draws advance the caller's object).
        a, b = teneva._rand(7), teneva._rand(7)
        g = np.random.default_rng(7)
        c = teneva._rand(g)
        x = [a.random(3), b.random(3), c.random(3), g.random(3)]
        return {'x': x, 'a_is_b': a is b, 'c_is_g': c is g}
    run('_rand[fresh]', sc_rand_fresh)

    def sc_rand_global():
        # The global generator is not consumed / reseeded by _rand
        np.random.seed(123)
        ref = np.random.get_state()[1].copy()
        teneva._rand(None).random(10)
        teneva._rand(5).random(10)
        return bool(np.array_equal(ref, np.random.get_state()[1]))
    run('_rand[global-untouched]', sc_rand_global)

    # ---------------------------------------------------- core_qr_rand ----

    def make_core(shape, kind, k):
        rng = np.random.default_rng(1000 + k)
        r1, n, r2 = shape
        if kind == 'float':
            return rng.normal(size=shape)
        if kind == 'int':
            return rng.integers(-5, 6, size=shape)
        if kind == 'f32':
            return rng.normal(size=shape).astype(np.float32)
        if kind == 'complex':
            return rng.normal(size=shape) + 1j * rng.normal(size=shape)
        if kind == 'fortran':
            return np.asfortranarray(rng.normal(size=shape))
        if kind == 'view':
            return rng.normal(size=(r1, 2*n, r2 + 1))[:, ::2, 1:]
        if kind == 'transposed':
            return rng.normal(size=(r2, n, r1)).T
        if kind == 'zeros':
            return np.zeros(shape)
        if kind == 'rankdef':
            G = rng.normal(size=shape)
            G[..., -1] = G[..., 0]
            return G
        raise ValueError(kind)

    def sc_qr(G, m, ltr, seed, kw=False, gen_seed=None):
        def fn():
            s = seed
            if gen_seed is not None:
                s = np.random.default_rng(gen_seed)
            G0 = np.array(G, copy=True) if isinstance(G, np.ndarray) else None
            if kw:
                Q = teneva.core_qr_rand(G=G, m=m, ltr=ltr, seed=s)
            elif ltr == 'default':
                Q = teneva.core_qr_rand(G, m, seed=s)
            else:
                Q = teneva.core_qr_rand(G, m, ltr, s)
            res = {'Q': Q, 'is_G': Q is G}
            if G0 is not None:
                res['G_unchanged'] = bool(np.array_equal(G0, G)) and \
                    G0.dtype == G.dtype and G0.shape == G.shape
            if isinstance(s, np.random.Generator):
                res['gen_after'] = s
                res['next'] = s.random(2)
            return res
        return fn

    shapes = [(1, 1, 1), (1, 5, 1), (1, 4, 3), (3, 4, 1), (2, 3, 2),
              (3, 5, 4), (4, 2, 9), (9, 2, 4), (1, 2, 7), (7, 2, 1),
              (5, 1, 5), (2, 6, 13), (13, 6, 2), (6, 7, 6)]
    k = 0
    for shape in shapes:
        for m in [0, 1, 3, 11]:
            for ltr in [True, False]:
                for seed in [0, 12345]:
                    k += 1
                    G = make_core(shape, 'float', k)
                    run('qr[%s,m=%d,ltr=%s,seed=%d]' % (shape, m, ltr, seed),
                        sc_qr(G, m, ltr, seed))
                k += 1
                G = make_core(shape, 'float', k)
                run('qr-gen[%s,m=%d,ltr=%s]' % (shape, m, ltr),
                    sc_qr(G, m, ltr, None, gen_seed=k))
    for kind in ['int', 'f32', 'complex', 'fortran', 'view', 'transposed',
                 'zeros', 'rankdef']:
        for shape in [(1, 3, 1), (2, 3, 4), (4, 3, 2), (3, 2, 8), (8, 2, 3)]:
            for ltr in [True, False, 1, 0, None, 'default', '', 'no', [], [0]]:
                k += 1
                G = make_core(shape, kind, k)
                run('qr-%s[%s,ltr=%r]' % (kind, shape, ltr),
                    sc_qr(G, 2, ltr, 77, kw=(k % 3 == 0 and ltr != 'default')))
    # Seed flavours (None: only shapes are deterministic -> compare shape):
    Gs = make_core((3, 4, 2), 'float', 1)
    for ltr in [True, False]:
        def sc_none(ltr=ltr):
            Q = teneva.core_qr_rand(Gs, 3, ltr)
            Q2 = teneva.core_qr_rand(Gs, 3, ltr, None)
            return {'sh': Q.shape, 'dt': str(Q.dtype), 'sh2': Q2.shape,
                    'differ': bool(not np.array_equal(Q, Q2))}
        run('qr-none[ltr=%s]' % ltr, sc_none)
        for s in [True, False, 2**70, -3, np.int64(4), 2.5, 'abc',
                  np.random.RandomState(1), np.random.SeedSequence(2),
                  np.random.Generator(np.random.MT19937(5)), np.random]:
            run('qr-seed[%s,ltr=%s]' % (type(s).__name__, ltr),
                sc_qr(Gs, 3, ltr, s))
    # Bad arguments (same exceptions, and a passed generator is / is not
    # advanced in the same way before the failure):
    bad = [
        ([[[1., 2.], [3., 4.]]], 2), (np.ones((3, 4)), 2), (np.ones(5), 1),
        (np.ones((2, 2, 2, 2)), 1), (np.float64(3.), 1), (None, 1),
        (np.ones((2, 3, 2)), -1), (np.ones((2, 3, 2)), 2.0),
        (np.ones((2, 3, 2)), None), (np.ones((2, 3, 2)), '2'),
        (np.ones((2, 3, 2)), [1, 2]), (np.ones((2, 3, 2)), np.int64(2)),
        (np.ones((0, 3, 2)), 2), (np.ones((2, 0, 2)), 2),
        (np.ones((2, 3, 0)), 2), (np.ones((0, 0, 0)), 0),
        (np.full((2, 3, 2), np.nan), 2), (np.full((2, 3, 2), np.inf), 2),
        (np.array([[['a', 'b']]]), 1), (np.ones((2, 3, 2), dtype=object), 1),
        (np.ma.masked_array(np.ones((2, 3, 2))), 1),
    ]
    for j, (G, m) in enumerate(bad):
        for ltr in [True, False]:
            run('qr-bad[%d,ltr=%s]' % (j, ltr), sc_qr(G, m, ltr, 5))
            run('qr-bad-gen[%d,ltr=%s]' % (j, ltr),
                sc_qr(G, m, ltr, None, gen_seed=j))

    # ------------------------------------------------------ sample_lhs ----

    def sc_lhs(n, m, seed, gen_seed=None, kw=False):
        def fn():
            s = seed
            if gen_seed is not None:
                s = np.random.default_rng(gen_seed)
            n0 = np.array(n, copy=True) if isinstance(n, np.ndarray) \
                else (list(n) if isinstance(n, list) else n)
            if kw:
                I = teneva.sample_lhs(n=n, m=m, seed=s)
            else:
                I = teneva.sample_lhs(n, m, s)
            res = {'I': I}
            if isinstance(n, np.ndarray):
                res['n_unchanged'] = bool(np.array_equal(n0, n)) and \
                    n0.dtype == n.dtype
            elif isinstance(n, list):
                res['n_unchanged'] = n0 == n
            if isinstance(s, np.random.Generator):
                res['gen_after'] = s
                res['next'] = s.random(2)
            return res
        return fn

    ns = [[5], [1], [1, 1, 1], [2, 3], [4, 4, 4], [3, 7, 2, 9], [10] * 8,
          [2] * 20, [6, 1, 6], [100, 3], np.array([5, 6, 7]),
          np.array([5, 6, 7], dtype=np.int32), np.array([5., 6.9, 7.2]),
          (4, 5), [3.7, 4.2], [True, 3], np.array([[3, 4], [5, 6]])[0],
          np.arange(2, 14)[::3], [], np.array([], dtype=int)]
    ms = [0, 1, 2, 3, 4, 5, 7, 10, 12, 13, 24, 50, 101, 7.9, 1.E+1,
          np.int64(6), True, '9']
    k = 0
    for n in ns:
        for m in ms:
            for seed in [0, 99]:
                k += 1
                run('lhs[%r,m=%r,seed=%d]' % (n, m, seed),
                    sc_lhs(n, m, seed, kw=(k % 4 == 0)))
            k += 1
            run('lhs-gen[%r,m=%r]' % (n, m), sc_lhs(n, m, None, gen_seed=k))
    # Seed flavours / bad arguments:
    for s in [True, False, 2**70, -3, np.int64(4), 2.5, 'abc',
              np.random.RandomState(1), np.random.SeedSequence(2),
              np.random.Generator(np.random.MT19937(5)), np.random]:
        for n in [[3, 4], []]:
            run('lhs-seed[%s,%r]' % (type(s).__name__, n), sc_lhs(n, 6, s))
    bad = [
        ([3, 4], -1), ([3, 4], -2.5), ([3, 4], None), ([3, 4], 'x'),
        ([3, 4], [5]), ([3, 4], np.array([5])), ([3, 4], np.array([5, 6])),
        ([3, 4], float('nan')), ([3, 4], float('inf')), ([3, 4], 2**70),
        ([0], 0), ([0], 3), ([0, 2], 0), ([2, 0], 4), ([3, 0, 3], 2),
        ([-1], 0), ([-1], 3), ([-2, 3], 4), ([3, -2], 4), ([3, -2], 0),
        (5, 3), (np.int64(5), 3), (None, 3), ('ab', 3), ([None], 3),
        ([[2, 3], [4, 5]], 4), (np.array([[2, 3], [4, 5]]), 4),
        ([[2], [3]], 4), ([float('nan')], 2), ([1.E+30], 2), ([2**40], 3),
        ([3, 'a'], 2), ({}, 2), ({3: 1, 4: 2}, 5), (range(2, 5), 7),
        ((k for k in [2, 3]), 3),
    ]
    for j, (n, m) in enumerate(bad):
        run('lhs-bad[%d]' % j, sc_lhs(n, m, 5))
        if j < 34:
            run('lhs-bad-gen[%d]' % j, sc_lhs(n, m, None, gen_seed=j))

    def sc_lhs_none():
        I = teneva.sample_lhs([4, 5, 6], 9)
        I2 = teneva.sample_lhs([4, 5, 6], 9, None)
        cnt = [np.bincount(I[:, i], minlength=k).min() for i, k in
               enumerate([4, 5, 6])]
        return {'sh': I.shape, 'dt': str(I.dtype), 'sh2': I2.shape,
                'cnt': cnt}
    run('lhs-none', sc_lhs_none)

    def sc_lhs_hist():
        # history independence: same result before / after other calls
        a = teneva.sample_lhs([4, 5, 6], 9, 3)
        teneva.sample_lhs([2, 2], 5)
        teneva.core_qr_rand(np.ones((2, 2, 2)), 2)
        np.random.seed(1)
        b = teneva.sample_lhs([4, 5, 6], 9, 3)
        return {'a': a, 'same': bool(np.array_equal(a, b))}
    run('lhs-history', sc_lhs_hist)

    # ------------------------- callers of the refactored functions --------

    def sc_callers(seed):
        def fn():
            res = {}
            mk = (lambda: np.random.default_rng(seed)) if seed >= 1000 \
                else (lambda: seed)
            res['rand'] = teneva.rand([4, 5, 6], [1, 2, 3, 1], seed=mk())
            res['rand_norm'] = teneva.rand_norm([3] * 4, 2, seed=mk())
            res['rand_stab'] = teneva.rand_stab([3] * 4, 2, seed=mk())
            res['sample_rand'] = teneva.sample_rand([3, 4, 5], 7, mk())
            res['sample_rand_poi'] = teneva.sample_rand_poi(
                [-1., 0.], [1., 2.], 5, mk())
            I, idx, idx_many = teneva.sample_tt([4, 3, 5, 2], 2, seed=mk())
            res['sample_tt'] = [I, idx, idx_many]
            Y = teneva.rand([4] * 4, 2, seed=1)
            Y = teneva.mul(Y, Y)
            res['sample'] = teneva.sample(Y, 6, seed=mk())
            res['sample_square'] = teneva.sample_square(
                teneva.rand([4] * 4, 2, seed=1), 6, seed=mk())
            res['sample_square_nu'] = teneva.sample_square(
                teneva.rand([4] * 4, 2, seed=1), 6, unique=False, seed=mk())
            I_trn = teneva.sample_lhs([5] * 3, 40, mk())
            y_trn = np.sin(I_trn.sum(axis=1) * 0.3)
            res['anova'] = teneva.anova(I_trn, y_trn, r=2, order=1,
                                        seed=mk())
            res['anova2'] = teneva.anova(I_trn, y_trn, r=3, order=2,
                                         seed=mk())
            return res
        return fn
    for seed in [0, 1, 17, 1000, 1017]:
        run('callers[%d]' % seed, sc_callers(seed))

    def sc_cross_act(seed, dr, dr2, use_gen):
        def fn():
            n = [5, 6, 5, 4]
            X1 = teneva.rand(n, 2, seed=1)
            X2 = teneva.rand(n, 3, seed=2)
            Y0 = teneva.rand(n, 2, seed=3)
            s = np.random.default_rng(seed) if use_gen else seed
            Y = teneva.cross_act(lambda X: X[:, 0] * X[:, 1] + 1.,
                                 [X1, X2], Y0, e=1.E-8, nswp=3, r=8, dr=dr,
                                 dr2=dr2, seed=s)
            res = {'Y': Y}
            if use_gen:
                res['gen_after'] = s
            return res
        return fn
    for seed in [0, 5]:
        for dr, dr2 in [(0, 0), (2, 0), (2, 1), (3, 2), (1, 3)]:
            for use_gen in [False, True]:
                run('cross_act[%d,%d,%d,%s]' % (seed, dr, dr2, use_gen),
                    sc_cross_act(seed, dr, dr2, use_gen))

    with open(fpath, 'wb') as f:
        pickle.dump(out, f)


# ---------------------------------------------------------------------------
# Parent part (comparison of the two pickles)
# ---------------------------------------------------------------------------


def compare(a, b, path, errs, stat):
    import numpy as np
    if type(a) is not type(b):
        errs.append('%s: type %s vs %s' % (path, type(a), type(b)))
        return
    if isinstance(a, np.ndarray):
        if a.shape != b.shape or a.dtype != b.dtype:
            errs.append('%s: shape/dtype %s %s vs %s %s' % (
                path, a.shape, a.dtype, b.shape, b.dtype))
            return
        stat['arrays'] += 1
        if a.dtype.kind in 'fc':
            if a.tobytes() == b.tobytes():
                stat['bitexact'] += 1
            elif not np.allclose(a, b, rtol=RTOL, atol=ATOL, equal_nan=True):
                errs.append('%s: values differ (max %.3e)' % (
                    path, np.max(np.abs(a - b))))
        elif not np.array_equal(a, b):
            errs.append('%s: values differ' % path)
        else:
            stat['bitexact'] += 1
        return
    if isinstance(a, (list, tuple)):
        if len(a) != len(b):
            errs.append('%s: len %d vs %d' % (path, len(a), len(b)))
            return
        for i, (x, y) in enumerate(zip(a, b)):
            compare(x, y, '%s/%d' % (path, i), errs, stat)
        return
    if isinstance(a, dict):
        if list(a.keys()) != list(b.keys()):
            errs.append('%s: keys %s vs %s' % (path, list(a), list(b)))
            return
        for k in a:
            compare(a[k], b[k], '%s/%s' % (path, k), errs, stat)
        return
    if isinstance(a, float) and a != a and b != b:
        return
    if a != b:
        errs.append('%s: %r vs %r' % (path, a, b))


def main():
    tmp = tempfile.mkdtemp(prefix='equivC10_')
    files = {}
    for tag, cwd in [('orig', ORIG), ('new', NEW)]:
        files[tag] = os.path.join(tmp, tag + '.pkl')
        env = dict(os.environ)
        env.pop('PYTHONPATH', None)
        env['PYTHONDONTWRITEBYTECODE'] = '1'
        r = subprocess.run([PY, os.path.abspath(__file__), '--worker',
                            files[tag]], cwd=cwd, env=env)
        if r.returncode != 0:
            print('worker %s failed with code %d' % (tag, r.returncode))
            return 1

    with open(files['orig'], 'rb') as f:
        A = pickle.load(f)
    with open(files['new'], 'rb') as f:
        B = pickle.load(f)

    errs = []
    stat = {'arrays': 0, 'bitexact': 0}
    if [x[0] for x in A] != [x[0] for x in B]:
        errs.append('scenario lists differ')
    else:
        for (name, ra), (_, rb) in zip(A, B):
            compare(ra, rb, name, errs, stat)

    n_ok = sum(1 for x in A if x[1][0] == 'ok')
    n_exc = sum(1 for x in A if x[1][0] == 'exc')
    print('scenarios: %d (ok: %d, raising: %d); arrays compared: %d '
          '(bit-exact: %d)' % (len(A), n_ok, n_exc, stat['arrays'],
                               stat['bitexact']))
    exc_kinds = sorted(set(x[1][1] for x in A if x[1][0] == 'exc'))
    print('exception kinds seen:', ', '.join(exc_kinds))
    if errs:
        print('MISMATCHES: %d' % len(errs))
        for e in errs[:40]:
            print('  ', e)
        return 1
    print('EQUIVALENT')
    return 0


if __name__ == '__main__':
    if len(sys.argv) == 3 and sys.argv[1] == '--worker':
        worker(sys.argv[2])
        sys.exit(0)
    sys.exit(main())
