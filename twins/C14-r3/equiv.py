"""Equivalence demonstration for the C14 twin (teneva/sample.py refactoring).

The same deterministic scenario list is run in two subprocesses: one imports
the pristine package (cwd = /tmp/twinsC/C14/orig), the other the refactored
one (cwd = /tmp/wt/C14). Each dumps its outcomes to a pickle; the parent
compares the two pickles entry by entry (values, shapes, dtypes, exceptions,
mutation of the arguments, final state of the random generator).

Exit code 0: everything agrees; 1: otherwise.
"""
import os
import pickle
import subprocess
import sys
import tempfile

ORIG = '/tmp/twinsC/C14/orig'
TWIN = os.environ.get('EQUIV_TWIN', '/tmp/wt/C14')
PY = '/venv/bin/python'


# --------------------------------------------------------------------------
# Worker part (runs inside one of the two packages)
# --------------------------------------------------------------------------


def _tt(rng, n, r, kind='normal'):
    """Build a TT-tensor with mode sizes n and the rank profile r."""
    import numpy as np
    Y = []
    for k in range(len(n)):
        sh = (r[k], n[k], r[k+1])
        if kind == 'normal':
            G = rng.normal(size=sh)
        elif kind == 'nonneg':
            G = rng.uniform(size=sh)
        elif kind == 'sparse':
            G = rng.normal(size=sh) * (rng.uniform(size=sh) < 0.4)
        elif kind == 'big':
            G = rng.normal(size=sh) * 1.E+40
        elif kind == 'small':
            G = rng.normal(size=sh) * 1.E-40
        elif kind == 'zero':
            G = np.zeros(sh)
        elif kind == 'fortran':
            G = np.asfortranarray(rng.normal(size=sh))
        elif kind == 'float32':
            G = rng.normal(size=sh).astype(np.float32)
        elif kind == 'int':
            G = rng.integers(-2, 3, size=sh)
        else:
            raise ValueError(kind)
        Y.append(G)
    return Y


def _make_seed(spec):
    """Build the seed argument from its picklable description."""
    import numpy as np
    kind, val = spec
    if kind == 'int':
        return val
    if kind == 'gen':
        return np.random.default_rng(val)
    if kind == 'gen_used':
        g = np.random.default_rng(val)
        g.normal(size=7)
        return g
    if kind == 'pcg':
        return np.random.Generator(np.random.PCG64(val))
    if kind == 'philox':
        return np.random.Generator(np.random.Philox(val))
    if kind == 'legacy':
        return np.random.RandomState(val)
    if kind == 'npint':
        return np.int64(val)
    if kind == 'str':
        return val
    raise ValueError(kind)


def _rand_state(seed):
    import numpy as np
    if isinstance(seed, np.random.Generator):
        return repr(seed.bit_generator.state)
    if isinstance(seed, np.random.RandomState):
        st = seed.get_state()
        return repr((st[0], st[1].tolist(), st[2:]))
    return None


def _freeze(x):
    """Picklable, comparable image of a result."""
    import numpy as np
    if isinstance(x, np.ndarray):
        return ('arr', str(x.dtype), x.shape, x.flags['C_CONTIGUOUS'],
            np.array(x, copy=True))
    if isinstance(x, (tuple, list)):
        return (type(x).__name__, [_freeze(y) for y in x])
    if isinstance(x, np.generic):
        return ('scalar', str(x.dtype), x.item())
    return ('obj', type(x).__name__, repr(x))


def _call(func, args, kwargs, watch, seed):
    """Run func and record result / exception / mutations / rng state."""
    import copy
    import warnings
    import numpy as np
    before = copy.deepcopy(watch)
    out = {}
    with warnings.catch_warnings(record=True) as wrn:
        warnings.simplefilter('always')
        try:
            res = func(*args, **kwargs)
            out['res'] = _freeze(res)
            if isinstance(res, np.ndarray):
                # The result must not alias an argument:
                out['alias'] = any(np.shares_memory(res, w)
                    for w in _arrays(watch))
        except Exception as e:
            out['exc'] = (type(e).__name__, str(e))
    out['warn'] = sorted(set((w.category.__name__, str(w.message))
        for w in wrn))
    out['args_after'] = _freeze(watch)
    out['args_same'] = _same(before, watch)
    out['rng'] = _rand_state(seed)
    return out


def _arrays(x):
    import numpy as np
    if isinstance(x, np.ndarray):
        return [x]
    if isinstance(x, (list, tuple)):
        res = []
        for y in x:
            res.extend(_arrays(y))
        return res
    return []


def _same(a, b):
    import numpy as np
    if isinstance(a, np.ndarray):
        return (isinstance(b, np.ndarray) and a.dtype == b.dtype
            and a.shape == b.shape and np.array_equal(a, b, equal_nan=True))
    if isinstance(a, (list, tuple)):
        return (type(a) is type(b) and len(a) == len(b)
            and all(_same(x, y) for x, y in zip(a, b)))
    return a == b


def _cap(kw, n, m, kind):
    """Bound the number of restarts where m unique samples may not exist.

    (The default max_rep=100 doubles m_fact up to 10^6, i.e. runs for hours
    in a Python loop if the tensor has fewer than m non-zero entries.)
    """
    kw = dict(kw)
    size = 1
    for k in n:
        size *= k
    try:
        few = 4*int(m) > size
    except Exception:
        few = False
    if kw.get('unique', True) and 'max_rep' not in kw:
        if few or kind in ('sparse', 'zero', 'int'):
            kw['max_rep'] = 3
    return kw


SEEDS = [('int', 0), ('int', 1), ('int', 42), ('int', 12345), ('gen', 7),
    ('gen_used', 3), ('pcg', 11), ('philox', 5), ('legacy', 9)]


def scenarios():
    """Deterministic scenario list: (name, function name, builder)."""
    import numpy as np
    S = []

    # ---- sample_lhs ------------------------------------------------------
    shapes = [
        [5], [1], [2, 2], [3, 4], [7, 7, 7], [4, 9, 4, 9], [1, 1, 1],
        [10, 3, 10, 3, 10], [6, 5, 4, 3, 2, 1], [16]*6, [2]*10,
        [50, 20], [3, 1, 3, 1], (8, 8, 5), [11, 13, 17], [4.0, 6.0, 4.0],
        [5.9, 5.2, 5], [100, 100, 100, 7],
    ]
    ms = [1, 2, 3, 5, 7, 8, 10, 16, 33, 100, 7.0, 12.9, 1.E+2, 257]
    k = 0
    for n in shapes:
        for m in ms:
            for how in ('list', 'array', 'array_i32', 'tuple'):
                k += 1
                if (k % 3) != 0 and how != 'list':
                    continue
                spec = SEEDS[k % len(SEEDS)]
                S.append(('lhs/%s/%s/%s/%s' % (n, m, how, spec),
                    'sample_lhs', dict(n=n, m=m, how=how, seed=spec)))
    # Edge cases (also outside of the quantifier: must fail in the same way)
    for n, m in [([3, 0, 3], 4), ([], 3), ([4, 4], 0), ([-2, 3], 3),
            ([[2, 3], [2, 3]], 2), ([3, 3], -1), ([3, 3], 'a'), (5, 3)]:
        for spec in [('int', 3), ('gen', 3)]:
            S.append(('lhs-edge/%s/%s/%s' % (n, m, spec), 'sample_lhs',
                dict(n=n, m=m, how='list', seed=spec)))
    for spec in [('npint', 3), ('str', 'abc')]:
        S.append(('lhs-seed/%s' % (spec, ), 'sample_lhs',
            dict(n=[4, 5], m=6, how='list', seed=spec)))
    # Two successive calls with one generator object
    for n, m in [([4, 4, 5], 9), ([3]*5, 2)]:
        S.append(('lhs-twice/%s/%s' % (n, m), 'sample_lhs_twice',
            dict(n=n, m=m, seed=('gen', 21))))

    # ---- sample_tt (uses sample_lhs) ---------------------------------------
    for n in [[3, 4], [5, 5, 5], [2, 3, 4, 5], [6, 2, 6, 2, 6], [4]*6,
            (3, 3, 3), np.array([7, 3, 7])]:
        for r in [1, 2, 4, 7]:
            for spec in [('int', 0), ('int', 5), ('gen', 2), ('legacy', 4)]:
                S.append(('tt/%s/%s/%s' % (list(n), r, spec), 'sample_tt',
                    dict(n=n, r=r, seed=spec)))

    # ---- sample_square ---------------------------------------------------
    profiles = [
        ([4, 5], [1, 3, 1], 'normal'),
        ([2, 2], [1, 1, 1], 'normal'),
        ([3, 3, 3], [1, 1, 1, 1], 'normal'),
        ([3, 3, 3], [1, 2, 2, 1], 'nonneg'),
        ([5, 4, 3, 6], [1, 3, 4, 2, 1], 'normal'),
        ([2, 3, 2, 3, 2], [1, 2, 5, 5, 2, 1], 'normal'),
        ([2, 2, 2], [1, 5, 7, 1], 'normal'),        # over-ranked cores
        ([3, 2, 3, 2], [1, 9, 9, 9, 1], 'normal'),  # over-ranked cores
        ([4, 4, 4, 4, 4, 4], [1, 2, 3, 4, 3, 2, 1], 'normal'),
        ([6, 6, 6], [1, 4, 4, 1], 'sparse'),
        ([5, 5, 5], [1, 3, 3, 1], 'big'),
        ([5, 5, 5], [1, 3, 3, 1], 'small'),
        ([4, 3, 4], [1, 2, 2, 1], 'fortran'),
        ([4, 3, 4], [1, 2, 2, 1], 'float32'),
        ([4, 3, 4], [1, 2, 2, 1], 'int'),
        ([1, 1], [1, 1, 1], 'normal'),
        ([1, 4, 1], [1, 2, 2, 1], 'normal'),
        ([10, 12], [1, 6, 1], 'normal'),
        ([3]*8, [1] + [2]*7 + [1], 'nonneg'),
    ]
    k = 0
    for ip, (n, r, kind) in enumerate(profiles):
        for m in [1, 2, 5, 17, 4.0]:
            for unique in [True, False, 1, 0, None]:
                k += 1
                if unique not in (True, False) and (k % 4) != 0:
                    continue
                spec = SEEDS[k % len(SEEDS)]
                S.append(('sq/%d/%s/%s/%s/%s' % (ip, kind, m, unique, spec),
                    'sample_square', dict(tt=(100+ip, n, r, kind), m=m,
                    kw=_cap(dict(unique=unique), n, m, kind), seed=spec)))
    # Options m_fact / max_rep, incl. the "not enough samples" branches
    for ip, (n, r, kind) in enumerate(profiles[:8]):
        for kw in [
                dict(m_fact=1), dict(m_fact=2, max_rep=3),
                dict(m_fact=1, max_rep=0), dict(m_fact=1, max_rep=-1),
                dict(m_fact=1, max_rep=1), dict(m_fact=3, unique=False),
                dict(m_fact=1, max_rep=2, unique=True)]:
            for m in [3, 8, 40, 120]:
                for spec in [('int', 2), ('gen', 8), ('legacy', 1)]:
                    S.append(('sq-opt/%d/%s/%s/%s' % (ip, kw, m, spec),
                        'sample_square', dict(tt=(200+ip, n, r, kind), m=m,
                        kw=_cap(kw, n, m, kind), seed=spec)))
    # The limit of the oversampling factor (m bigger than the tensor size)
    # (expensive: m_fact*m draws in a Python loop, hence only a few cases)
    limits = [(1000001, 5), (1000000, -1), (500001, 0)]
    if os.environ.get('EQUIV_FAST'):
        limits = []
    for m_fact, max_rep in limits:
        S.append(('sq-limit/%s/%s' % (m_fact, max_rep), 'sample_square',
            dict(tt=(300, [1, 1], [1, 1, 1], 'normal'), m=2,
            kw=dict(m_fact=m_fact, max_rep=max_rep), seed=('int', 0))))
    for ip, (n, r, kind) in enumerate(profiles[4:9]):
        for cf in [1, 2, 3, 1.5, 2.0]:
            for unique in [True, False]:
                for spec in [('int', 6), ('gen', 6)]:
                    S.append(('sq-cf/%d/%s/%s/%s' % (ip, cf, unique, spec),
                        'sample_square', dict(tt=(400+ip, n, r, kind), m=6,
                        kw=_cap(dict(float_cf=cf, unique=unique), n, 6,
                        kind), seed=spec)))
    # Degenerate / failing inputs
    S.append(('sq-zero', 'sample_square', dict(tt=(500, [3, 3, 3],
        [1, 2, 2, 1], 'zero'), m=3, kw=dict(max_rep=2), seed=('int', 0))))
    S.append(('sq-zero-nu', 'sample_square', dict(tt=(500, [3, 3, 3],
        [1, 2, 2, 1], 'zero'), m=3, kw=dict(unique=False), seed=('gen', 0))))
    S.append(('sq-m0', 'sample_square', dict(tt=(501, [3, 3], [1, 2, 1],
        'normal'), m=0, kw={}, seed=('int', 0))))
    S.append(('sq-m0-nu', 'sample_square', dict(tt=(501, [3, 3], [1, 2, 1],
        'normal'), m=0, kw=dict(unique=False), seed=('int', 0))))
    S.append(('sq-mneg', 'sample_square', dict(tt=(501, [3, 3], [1, 2, 1],
        'normal'), m=-2, kw=dict(unique=False), seed=('int', 0))))
    S.append(('sq-mstr', 'sample_square', dict(tt=(501, [3, 3], [1, 2, 1],
        'normal'), m='x', kw={}, seed=('int', 0))))
    S.append(('sq-badrank', 'sample_square', dict(tt=(502, [3, 3, 3],
        [2, 2, 2, 1], 'normal'), m=3, kw={}, seed=('int', 0))))
    S.append(('sq-npint', 'sample_square', dict(tt=(503, [3, 3, 3],
        [1, 2, 2, 1], 'normal'), m=3, kw={}, seed=('npint', 4))))
    S.append(('sq-d1', 'sample_square', dict(tt=(504, [5], [1, 1],
        'normal'), m=3, kw=dict(max_rep=2), seed=('int', 4))))
    # Positional spelling of the options
    S.append(('sq-pos', 'sample_square_pos', dict(tt=(505, [4, 4, 4],
        [1, 3, 3, 1], 'normal'), m=5, seed=('int', 13))))
    # Two successive calls with one generator object
    S.append(('sq-twice', 'sample_square_twice', dict(tt=(506, [4, 5, 4],
        [1, 3, 3, 1], 'normal'), m=6, seed=('gen', 31))))

    # ---- _sample_core_first (direct) ---------------------------------------
    for n, r in [(1, 1), (2, 1), (5, 3), (8, 8), (3, 10), (40, 4)]:
        for m in [0, 1, 4, 25]:
            for lay in ['C', 'F', 'strided']:
                for spec in [('gen', 1), ('legacy', 2), ('philox', 3)]:
                    S.append(('scf/%d/%d/%d/%s/%s' % (n, r, m, lay, spec),
                        '_sample_core_first', dict(n=n, r=r, m=m, lay=lay,
                        seed=spec)))

    # ---- sample (untouched here; sanity only) ------------------------------
    for ip, (n, r, kind) in enumerate(profiles[:6]):
        S.append(('sample/%d' % ip, 'sample', dict(tt=(600+ip, n, r,
            'nonneg'), m=7, seed=('int', ip))))

    return S


def run_one(teneva, fname, a):
    import numpy as np
    smp = sys.modules[teneva.__name__ + '.sample']  # (the module)
    seed = _make_seed(a['seed'])

    if fname == 'sample_lhs':
        n = a['n']
        if a['how'] == 'array':
            n = np.array(n)
        elif a['how'] == 'array_i32':
            n = np.array(n, dtype=np.int32)
        elif a['how'] == 'tuple':
            n = tuple(n)
        return _call(teneva.sample_lhs, (n, a['m']), dict(seed=seed),
            [n], seed)

    if fname == 'sample_lhs_twice':
        def f(n, m, seed):
            return (teneva.sample_lhs(n, m, seed),
                teneva.sample_lhs(n, m, seed=seed))
        return _call(f, (a['n'], a['m'], seed), {}, [a['n']], seed)

    if fname == 'sample_tt':
        n = a['n']
        return _call(teneva.sample_tt, (n, ), dict(r=a['r'], seed=seed),
            [n], seed)

    if fname in ('sample_square', 'sample_square_pos', 'sample_square_twice',
            'sample'):
        s0, n, r, kind = a['tt']
        Y = _tt(np.random.default_rng(s0), n, r, kind)
        if fname == 'sample':
            return _call(teneva.sample, (Y, a['m']), dict(seed=seed),
                [Y], seed)
        if fname == 'sample_square_pos':
            return _call(teneva.sample_square, (Y, a['m'], True, seed, 2,
                4, None), {}, [Y], seed)
        if fname == 'sample_square_twice':
            def f(Y, m, seed):
                return (teneva.sample_square(Y, m, seed=seed),
                    teneva.sample_square(Y, m, False, seed))
            return _call(f, (Y, a['m'], seed), {}, [Y], seed)
        kw = dict(a['kw'])
        kw['seed'] = seed
        return _call(teneva.sample_square, (Y, a['m']), kw, [Y], seed)

    if fname == '_sample_core_first':
        rng = np.random.default_rng(1000 + 10*a['n'] + a['r'])
        n, r = a['n'], a['r']
        if a['lay'] == 'C':
            Q = rng.normal(size=(n, r))
        elif a['lay'] == 'F':
            Q = np.asfortranarray(rng.normal(size=(n, r)))
        else:
            Q = rng.normal(size=(2*n, 2*r))[::2, ::2]
        I = np.arange(n).reshape(-1, 1)
        return _call(smp._sample_core_first, (Q, I, a['m'], seed), {},
            [Q, I], seed)

    raise ValueError(fname)


def worker(out_path):
    sys.path.insert(0, os.getcwd())
    import teneva
    root = os.path.dirname(os.path.dirname(os.path.abspath(teneva.__file__)))
    assert root == os.path.abspath(os.getcwd()), (root, os.getcwd())
    res = {'__root__': root}
    import time
    slow = []
    for name, fname, a in scenarios():
        assert name not in res, name
        t = time.perf_counter()
        res[name] = run_one(teneva, fname, a)
        t = time.perf_counter() - t
        if t > 5.:
            slow.append((round(t, 1), name))
    if slow and os.environ.get('EQUIV_VERBOSE'):
        print('slow scenarios:', sorted(slow)[-10:])
    with open(out_path, 'wb') as f:
        pickle.dump(res, f)


# --------------------------------------------------------------------------
# Comparison part
# --------------------------------------------------------------------------


def _cmp(a, b, path, bad):
    import numpy as np
    if type(a) is not type(b):
        bad.append('%s: type %s != %s' % (path, type(a), type(b)))
    elif isinstance(a, np.ndarray):
        if a.dtype != b.dtype or a.shape != b.shape:
            bad.append('%s: dtype / shape %s %s != %s %s' % (path, a.dtype,
                a.shape, b.dtype, b.shape))
        elif a.dtype.kind in 'fc':
            if not np.allclose(a, b, rtol=1.E-13, atol=0., equal_nan=True):
                bad.append('%s: values differ' % path)
        elif not np.array_equal(a, b):
            bad.append('%s: values differ' % path)
    elif isinstance(a, dict):
        if sorted(a) != sorted(b):
            bad.append('%s: keys %s != %s' % (path, sorted(a), sorted(b)))
        else:
            for k in a:
                _cmp(a[k], b[k], path + '/' + str(k), bad)
    elif isinstance(a, (list, tuple)):
        if len(a) != len(b):
            bad.append('%s: len %d != %d' % (path, len(a), len(b)))
        else:
            for i, (x, y) in enumerate(zip(a, b)):
                _cmp(x, y, path + '/' + str(i), bad)
    elif a != b:
        bad.append('%s: %r != %r' % (path, a, b))


def main():
    tmp = tempfile.mkdtemp(prefix='equivC14_')
    outs, procs = [], []
    for tag, cwd in (('orig', ORIG), ('twin', TWIN)):
        out = os.path.join(tmp, tag + '.pkl')
        env = dict(os.environ)
        env.pop('PYTHONPATH', None)
        env['PYTHONDONTWRITEBYTECODE'] = '1'
        p = subprocess.Popen([PY, os.path.abspath(__file__), '--worker',
            out], cwd=cwd, env=env)
        procs.append((tag, p))
        outs.append(out)
    for tag, p in procs:
        if p.wait() != 0:
            print('worker %s failed (exit %d)' % (tag, p.returncode))
            return 1

    with open(outs[0], 'rb') as f:
        A = pickle.load(f)
    with open(outs[1], 'rb') as f:
        B = pickle.load(f)

    if A.pop('__root__') != ORIG or B.pop('__root__') != TWIN:
        print('wrong package roots')
        return 1

    # Outside of the quantifier (n is not a list of mode sizes but a matrix):
    # both packages must fail, but the failing statement differs (the original
    # fails in np.arange(k), the refactored one when k is used as the key of
    # the per-call table), so only "both raise" is required for these.
    for name in sorted(A):
        if name.startswith('lhs-edge/[[2, 3], [2, 3]]/'):
            a, b = A.pop(name), B.pop(name)
            if 'exc' not in a or 'exc' not in b:
                print('%s: one of the packages does not fail' % name)
                return 1
            print('outside of the quantifier, both fail: %s: %s / %s' % (
                name, a['exc'][0], b['exc'][0]))

    bad = []
    _cmp(A, B, '', bad)

    n_exc = sum(1 for v in A.values() if 'exc' in v)
    n_mut = sum(1 for v in A.values() if not v['args_same'])
    n_alias = sum(1 for v in A.values() if v.get('alias'))
    print('scenarios: %d (with result: %d, with exception: %d); '
        'argument mutations seen: %d; aliased results: %d' % (
        len(A), len(A) - n_exc, n_exc, n_mut, n_alias))
    kinds = {}
    for v in A.values():
        if 'exc' in v:
            kinds[v['exc'][0]] = kinds.get(v['exc'][0], 0) + 1
    print('exception kinds (both packages):', kinds)

    if bad:
        print('DIFFERENCES: %d' % len(bad))
        for b in bad[:40]:
            print('  ', b)
        return 1

    print('OK: the refactored package agrees with the original one')
    return 0


if __name__ == '__main__':
    if len(sys.argv) == 3 and sys.argv[1] == '--worker':
        worker(sys.argv[2])
        sys.exit(0)
    sys.exit(main())
