"""Equivalence demonstration for the C15 twin B refactoring.

The same deterministic scenario list is executed in two subprocesses, one
importing the pristine package (cwd=/tmp/twinsB/C15/orig) and one importing the
refactored package (cwd=/tmp/wt/C15). Each dumps its results to a pickle; the
parent compares the two pickles entry by entry (type, shape, dtype, values,
exceptions, mutation of arguments). Exit code 0 if all agree, 1 otherwise.

Refactored functions: teneva.optima_tt_max, teneva.optima_tt,
teneva.optima_qtt, teneva.ind_qtt_to_tt.
"""
import os
import pickle
import subprocess
import sys
import tempfile

import numpy as np


DIR_ORIG = '/tmp/twinsB/C15/orig'
DIR_NEW = '/tmp/wt/C15'
RTOL = 1.E-13
ATOL = 1.E-14


WORKER = r'''
import pickle
import sys
import warnings

import numpy as np

sys.path.insert(0, '.')
import teneva

assert teneva.__file__.startswith(sys.argv[2]), (teneva.__file__, sys.argv[2])
warnings.simplefilter('ignore')


def snap(Y):
    if isinstance(Y, np.ndarray):
        return Y.copy()
    if isinstance(Y, (list, tuple)):
        return [snap(G) for G in Y]
    return Y


def pack(x):
    """Turn result into picklable description (keeps kind/dtype/shape)."""
    if isinstance(x, tuple):
        return ('tuple', [pack(v) for v in x])
    if isinstance(x, list):
        return ('list', [pack(v) for v in x])
    if isinstance(x, np.ndarray):
        return ('ndarray', str(x.dtype), x.shape, np.array(x))
    if isinstance(x, np.generic):
        return ('npscalar', str(x.dtype), x.item())
    return ('py', type(x).__name__, x)


def run(func, args, kwargs=None, mutable=()):
    """Call func, record result or exception and the state of the args."""
    kwargs = kwargs or {}
    out = {}
    try:
        res = func(*args, **kwargs)
        out['res'] = pack(res)
    except Exception as exc:
        out['exc'] = (type(exc).__name__, str(exc))
    out['args_after'] = [pack(snap(args[j])) for j in mutable]
    return out


def tensors():
    """Deterministic list of (name, TT-tensor)."""
    res = []
    seed = 0
    shapes = [
        [2, 2], [3, 4], [5, 2, 3], [4, 4, 4], [2, 3, 4, 5], [3, 3, 3, 3, 3],
        [2, 2, 2, 2, 2, 2], [6, 1, 4], [7, 5]]
    for n in shapes:
        d = len(n)
        profiles = [1, 2, 3, 9]                       # 9: over-ranked cores
        profiles.append([1] + [2 + (j % 3) for j in range(d-1)] + [1])
        for r in profiles:
            for sgn in ('mixed', 'pos', 'neg'):
                seed += 1
                a, b = {'mixed': (-1., 1.), 'pos': (0.1, 1.),
                    'neg': (-1., -0.1)}[sgn]
                Y = teneva.rand(n, r, a, b, seed=seed)
                res.append((f'rand n={n} r={r} {sgn} seed={seed}', Y))
    for n in ([3, 4], [2, 3, 4], [4, 4, 4, 4]):
        for v in (1., -2.5, 0., 1.E-20, 3.E+8):
            res.append((f'const n={n} v={v}', teneva.const(n, v)))
        for v in (1., -1.):
            i = [k - 1 for k in n]
            res.append((f'delta n={n} v={v}', teneva.delta(n, i, v)))
    # Ties: tensor with integer-valued cores (many equal entries):
    for seed in range(5):
        rng = np.random.default_rng(100 + seed)
        n = [3, 4, 3, 2]
        r = [1, 2, 3, 2, 1]
        Y = [rng.integers(-1, 2, size=(r[j], n[j], r[j+1])).astype(float)
            for j in range(4)]
        res.append((f'ties seed={seed}', Y))
    # Sum of two rank-1 tensors with equal max and min modulus:
    Y = teneva.add(teneva.delta([3, 3, 3], [0, 1, 2], 2.),
        teneva.delta([3, 3, 3], [2, 1, 0], -2.))
    res.append(('two deltas', Y))
    return res


def tensors_pow2():
    res = []
    seed = 1000
    for d in (2, 3, 4):
        for q in (1, 2, 3):
            for r in (1, 2, 4):
                for sgn in ((-1., 1.), (0.2, 1.)):
                    seed += 1
                    Y = teneva.rand([2**q]*d, r, sgn[0], sgn[1], seed=seed)
                    res.append((f'pow2 d={d} q={q} r={r} {sgn}', Y))
    for v in (1., -3., 0.):
        res.append((f'pow2 const v={v}', teneva.const([4, 4, 4], v)))
    return res


def scenarios():
    out = []
    ks = [1, 2, 3, 10, 100, 100000]

    for name, Y in tensors():
        for k in ks:
            Y1 = snap(Y)
            out.append((f'optima_tt_max | {name} | k={k}',
                run(teneva.optima_tt_max, (Y1, k), mutable=(0,))))
            Y2 = snap(Y)
            out.append((f'optima_tt | {name} | k={k}',
                run(teneva.optima_tt, (Y2, k), mutable=(0,))))
        Y3 = snap(Y)
        out.append((f'optima_tt default | {name}',
            run(teneva.optima_tt, (Y3,), mutable=(0,))))
        Y4 = snap(Y)
        out.append((f'optima_tt_max kw | {name}',
            run(teneva.optima_tt_max, (Y4,), {'k': 5}, mutable=(0,))))
        # optima_qtt on generic shapes: must raise the same errors (or work
        # the same when the shape happens to be admissible):
        Y5 = snap(Y)
        out.append((f'optima_qtt generic | {name}',
            run(teneva.optima_qtt, (Y5, 7), mutable=(0,))))

    for name, Y in tensors_pow2():
        for k in (1, 2, 5, 100, 5000):
            Y1 = snap(Y)
            out.append((f'optima_qtt | {name} | k={k}',
                run(teneva.optima_qtt, (Y1, k), mutable=(0,))))
        Y2 = snap(Y)
        out.append((f'optima_qtt opts | {name}',
            run(teneva.optima_qtt, (Y2,), {'k': 20, 'e': 1.E-6, 'r': 3},
                mutable=(0,))))
        Y3 = snap(Y)
        out.append((f'optima_qtt default | {name}',
            run(teneva.optima_qtt, (Y3,), mutable=(0,))))

    # Error cases for optima_qtt:
    for n in ([4, 8], [3, 3], [6, 6, 6], [4, 4, 2], [1, 1], [5]):
        Y = teneva.rand(n, 2, seed=7)
        out.append((f'optima_qtt err n={n}',
            run(teneva.optima_qtt, (Y, 3), mutable=(0,))))

    # ind_qtt_to_tt alone:
    rng = np.random.default_rng(42)
    for q in (1, 2, 3, 5, 10):
        for d in (1, 2, 3, 6):
            for m in (0, 1, 2, 17):
                I = rng.integers(0, 2, size=(m, d*q))
                for kind in ('arr', 'list', 'i32', 'float', 'fort', 'view'):
                    if kind == 'arr':
                        arg = I.copy()
                    elif kind == 'list':
                        arg = I.tolist()
                    elif kind == 'i32':
                        arg = I.astype(np.int32)
                    elif kind == 'float':
                        arg = I.astype(float)
                    elif kind == 'fort':
                        arg = np.asfortranarray(I)
                    else:
                        arg = np.hstack((I, I))[:, :d*q]
                    if kind == 'list' and m == 0:
                        continue
                    out.append((f'ind_qtt_to_tt q={q} d={d} m={m} {kind}',
                        run(teneva.ind_qtt_to_tt, (arg, q), mutable=(0,))))
            i = rng.integers(0, 2, size=d*q)
            out.append((f'ind_qtt_to_tt 1D q={q} d={d}',
                run(teneva.ind_qtt_to_tt, (i.copy(), q), mutable=(0,))))
            out.append((f'ind_qtt_to_tt 1D list q={q} d={d}',
                run(teneva.ind_qtt_to_tt, (i.tolist(), q), mutable=(0,))))
            out.append((f'ind_qtt_to_tt 1D kw q={q} d={d}',
                run(teneva.ind_qtt_to_tt, (), {'I_qtt': i.copy(), 'q': q})))
    # All-ones / all-zeros (extreme values):
    for q in (1, 4):
        out.append((f'ind_qtt_to_tt ones q={q}',
            run(teneva.ind_qtt_to_tt, (np.ones((3, 3*q), dtype=int), q))))
        out.append((f'ind_qtt_to_tt zeros q={q}',
            run(teneva.ind_qtt_to_tt, (np.zeros(2*q, dtype=int), q))))
    # Length not divisible by q (trailing digits ignored), too short, and
    # invalid input (same exceptions expected):
    out.append(('ind_qtt_to_tt trailing',
        run(teneva.ind_qtt_to_tt, (rng.integers(0, 2, size=(4, 8)), 3))))
    out.append(('ind_qtt_to_tt trailing 1D',
        run(teneva.ind_qtt_to_tt, (rng.integers(0, 2, size=7), 2))))
    out.append(('ind_qtt_to_tt short',
        run(teneva.ind_qtt_to_tt, (rng.integers(0, 2, size=(4, 2)), 3))))
    out.append(('ind_qtt_to_tt bad digit',
        run(teneva.ind_qtt_to_tt, (np.array([[0, 1, 2, 1]]), 2))))
    out.append(('ind_qtt_to_tt negative digit',
        run(teneva.ind_qtt_to_tt, (np.array([0, -1, 1, 1]), 2))))
    out.append(('ind_qtt_to_tt q=0',
        run(teneva.ind_qtt_to_tt, (np.array([0, 1, 1, 1]), 0))))
    out.append(('ind_qtt_to_tt None',
        run(teneva.ind_qtt_to_tt, (None, 2))))
    out.append(('ind_qtt_to_tt scalar',
        run(teneva.ind_qtt_to_tt, (1, 2))))

    # Result must not alias the argument (write into result, look at arg):
    I = rng.integers(0, 2, size=(5, 6))
    I_ref = I.copy()
    res = teneva.ind_qtt_to_tt(I, 2)
    res[...] = -7
    out.append(('ind_qtt_to_tt alias', {'res': pack(I), 'args_after': [],
        'extra': bool(np.array_equal(I, I_ref)),
        'flags': (bool(res.flags.writeable), bool(res.flags.c_contiguous))}))

    return out


if __name__ == '__main__':
    with open(sys.argv[1], 'wb') as f:
        pickle.dump(scenarios(), f)
'''


def same(a, b, path, errs):
    """Compare two packed values; append messages to errs on mismatch."""
    if type(a) is not type(b):
        errs.append(f'{path}: type {type(a)} vs {type(b)}')
        return
    if isinstance(a, tuple) and a and a[0] in ('tuple', 'list'):
        if a[0] != b[0] or len(a[1]) != len(b[1]):
            errs.append(f'{path}: container {a[0]}/{len(a[1])} vs '
                f'{b[0]}/{len(b[1])}')
            return
        for j, (u, v) in enumerate(zip(a[1], b[1])):
            same(u, v, f'{path}[{j}]', errs)
        return
    if isinstance(a, tuple) and a and a[0] == 'ndarray':
        if b[0] != 'ndarray' or a[1] != b[1] or a[2] != b[2]:
            errs.append(f'{path}: array meta {a[:3]} vs {b[:3]}')
            return
        if a[3].dtype.kind in 'iub':
            ok = np.array_equal(a[3], b[3])
        else:
            ok = np.allclose(a[3], b[3], rtol=RTOL, atol=ATOL, equal_nan=True)
        if not ok:
            errs.append(f'{path}: array values differ')
        return
    if isinstance(a, tuple) and a and a[0] == 'npscalar':
        if b[0] != 'npscalar' or a[1] != b[1]:
            errs.append(f'{path}: scalar meta {a[:2]} vs {b[:2]}')
            return
        u, v = a[2], b[2]
        if isinstance(u, float):
            ok = (np.isnan(u) and np.isnan(v)) or np.isclose(u, v,
                rtol=RTOL, atol=ATOL)
        else:
            ok = u == v
        if not ok:
            errs.append(f'{path}: scalar {u!r} vs {v!r}')
        return
    if a != b:
        errs.append(f'{path}: {a!r} vs {b!r}')


def bitwise_stat(a, b):
    """Count float leaves which are not bit-for-bit equal (informational)."""
    cnt = 0
    if isinstance(a, tuple) and a and a[0] in ('tuple', 'list'):
        for u, v in zip(a[1], b[1]):
            cnt += bitwise_stat(u, v)
    elif isinstance(a, tuple) and a and a[0] == 'ndarray':
        cnt += int(not np.array_equal(a[3], b[3], equal_nan=True))
    elif isinstance(a, tuple) and a and a[0] == 'npscalar':
        cnt += int(not (a[2] == b[2] or (a[2] != a[2] and b[2] != b[2])))
    return cnt


def main():
    tmp = tempfile.mkdtemp(prefix='c15_equiv_')
    fworker = os.path.join(tmp, 'worker.py')
    with open(fworker, 'w') as f:
        f.write(WORKER)

    dumps = {}
    for tag, cwd in (('orig', DIR_ORIG), ('new', DIR_NEW)):
        fout = os.path.join(tmp, f'{tag}.pkl')
        env = dict(os.environ)
        env.pop('PYTHONPATH', None)
        proc = subprocess.run([sys.executable, fworker, fout, cwd], cwd=cwd,
            env=env, capture_output=True, text=True)
        if proc.returncode != 0:
            print(f'Worker "{tag}" failed:\n{proc.stdout}\n{proc.stderr}')
            return 1
        with open(fout, 'rb') as f:
            dumps[tag] = pickle.load(f)

    A, B = dumps['orig'], dumps['new']
    if len(A) != len(B):
        print(f'Different number of scenarios: {len(A)} vs {len(B)}')
        return 1

    n_bad = 0
    n_exc = 0
    n_inexact = 0
    for (name_a, a), (name_b, b) in zip(A, B):
        errs = []
        if name_a != name_b:
            errs.append(f'name {name_a} vs {name_b}')
        if sorted(a.keys()) != sorted(b.keys()):
            errs.append(f'outcome kind {sorted(a.keys())} vs '
                f'{sorted(b.keys())}')
        else:
            for key in a:
                if key == 'exc':
                    n_exc += 1
                    if a[key] != b[key]:
                        errs.append(f'exception {a[key]} vs {b[key]}')
                elif key == 'args_after':
                    same(('list', a[key]), ('list', b[key]), 'args', errs)
                    n_inexact += bitwise_stat(('list', a[key]),
                        ('list', b[key]))
                elif key == 'res':
                    same(a[key], b[key], 'res', errs)
                    n_inexact += bitwise_stat(a[key], b[key])
                elif a[key] != b[key]:
                    errs.append(f'{key}: {a[key]} vs {b[key]}')
        if errs:
            n_bad += 1
            print(f'MISMATCH | {name_a}')
            for err in errs[:5]:
                print(f'    {err}')

    print(f'Scenarios compared : {len(A)}')
    print(f'  with exceptions  : {n_exc} (same type and message required)')
    print(f'  not bit-identical: {n_inexact} (informational)')
    print(f'  mismatches       : {n_bad}')
    return 1 if n_bad else 0


if __name__ == '__main__':
    sys.exit(main())
