"""Equivalence demonstration for the C06 refactoring (TT-cross stop contract).

Usage:  /venv/bin/python /tmp/twinsA/C06/equiv.py

The same deterministic scenario list is executed in two subprocesses, one
importing the pristine package (/tmp/twinsA/C06/orig) and one importing the
refactored package (/tmp/wt/C06).  Each dumps its records into a pickle and
the two pickles are compared record by record.  Exit code 0 iff all agree.
"""
import contextlib
import hashlib
import io
import itertools
import os
import pickle
import re
import subprocess
import sys

import numpy as np


ROOT_ORIG = '/tmp/twinsA/C06/orig'
ROOT_NEW = os.environ.get('EQUIV_ROOT_NEW', '/tmp/wt/C06')
OUT_DIR = os.environ.get('EQUIV_OUT_DIR', '/tmp/twinsA/C06')
RTOL = 1.E-10
ATOL = 1.E-12


# ---------------------------------------------------------------------------
# Worker part (runs with one of the two packages)
# ---------------------------------------------------------------------------


def _mask_time(text):
    return re.sub(r'time:\s+[-0-9.eE+]+', 'time: <T>', text)


def _exc(ex):
    return (type(ex).__name__, str(ex))


def _snap_info(info):
    out = {}
    for k, v in info.items():
        if k == 't':
            out[k] = ('<time>', type(v).__name__)
        else:
            out[k] = (v, type(v).__name__)
    return ('info-keys', list(info.keys()), out)


def _snap_cache(cache):
    if cache is None:
        return None
    items = []
    for key, val in cache.items():   # insertion order matters too
        items.append((tuple(int(x) for x in key),
            tuple(type(x).__name__ for x in key), val, type(val).__name__))
    return items


def _snap_arr(A):
    if A is None:
        return None
    A = np.asarray(A)
    return ('arr', A.shape, str(A.dtype), A.copy())


def _snap_int(A):
    # Compact exact fingerprint of an (integer) array: shape, dtype, bounds
    # and the digest of the raw bytes.
    if A is None:
        return None
    A = np.ascontiguousarray(A)
    lo = int(A.min()) if A.size else None
    hi = int(A.max()) if A.size else None
    return ('int', A.shape, str(A.dtype), lo, hi,
        hashlib.sha1(A.tobytes()).hexdigest())


class Objective:
    """Recording objective; returns None at the call number none_at."""

    def __init__(self, kind, d, none_at=None, mutate=False):
        self.kind = kind
        self.d = d
        self.none_at = none_at
        self.calls = []
        self.ncall = 0
        self.w = np.linspace(0.3, 1.7, d)

    def __call__(self, I):
        self.ncall += 1
        if self.ncall > 5000:
            # Safety net against scenarios that would never stop (the same
            # exception is then expected from both packages):
            raise RuntimeError('runaway scenario')
        self.calls.append((type(I).__name__, _snap_int(I)))
        if self.none_at is not None and self.ncall == self.none_at:
            return None
        I = np.asarray(I)
        if self.kind == 'sum':        # integer valued result
            return np.sum(I, axis=1)
        if self.kind == 'sin':
            return np.sin(I @ self.w + 0.3) + 0.1 * np.cos(I[:, 0] * I[:, -1])
        if self.kind == 'list':       # python list of floats
            return [float(x) for x in np.sum(I * I, axis=1) / 7.]
        if self.kind == 'inv':
            return 1. / (1. + np.sum(I, axis=1))
        if self.kind == 'zero':
            return np.zeros(len(I))
        raise ValueError(self.kind)


def _make_Y0(teneva, n, r, seed, kind='rand'):
    Y0 = teneva.rand(n, r, seed=seed)
    if kind == 'int':
        Y0 = [np.rint(4 * G).astype(int) for G in Y0]
    elif kind == 'ones':
        Y0 = [np.ones(G.shape) for G in Y0]
    return Y0


def run_cross(teneva, cfg):
    cfg = dict(cfg)
    n = cfg.pop('n')
    r = cfg.pop('r')
    seed = cfg.pop('seed', 0)
    ykind = cfg.pop('ykind', 'rand')
    fkind = cfg.pop('f', 'sin')
    none_at = cfg.pop('none_at', None)
    use_cache = cfg.pop('cache', False)
    use_info = cfg.pop('info', True)
    cb_kind = cfg.pop('cb', None)
    vld = cfg.pop('vld', None)
    use_func = cfg.pop('use_func', False)
    d = len(n)

    Y0 = _make_Y0(teneva, n, r, seed, ykind)
    Y0_ref = [G.copy() for G in Y0]
    f = Objective(fkind, d, none_at)
    kw = dict(cfg)

    info = {'junk': 42} if use_info == 'dirty' else {}
    if use_info:
        kw['info'] = info
    cache = None
    if use_cache == 'pre':
        # Pre-filled cache (python int keys, some of the tensor items):
        cache = {}
        g = Objective(fkind, d)
        I_all = np.array(list(itertools.product(*[range(k) for k in n])))
        I_pre = I_all[::3]
        for i, y in zip(I_pre, g(I_pre)):
            cache[tuple(int(x) for x in i)] = float(y)
        kw['cache'] = cache
    elif use_cache:
        cache = {}
        kw['cache'] = cache

    if vld is not None:
        rng = np.random.default_rng(12345)
        I_vld = np.vstack([rng.integers(0, k, size=25) for k in n]).T
        y_vld = np.asarray(Objective(fkind, d)(I_vld), dtype=float)
        if vld in ('full', 'noy'):
            kw['I_vld'] = I_vld
        if vld in ('full', 'noI'):
            kw['y_vld'] = y_vld

    cb_log = []
    if cb_kind is not None:
        mode, at = cb_kind

        def cb(Y, info_, opts):
            cb_log.append((_snap_info(info_), sorted(opts.keys()),
                [_snap_arr(G) for G in Y],
                [_snap_arr(G) for G in opts['Yold']],
                [_snap_int(x) for x in opts['Ir']],
                [_snap_int(x) for x in opts['Ic']],
                opts['cache'] is cache))
            if info_['nswp'] == at:
                return True if mode == 'true' else 1
        kw['cb'] = cb

    func_log = []
    if use_func:
        mod = sys.modules['teneva.cross']

        def func(f_, Ig, Ir, Ic, info_, cache_=None):
            func_log.append((_snap_int(Ig), _snap_int(Ir), _snap_int(Ic)))
            return mod._func(f_, Ig, Ir, Ic, info_, cache_)
        kw['func'] = func

    rec = {}
    buf = io.StringIO()
    try:
        with contextlib.redirect_stdout(buf):
            Y = teneva.cross(f, Y0, **kw)
        rec['exc'] = None
        rec['Y'] = [_snap_arr(G) for G in Y]
        rec['Y_is_list'] = type(Y).__name__
        rec['Y_finite'] = bool(all(np.all(np.isfinite(G)) for G in Y))
        rec['Y_shape'] = list(teneva.shape(Y))
        rec['Y_full'] = _snap_arr(teneva.full(Y)) if np.prod(n) < 5000 else None
    except Exception as ex:
        rec['exc'] = _exc(ex)
    rec['stdout'] = _mask_time(buf.getvalue())
    if not use_info:
        # The (shared) default dictionary is filled in this case:
        info = sys.modules['teneva.cross'].cross.__defaults__[8]
    rec['info'] = _snap_info(info)
    rec['cache'] = _snap_cache(cache)
    rec['calls'] = f.calls
    rec['ncall'] = f.ncall
    rec['cb_log'] = cb_log
    rec['func_log'] = func_log
    rec['Y0_same'] = bool(all(np.array_equal(a, b) and a.dtype == b.dtype
        for a, b in zip(Y0, Y0_ref)))
    return rec


def scenarios_cross(teneva):
    """Yield (name, cfg); budget / None / callback grids use probe runs."""
    S = []

    bases = [
        ('d3', dict(n=[4, 5, 3], r=1, seed=1, f='sin')),
        ('d4', dict(n=[3, 4, 3, 4], r=2, seed=2, f='sin')),
        ('d2', dict(n=[6, 5], r=1, seed=3, f='inv')),
        ('d1', dict(n=[7], r=1, seed=4, f='sin')),
        ('d3over', dict(n=[2, 3, 2], r=[1, 4, 5, 1], seed=5, f='sin')),
        ('d5sum', dict(n=[3, 2, 4, 2, 3], r=1, seed=6, f='sum')),
        ('d3int', dict(n=[4, 3, 5], r=2, seed=7, f='list', ykind='int')),
        ('d3ones', dict(n=[3, 3, 3], r=1, seed=8, f='sin', ykind='ones')),
        ('d3zero', dict(n=[3, 4, 3], r=1, seed=9, f='zero')),
        ('d3n1', dict(n=[1, 4, 1], r=1, seed=10, f='sin')),
    ]
    grow = [
        ('g11', dict(dr_min=1, dr_max=1)),
        ('g00', dict(dr_min=0, dr_max=0)),
        ('g13', dict(dr_min=1, dr_max=3)),
        ('g02', dict(dr_min=0, dr_max=2, tau=1.5)),
    ]

    # 1. Plain runs: stop by nswp / e / e_vld / conv, all growth settings:
    for (bn, b), (gn, g) in itertools.product(bases, grow):
        for cch in (False, True, 'pre'):
            for nswp in (0, 1, 3):
                S.append((f'plain/{bn}/{gn}/c{cch}/nswp{nswp}',
                    dict(b, **g, cache=cch, nswp=nswp)))
            S.append((f'plain/{bn}/{gn}/c{cch}/e',
                dict(b, **g, cache=cch, e=1.E-6, nswp=6)))
            S.append((f'plain/{bn}/{gn}/c{cch}/e_only_log',
                dict(b, **g, cache=cch, e=1.E-3, m=3000, log=True)))
            S.append((f'plain/{bn}/{gn}/c{cch}/evld',
                dict(b, **g, cache=cch, e_vld=1.E-5, vld='full', nswp=5,
                    log=True)))
            S.append((f'plain/{bn}/{gn}/c{cch}/evld_only',
                dict(b, **g, cache=cch, e_vld=1.E+3, vld='full',
                    cb=('true', 6))))
            S.append((f'plain/{bn}/{gn}/c{cch}/conv',
                dict(b, **g, cache=cch, nswp=12, m_cache_scale=1, log=True)))
            S.append((f'plain/{bn}/{gn}/c{cch}/func',
                dict(b, **g, cache=cch, nswp=2, use_func=True)))

    # 2. Every budget m from 1 up to the unconstrained count (+ a bit):
    for (bn, b), (gn, g) in itertools.product(bases[:7], grow[:3]):
        for cch in (False, True):
            probe = run_cross(teneva, dict(b, **g, cache=cch, nswp=2))
            M = probe['info'][2]['m'][0]
            ms = list(range(1, M + 3))
            if len(ms) > 260:     # keep the run time sane: all small + strided
                ms = ms[:120] + ms[120::7] + ms[-3:]
            for m in ms:
                S.append((f'budget/{bn}/{gn}/c{cch}/m{m}',
                    dict(b, **g, cache=cch, nswp=2, m=m)))
            # Budget as the only criterion + float budget + with log:
            for m in (1, 7, M // 2 + 1, float(M) + 0.5):
                S.append((f'budget-only/{bn}/{gn}/c{cch}/m{m}',
                    dict(b, **g, cache=cch, m=m, log=True)))

            # 3. Objective returns None at its k-th call, for every k:
            K = probe['ncall']
            for k in range(1, K + 2):
                S.append((f'none/{bn}/{gn}/c{cch}/k{k}',
                    dict(b, **g, cache=cch, nswp=2, none_at=k,
                        log=(k % 5 == 0))))

    # 4. Callback returns True (or a merely truthy value) at every sweep:
    for (bn, b), (gn, g) in itertools.product(bases[:6], grow[:2]):
        for cch in (False, True):
            for at in range(0, 5):
                for mode in ('true', 'one'):
                    S.append((f'cb/{bn}/{gn}/c{cch}/{mode}{at}',
                        dict(b, **g, cache=cch, nswp=3, cb=(mode, at))))
            # Callback together with conv / e (priority of stop reasons):
            S.append((f'cb-conv/{bn}/{gn}/c{cch}',
                dict(b, **g, cache=cch, nswp=9, m_cache_scale=0,
                    cb=('true', 2))))
            S.append((f'cb-e/{bn}/{gn}/c{cch}',
                dict(b, **g, cache=cch, nswp=9, e=1.E+5, cb=('true', 1),
                    e_vld=1.E+5, vld='full', log=True)))

    # 5. Every combination of the stop arguments (incl. the rejected ones):
    b = bases[0][1]
    for m, e, nswp, e_vld, vld in itertools.product(
            (None, 0, 40, 1.E+9), (None, 0., 1.E-2), (None, 0, 2),
            (None, 0., 1.E-1, 1.E+6), (None, 'full', 'noI', 'noy')):
        for cch in (False, True):
            S.append((f'args/m{m}/e{e}/nswp{nswp}/ev{e_vld}/{vld}/c{cch}',
                dict(b, cache=cch, m=m, e=e, nswp=nswp, e_vld=e_vld, vld=vld,
                    # a safety net for the (accepted) combinations that would
                    # never stop otherwise is the cb after 4 sweeps:
                    cb=('true', 4))))

    # 6. Info dictionary handling (dirty / default shared dictionary):
    S.append(('info/dirty', dict(bases[0][1], nswp=1, info='dirty')))
    S.append(('info/default', dict(bases[0][1], nswp=1, info=False)))
    S.append(('info/default-again', dict(bases[1][1], m=50, info=False)))
    S.append(('info/reject-default', dict(bases[1][1], info=False)))

    # 7. A bigger and longer case (ranks really grow):
    S.append(('big/e', dict(n=[8, 7, 6, 7, 8], r=1, seed=11, f='sin',
        e=1.E-8, m=40000, dr_min=1, dr_max=2, log=True)))
    S.append(('big/cache', dict(n=[8, 7, 6, 7, 8], r=2, seed=12, f='inv',
        e=1.E-10, m=20000, dr_min=1, dr_max=3, cache=True, log=True,
        vld='full', e_vld=1.E-9)))
    S.append(('big/m', dict(n=[8, 7, 6, 7, 8], r=3, seed=13, f='sin',
        m=7777, dr_min=2, dr_max=2, cache=True)))
    return S


def run_func_eval(teneva):
    """Direct calls of cross._func_eval."""
    mod = sys.modules['teneva.cross']
    out = []
    rng = np.random.default_rng(777)

    def table(I):
        I = np.asarray(I)
        return np.sum(I * np.arange(1, I.shape[1] + 1), axis=1) / 3.

    batches = {
        'plain': rng.integers(0, 4, size=(9, 3)),
        'dups': np.array([[0, 1], [2, 2], [0, 1], [3, 0], [2, 2], [0, 1]]),
        'one': np.array([[1, 2, 3, 4]]),
        'empty': np.zeros((0, 3), dtype=int),
        'int32': rng.integers(0, 5, size=(6, 2)).astype(np.int32),
        'wide': rng.integers(0, 3, size=(30, 5)),
    }
    fs = {
        'arr': lambda I: table(I),
        'list': lambda I: list(table(I)),
        'ints': lambda I: np.sum(np.asarray(I), axis=1),
        'none': lambda I: None,
        'short': lambda I: table(I)[:-1],
        'col': lambda I: table(I).reshape(-1, 1),
        'raise': lambda I: (_ for _ in ()).throw(RuntimeError('boom')),
    }
    for (bn, I), (fn, fun) in itertools.product(batches.items(), fs.items()):
        for cmode in ('none', 'empty', 'half', 'full', 'pyint'):
            for m0, m_max in ((0, None), (0, 5), (3, 9), (3, 12), (0, 6),
                              (2, len(I) + 2), (3, len(I) + 2), (0, 0), (5, 1)):
                info = {'m': m0, 'm_cache': 1, 'm_max': m_max, 'stop': None}
                if cmode == 'none':
                    cache = None
                elif cmode == 'empty':
                    cache = {}
                elif cmode == 'half':
                    cache = {tuple(i): float(v) + 100.
                        for i, v in list(zip(I, table(I)))[::2]} if len(I) else {}
                elif cmode == 'full':
                    cache = {tuple(i): float(v) + 100.
                        for i, v in zip(I, table(I))} if len(I) else {}
                else:
                    cache = {tuple(int(x) for x in i): int(k)
                        for k, i in enumerate(I[1::3])}
                seen = []

                def f(J, fun=fun, seen=seen):
                    seen.append((type(J).__name__, _snap_arr(J),
                        J is I_arg))
                    return fun(J)
                I_arg = I.copy()
                rec = {'name': f'feval/{bn}/{fn}/{cmode}/{m0}-{m_max}'}
                try:
                    y = mod._func_eval(f, I_arg, info, cache)
                    rec['exc'] = None
                    rec['y'] = _snap_arr(y) if y is not None else 'None'
                except Exception as ex:
                    rec['exc'] = _exc(ex)
                rec['info'] = _snap_info(info)
                rec['cache'] = _snap_cache(cache)
                rec['seen'] = seen
                rec['I_same'] = bool(np.array_equal(I, I_arg))
                out.append(rec)

    # Default argument for the cache and the positional form:
    info = {'m': 0, 'm_cache': 0, 'm_max': 100, 'stop': None}
    y = mod._func_eval(lambda I: table(I), batches['plain'], info)
    out.append({'name': 'feval/default', 'y': _snap_arr(y),
        'info': _snap_info(info)})
    return out


def run_info_appr(teneva):
    """Direct calls of utils._info_appr (priority order of stop reasons)."""
    out = []
    nan, inf = float('nan'), float('inf')
    vals = (-1, -1., 0, 0.05, 0.1, 0.2, inf, nan, np.float64(0.05), -inf)
    for stop0, e_vld, v_vld, e, v_e in itertools.product(
            (None, 'm', 'func', 'conv', 'cb', ''), (None, 0.1, 0., inf), vals,
            (None, 0.1, 0), vals):
        for nswp, nswp_i in ((None, 0), (0, 0), (1, 0), (1, 1), (2, 3),
                             (2.5, 2), (nan, 1)):
            info = {'stop': stop0, 'e_vld': v_vld, 'e': v_e, 'nswp': nswp_i,
                'r': 2.5, 'm': 120, 'm_cache': 7, 'with_cache': nswp_i % 2 == 0}
            log = (nswp_i == 1) or (nswp == 2)
            buf = io.StringIO()
            rec = {'name': f'appr/{stop0}/{e_vld}/{v_vld}/{e}/{v_e}/'
                f'{nswp}/{nswp_i}'}
            try:
                with contextlib.redirect_stdout(buf):
                    res = teneva._info_appr(info, 0., nswp, e, e_vld, log)
                rec['exc'] = None
                rec['res'] = (res, type(res).__name__)
            except Exception as ex:
                rec['exc'] = _exc(ex)
            rec['stdout'] = _mask_time(buf.getvalue())
            rec['info'] = _snap_info(info)
            out.append(rec)

    # Reduced dictionaries (as in other callers) and missing keys:
    full = {'stop': None, 'e_vld': 0.01, 'e': 0.02, 'nswp': 3, 'r': 1.,
        'm': 5, 'm_cache': 2, 'with_cache': True}
    for drop in itertools.chain([()], itertools.combinations(full, 1),
                                itertools.combinations(full, 2)):
        for e_vld, e, nswp, log in itertools.product(
                (None, 0.1), (None, 0.1), (None, 2), (False, True)):
            info = {k: v for k, v in full.items() if k not in drop}
            buf = io.StringIO()
            rec = {'name': f'appr-drop/{drop}/{e_vld}/{e}/{nswp}/{log}'}
            try:
                with contextlib.redirect_stdout(buf):
                    res = teneva._info_appr(info, 0., nswp, e, e_vld, log)
                rec['exc'] = None
                rec['res'] = (res, type(res).__name__)
            except Exception as ex:
                rec['exc'] = _exc(ex)
            rec['stdout'] = _mask_time(buf.getvalue())
            rec['info'] = _snap_info(info)
            out.append(rec)

    # Default value of the log argument:
    info = dict(full)
    buf = io.StringIO()
    with contextlib.redirect_stdout(buf):
        res = teneva._info_appr(info, 0., 3, None, None)
    out.append({'name': 'appr/default-log', 'res': res,
        'stdout': buf.getvalue(), 'info': _snap_info(info)})
    return out


def worker(root, fpath):
    os.chdir(root)
    sys.path.insert(0, root)
    import teneva
    assert os.path.dirname(os.path.abspath(teneva.__file__)) == \
        os.path.join(root, 'teneva'), teneva.__file__

    import inspect
    mod = sys.modules['teneva.cross']
    records = []
    records.append({'name': 'signature/cross',
        'sig': str(inspect.signature(mod.cross))})
    records.append({'name': 'signature/_func_eval',
        'sig': str(inspect.signature(mod._func_eval))})
    records.append({'name': 'signature/_info_appr',
        'sig': str(inspect.signature(teneva._info_appr))})

    for name, cfg in scenarios_cross(teneva):
        rec = run_cross(teneva, cfg)
        rec['name'] = 'cross/' + name
        records.append(rec)
    records.extend(run_func_eval(teneva))
    records.extend(run_info_appr(teneva))

    with open(fpath, 'wb') as fh:
        pickle.dump(records, fh)
    print(f'[worker {root}] {len(records)} records')


# ---------------------------------------------------------------------------
# Comparison part
# ---------------------------------------------------------------------------


class Stats:
    n_arr = 0
    n_arr_bitwise = 0
    max_dev = 0.


def compare(a, b, path, errs):
    if len(errs) > 40:
        return
    if type(a) is not type(b):
        errs.append(f'{path}: type {type(a).__name__} != {type(b).__name__}')
        return
    if isinstance(a, np.ndarray):
        Stats.n_arr += 1
        if a.shape != b.shape or a.dtype != b.dtype:
            errs.append(f'{path}: shape/dtype {a.shape} {a.dtype} != '
                f'{b.shape} {b.dtype}')
            return
        if a.tobytes() == b.tobytes():
            Stats.n_arr_bitwise += 1
            return
        if not np.allclose(a, b, rtol=RTOL, atol=ATOL, equal_nan=True):
            errs.append(f'{path}: arrays differ, max dev '
                f'{np.max(np.abs(a - b)):.3e}')
        elif a.size:
            Stats.max_dev = max(Stats.max_dev, float(np.nanmax(np.abs(a - b))))
        return
    if isinstance(a, dict):
        if list(a.keys()) != list(b.keys()):
            errs.append(f'{path}: keys {list(a.keys())} != {list(b.keys())}')
            return
        for k in a:
            compare(a[k], b[k], f'{path}.{k}', errs)
        return
    if isinstance(a, (list, tuple)):
        if len(a) != len(b):
            errs.append(f'{path}: len {len(a)} != {len(b)}')
            return
        for k, (x, y) in enumerate(zip(a, b)):
            compare(x, y, f'{path}[{k}]', errs)
        return
    if isinstance(a, (float, np.floating)):
        if np.isnan(a) and np.isnan(b):
            return
        if a == b:
            return
        if np.isfinite(a) and np.isfinite(b) and \
                abs(a - b) <= ATOL + RTOL * abs(b):
            Stats.max_dev = max(Stats.max_dev, abs(float(a) - float(b)))
            return
        errs.append(f'{path}: {a!r} != {b!r}')
        return
    if a != b:
        errs.append(f'{path}: {a!r} != {b!r}')


def _close_text(a, b):
    """Log lines may differ in the last printed digit of e only by rounding;
    we nevertheless require exact equality of the masked text."""
    return a == b


def main():
    f_orig = os.path.join(OUT_DIR, 'res_orig.pkl')
    f_new = os.path.join(OUT_DIR, 'res_new.pkl')
    procs = []
    for root, fpath in ((ROOT_ORIG, f_orig), (ROOT_NEW, f_new)):
        if os.path.exists(fpath):
            os.remove(fpath)
        env = dict(os.environ, PYTHONDONTWRITEBYTECODE='1',
            PYTHONWARNINGS='ignore', OMP_NUM_THREADS='1',
            OPENBLAS_NUM_THREADS='1', MKL_NUM_THREADS='1')
        procs.append(subprocess.Popen(
            [sys.executable, os.path.abspath(__file__), '--worker', root,
             fpath], cwd=root, env=env))
    bad = [p.wait() for p in procs]
    if any(bad):
        print('FAIL: a worker crashed', bad)
        return 1

    with open(f_orig, 'rb') as fh:
        R1 = pickle.load(fh)
    with open(f_new, 'rb') as fh:
        R2 = pickle.load(fh)

    if len(R1) != len(R2):
        print(f'FAIL: number of records {len(R1)} != {len(R2)}')
        return 1

    n_bad = 0
    stops = {}
    for a, b in zip(R1, R2):
        errs = []
        compare(a, b, a.get('name', '?'), errs)
        if errs:
            n_bad += 1
            if n_bad <= 15:
                print('MISMATCH', a.get('name'))
                for e in errs[:6]:
                    print('    ', e)
        if a.get('name', '').startswith('cross/'):
            key = a['exc'][0] if a['exc'] else a['info'][2]['stop'][0]
            stops[key] = stops.get(key, 0) + 1

    print(f'records compared      : {len(R1)}')
    print(f'cross outcomes (orig) : {stops}')
    print(f'arrays compared       : {Stats.n_arr} '
        f'(bitwise equal: {Stats.n_arr_bitwise})')
    print(f'max abs deviation     : {Stats.max_dev:.3e}')
    print(f'mismatching records   : {n_bad}')
    if n_bad:
        print('FAIL')
        return 1
    print('OK: refactored code is equivalent on all scenarios')
    return 0


if __name__ == '__main__':
    if len(sys.argv) > 1 and sys.argv[1] == '--worker':
        worker(sys.argv[2], sys.argv[3])
        sys.exit(0)
    sys.exit(main())
