"""Equivalence demonstration for the C09 refactoring.

Refactored functions: teneva.act_two.add, teneva.act_two.mul and
teneva.transformation.orthogonalize (plus the public functions that are built
on top of them: sub, accuracy, truncate, add_many, mul-with-scalars).

The same deterministic list of scenarios is executed in two subprocesses, one
with the pristine package (cwd = /tmp/twinsA/C09/orig) and one with the
refactored package (cwd = /tmp/wt/C09). Each of them dumps, for every scenario:
the result (values, shapes, dtypes, python types), the raised exception type,
whether any argument was mutated (contents / shape / dtype / list length / list
element identity) and whether any returned array shares memory with an
argument. The parent compares the two dumps; exit code 0 iff all agree.

Usage:  /venv/bin/python /tmp/twinsA/C09/equiv.py
"""
import os
import pickle
import subprocess
import sys
import tempfile


DIR_ORIG = '/tmp/twinsA/C09/orig'
DIR_NEW = '/tmp/wt/C09'
RTOL = 1.E-12
ATOL = 1.E-14


# ---------------------------------------------------------------------------
# Worker part (runs inside the subprocess, "teneva" is taken from the cwd)
# ---------------------------------------------------------------------------


def _worker(fpath):
    sys.path.insert(0, os.getcwd())
    import numpy as np
    import teneva

    assert os.path.dirname(os.path.dirname(os.path.abspath(teneva.__file__))) \
        == os.path.abspath(os.getcwd()), teneva.__file__

    # --- Generators of the inputs:

    def tt(rng, n, r, dtype=float, layout='C', readonly=False):
        """Random TT-tensor with mode sizes n and inner ranks r."""
        d = len(n)
        q = [1] + list(r) + [1]
        Y = []
        for i in range(d):
            sh = (q[i], n[i], q[i+1])
            if np.dtype(dtype).kind == 'i':
                G = rng.integers(-4, 5, size=sh).astype(dtype)
            elif np.dtype(dtype).kind == 'c':
                G = (rng.normal(size=sh) + 1j*rng.normal(size=sh)).astype(dtype)
            else:
                G = rng.normal(size=sh).astype(dtype)
            if layout == 'F':
                G = np.asfortranarray(G)
            elif layout == 'view':
                # Non contiguous view into a bigger buffer:
                B = np.zeros((2*sh[0], 2*sh[1], 2*sh[2]), dtype=G.dtype)
                B[::2, ::2, ::2] = G
                G = B[::2, ::2, ::2]
            elif layout == 'T':
                # Transposed storage (negative / permuted strides):
                G = np.ascontiguousarray(G.transpose(2, 1, 0)).transpose(2, 1, 0)
            if readonly:
                G.flags.writeable = False
            Y.append(G)
        return Y

    def profiles(rng):
        """List of (n, r) pairs: shapes and rank profiles."""
        res = []
        res.append(([5], []))                               # d = 1
        res.append(([1], []))
        res.append(([3, 4], [1]))                           # rank 1
        res.append(([3, 4], [2]))
        res.append(([3, 4], [7]))                           # over-ranked
        res.append(([2, 2, 2], [1, 1]))
        res.append(([2, 3, 4], [2, 3]))
        res.append(([2, 3, 4], [5, 9]))                     # over-ranked
        res.append(([4, 1, 3], [2, 2]))                     # mode of size 1
        res.append(([1, 1, 1], [1, 1]))
        res.append(([3, 3, 3, 3], [3, 1, 3]))               # rank 1 in middle
        res.append(([2, 5, 3, 4], [2, 10, 4]))
        res.append(([3, 2, 4, 2, 3], [3, 6, 8, 2]))
        res.append(([2, 2, 2, 2, 2, 2], [4, 4, 9, 4, 3]))   # over-ranked
        res.append(([6, 5, 4, 3, 2, 3, 4], [1, 2, 3, 4, 3, 2]))
        for _ in range(6):
            d = int(rng.integers(2, 7))
            n = [int(k) for k in rng.integers(1, 6, size=d)]
            r = [int(k) for k in rng.integers(1, 8, size=d-1)]
            res.append((n, r))
        return res

    # --- Snapshot / comparison helpers:

    def arrays_of(obj, acc=None):
        acc = [] if acc is None else acc
        if isinstance(obj, np.ndarray):
            acc.append(obj)
        elif isinstance(obj, (list, tuple)):
            for o in obj:
                arrays_of(o, acc)
        elif isinstance(obj, dict):
            for o in obj.values():
                arrays_of(o, acc)
        return acc

    def snap(obj):
        """Deep, picklable description of a python / numpy object."""
        if isinstance(obj, np.ndarray):
            return ('nd', obj.shape, str(obj.dtype), np.array(obj, copy=True))
        if isinstance(obj, (list, tuple)):
            return (type(obj).__name__, [snap(o) for o in obj])
        if isinstance(obj, dict):
            return ('dict', {k: snap(v) for k, v in obj.items()})
        if isinstance(obj, np.generic):
            return ('npscalar', str(obj.dtype), obj.item())
        return ('py', type(obj).__name__, obj)

    def ident(obj):
        """Identity structure of the (possibly nested) list argument."""
        if isinstance(obj, list):
            return [ident(o) for o in obj]
        return id(obj)

    def run(name, func, *args, **kwargs):
        before = snap((args, kwargs))
        ids = ident(list(args))
        exc, res = None, None
        try:
            res = func(*args, **kwargs)
        except Exception as e:
            exc = type(e).__name__
        after = snap((args, kwargs))
        mutated = repr_diff(before, after) or ids != ident(list(args))
        shares = False
        a_in = arrays_of((args, kwargs))
        for A in arrays_of(res):
            for B in a_in:
                if np.shares_memory(A, B):
                    shares = True
        # Results that are the very same python object as an argument:
        same_obj = any(res is a for a in list(args) + list(kwargs.values())
            if isinstance(a, (list, np.ndarray)))
        out.append({'name': name, 'exc': exc, 'res': snap(res),
            'mutated': bool(mutated), 'shares': shares, 'same_obj': same_obj})

    def repr_diff(a, b):
        """True if two snapshots differ (bitwise for the arrays)."""
        if a[0] != b[0]:
            return True
        if a[0] == 'nd':
            return a[1] != b[1] or a[2] != b[2] or \
                a[3].tobytes() != b[3].tobytes()
        if a[0] in ('list', 'tuple'):
            return len(a[1]) != len(b[1]) or \
                any(repr_diff(x, y) for x, y in zip(a[1], b[1]))
        if a[0] == 'dict':
            return set(a[1]) != set(b[1]) or \
                any(repr_diff(a[1][k], b[1][k]) for k in a[1])
        return a[1] != b[1] or repr(a[2]) != repr(b[2])

    out = []
    rng = np.random.default_rng(20240909)
    profs = profiles(rng)
    layouts = ['C', 'F', 'view', 'T']
    dtypes = [float, np.float32, np.int64, np.complex128]
    scalars = [2, -3, 0, 1.5, -0.25, 0., True, np.float64(2.5), 1.E-20, -7.E+30]

    # --- add / mul / sub / accuracy / mul_scalar on pairs of TT-tensors:

    for ip, (n, r) in enumerate(profs):
        for it in range(4):
            lay1 = layouts[(ip + it) % 4]
            lay2 = layouts[(ip + 2*it + 1) % 4]
            dt1 = dtypes[(ip * 3 + it) % 4] if it > 0 else float
            dt2 = dtypes[(ip + it * 2) % 4] if it > 1 else float
            ro = (it % 2 == 1)
            # The second tensor has its own rank profile:
            r2 = [int(k) for k in rng.integers(1, 7, size=len(r))]
            if it == 3:
                r2 = [1] * len(r)
            Y1 = tt(rng, n, r, dt1, lay1, ro)
            Y2 = tt(rng, n, r2, dt2, lay2, ro)
            tag = f'{ip}-{it}'
            run(f'add[{tag}]', teneva.add, Y1, Y2)
            run(f'add-swap[{tag}]', teneva.add, Y2, Y1)
            run(f'add-self[{tag}]', teneva.add, Y1, Y1)
            run(f'mul[{tag}]', teneva.mul, Y1, Y2)
            run(f'mul-self[{tag}]', teneva.mul, Y2, Y2)
            run(f'sub[{tag}]', teneva.sub, Y1, Y2)
            run(f'mul_scalar[{tag}]', teneva.mul_scalar, Y1, Y2)
            if dt1 is float and dt2 is float:
                run(f'accuracy[{tag}]', teneva.accuracy, Y1, Y2)
                run(f'full-add[{tag}]', lambda A, B:
                    teneva.full(teneva.add(A, B)), Y1, Y2)
                run(f'full-mul[{tag}]', lambda A, B:
                    teneva.full(teneva.mul(A, B)), Y1, Y2)
            for v in scalars[(ip + it) % 3::3]:
                run(f'add-num-r[{tag}|{v!r}]', teneva.add, Y1, v)
                run(f'add-num-l[{tag}|{v!r}]', teneva.add, v, Y2)
                run(f'mul-num-r[{tag}|{v!r}]', teneva.mul, Y1, v)
                run(f'mul-num-l[{tag}|{v!r}]', teneva.mul, v, Y2)
                run(f'sub-num-r[{tag}|{v!r}]', teneva.sub, Y1, v)
                run(f'sub-num-l[{tag}|{v!r}]', teneva.sub, v, Y2)

    # --- Number / number, numpy scalars and other special arguments:

    for v1 in scalars:
        for v2 in scalars[::2]:
            run(f'add-nn[{v1!r},{v2!r}]', teneva.add, v1, v2)
            run(f'mul-nn[{v1!r},{v2!r}]', teneva.mul, v1, v2)

    Y = tt(rng, [3, 4, 2], [2, 3])
    Yi = tt(rng, [3, 4, 2], [2, 3], np.int64)
    for name, func in [('add', teneva.add), ('mul', teneva.mul)]:
        run(f'{name}-npint', func, Y, np.int64(3))          # not a "number"
        run(f'{name}-npint-l', func, np.int32(3), Y)
        run(f'{name}-complex', func, Y, 1+2j)
        run(f'{name}-none', func, Y, None)
        run(f'{name}-none-l', func, None, Y)
        run(f'{name}-empty', func, [], [])
        run(f'{name}-empty-r', func, Y, [])
        run(f'{name}-empty-num', func, [], 2.)
        run(f'{name}-tuple', func, tuple(Y), tuple(Y))
        run(f'{name}-tuple-num', func, tuple(Y), 2.)
        run(f'{name}-int-float', func, Yi, 2.5)            # int cores, float
        run(f'{name}-int-float-l', func, 2.5, Yi)
        run(f'{name}-int-int', func, Yi, 3)
        run(f'{name}-int-bool', func, True, Yi)
        run(f'{name}-dense-num', func, teneva.full(Y), 2.)
        run(f'X:{name}-dense-dense', func, teneva.full(Y), teneva.full(Y))
        run(f'X:{name}-2d-cores', func, [np.ones((2, 3))]*3, [np.ones((2, 3))]*3)
        run(f'X:{name}-4d-cores', func, [np.ones((1, 2, 2, 1))]*3,
            [np.ones((1, 2, 2, 1))]*3)
        # Different numbers of dimensions / mode sizes / broken ranks:
        run(f'{name}-d-short', func, Y, tt(rng, [3, 4], [2]))
        run(f'{name}-d-long', func, Y, tt(rng, [3, 4, 2, 5], [2, 3, 2]))
        run(f'{name}-n-first', func, Y, tt(rng, [2, 4, 2], [2, 3]))
        run(f'{name}-n-mid', func, Y, tt(rng, [3, 5, 2], [2, 3]))
        run(f'{name}-n-mid-one', func, Y, tt(rng, [3, 1, 2], [2, 3]))
        run(f'{name}-n-mid-one-l', func, tt(rng, [3, 1, 2], [2, 3]), Y)
        run(f'{name}-n-last', func, Y, tt(rng, [3, 4, 3], [2, 3]))
        Yb = tt(rng, [3, 4, 2], [2, 3])
        Yb[1] = Yb[1][:1]                                   # broken left rank
        run(f'{name}-broken', func, Y, Yb)
        run(f'{name}-broken-l', func, Yb, Y)
        # The same core object used several times inside one tensor:
        G = rng.normal(size=(2, 3, 2))
        Yr = [G[:1], G, G, G[:, :, :1]]
        run(f'{name}-repeated-core', func, Yr, Yr)
        # Special values:
        Yn = tt(rng, [3, 4, 2], [2, 3])
        Yn[1][0, 0, 0] = np.nan
        Yn[2][1, 1, 0] = np.inf
        Yn[0][0, 1, 1] = -0.
        run(f'{name}-naninf', func, Y, Yn)
        run(f'{name}-naninf-num', func, Yn, -2.)
        run(f'{name}-zero', func, Y, [np.zeros_like(G) for G in Y])

    # --- Chains built on top of add / mul:

    for ip, (n, r) in enumerate(profs[2::3]):
        Ys = [tt(rng, n, [min(k, 3) for k in r]) for _ in range(3)]
        run(f'add_many[{ip}]', teneva.add_many, Ys, e=1.E-10, r=50)
        run(f'add_many-num[{ip}]', teneva.add_many, [Ys[0], 2., Ys[1]])
        run(f'mul-chain[{ip}]', lambda A, B, C:
            teneva.mul(teneva.mul(A, B), teneva.sub(C, A)), *Ys)

    # --- orthogonalize (and truncate, which calls it):

    def orth_check(Y, k=None, use_stab=False):
        """Result of orthogonalize + its orthogonality defects."""
        res = teneva.orthogonalize(Y, k, use_stab)
        return res

    for ip, (n, r) in enumerate(profs):
        d = len(n)
        for it in range(3):
            lay = layouts[(ip + it) % 4]
            ro = (it == 1)
            dt = float if it < 2 else np.float32
            Y = tt(rng, n, r, dt, lay, ro)
            if it == 1:
                # Badly scaled tensor, so that "core_stab" does something:
                Y = [G * 10.**(7 * (-1)**i * (i+1)) for i, G in enumerate(Y)]
                for G in Y:
                    G.flags.writeable = False
            tag = f'{ip}-{it}'
            ks = [None] + list(range(-1, d + 1))
            for k in ks:
                run(f'orth[{tag}|k={k}]', teneva.orthogonalize, Y, k)
                run(f'orth-stab[{tag}|k={k}]', teneva.orthogonalize, Y, k, True)
            run(f'orth-kw[{tag}]', teneva.orthogonalize, Y, use_stab=True,
                k=d//2)
            run(f'orth-default[{tag}]', teneva.orthogonalize, Y)
            run(f'orth-stab-int[{tag}]', teneva.orthogonalize, Y, d-1, 1)
            run(f'orth-stab-zero[{tag}]', teneva.orthogonalize, Y, 0, 0)
            run(f'orth-npk[{tag}]', teneva.orthogonalize, Y, np.int64(d-1))
            if d > 1:
                run(f'trunc[{tag}]', teneva.truncate, Y, 1.E-8)
                run(f'trunc-stab[{tag}]', teneva.truncate, Y, 1.E-8,
                    use_stab=True)
                run(f'trunc-r[{tag}]', teneva.truncate, Y, 1.E-2, 2)
                run(f'trunc-skel[{tag}]', teneva.truncate, Y, 1.E-8,
                    is_eigh=False)
                run(f'trunc-noorth[{tag}]', teneva.truncate, Y, 1.E-8,
                    orth=False)

    Y = tt(rng, [3, 4, 2, 3], [2, 3, 2])
    run('orth-float-k', teneva.orthogonalize, Y, 1.)
    run('orth-float-k-stab', teneva.orthogonalize, Y, 1., True)
    run('orth-float-k0', teneva.orthogonalize, Y, 0.)
    run('orth-float-k-last', teneva.orthogonalize, Y, 3.)
    run('orth-bool-k', teneva.orthogonalize, Y, True, True)
    run('orth-str-k', teneva.orthogonalize, Y, '1')
    run('orth-empty', teneva.orthogonalize, [])
    run('orth-empty-k0', teneva.orthogonalize, [], 0, True)
    run('orth-tuple', teneva.orthogonalize, tuple(Y), 2)
    run('orth-tuple-k0', teneva.orthogonalize, tuple(Y[:1]), 0, True)
    run('orth-dense', teneva.orthogonalize, teneva.full(Y), 1)
    run('orth-int', teneva.orthogonalize, tt(rng, [3, 4, 2], [2, 3], np.int64),
        1, True)
    run('orth-complex', teneva.orthogonalize,
        tt(rng, [3, 4, 2], [2, 3], np.complex128), 1, True)
    Yz = [np.zeros_like(G) for G in Y]
    run('orth-zero', teneva.orthogonalize, Yz, 2, True)
    Yt = [G * 1.E-120 for G in Y]                           # below threshold
    run('orth-tiny', teneva.orthogonalize, Yt, 1, True)
    Yn = [G.copy() for G in Y]
    Yn[1][0, 0, 0] = np.nan
    run('orth-nan', teneva.orthogonalize, Yn, 2, True)
    run('orth-nan-nostab', teneva.orthogonalize, Yn, 0)
    Yb = [G.copy() for G in Y]
    Yb[2] = Yb[2][:2]                                       # broken ranks
    run('orth-broken', teneva.orthogonalize, Yb, 3, True)
    run('orth-broken-r', teneva.orthogonalize, Yb, 0)
    G = rng.normal(size=(2, 3, 2))
    Yr = [G[:1], G, G, G[:, :, :1]]                         # repeated core
    run('orth-repeated', teneva.orthogonalize, Yr, 2, True)
    run('orth-repeated-k0', teneva.orthogonalize, Yr, 0)

    with open(fpath, 'wb') as f:
        pickle.dump({'file': teneva.__file__, 'out': out}, f)


# ---------------------------------------------------------------------------
# Parent part (compares the two dumps)
# ---------------------------------------------------------------------------


def _cmp(a, b, path, stat):
    """Compare two snapshots; return a list of textual differences."""
    import numpy as np

    if a[0] != b[0]:
        return [f'{path}: kind {a[0]} vs {b[0]}']
    kind = a[0]
    if kind == 'nd':
        if a[1] != b[1]:
            return [f'{path}: shape {a[1]} vs {b[1]}']
        if a[2] != b[2]:
            return [f'{path}: dtype {a[2]} vs {b[2]}']
        stat['arrays'] += 1
        if np.array_equal(a[3], b[3], equal_nan=True):
            stat['exact'] += 1
            return []
        if np.allclose(a[3], b[3], rtol=RTOL, atol=ATOL, equal_nan=True):
            stat['inexact_at'].add(path.split(':')[0])
            return []
        err = np.max(np.abs(a[3] - b[3]))
        return [f'{path}: values differ (max abs err {err:.3e})']
    if kind in ('list', 'tuple'):
        if len(a[1]) != len(b[1]):
            return [f'{path}: length {len(a[1])} vs {len(b[1])}']
        res = []
        for i, (x, y) in enumerate(zip(a[1], b[1])):
            res += _cmp(x, y, f'{path}[{i}]', stat)
        return res
    if kind == 'dict':
        if set(a[1]) != set(b[1]):
            return [f'{path}: dict keys differ']
        res = []
        for k in a[1]:
            res += _cmp(a[1][k], b[1][k], f'{path}[{k!r}]', stat)
        return res
    if kind == 'npscalar':
        if a[1] != b[1]:
            return [f'{path}: scalar dtype {a[1]} vs {b[1]}']
        x, y = a[2], b[2]
    else:
        if a[1] != b[1]:
            return [f'{path}: python type {a[1]} vs {b[1]}']
        x, y = a[2], b[2]
    stat['scalars'] += 1
    if x is None or y is None:
        stat['exact_scalars'] += x is y
        return [] if x is y else [f'{path}: {x!r} vs {y!r}']
    if x == y or (x != x and y != y):
        stat['exact_scalars'] += 1
        return []
    try:
        if np.isclose(x, y, rtol=RTOL, atol=ATOL):
            return []
    except TypeError:
        pass
    return [f'{path}: scalar {x!r} vs {y!r}']


def main():
    tmp = tempfile.mkdtemp(prefix='equiv_C09_')
    dumps = []
    for tag, cwd in [('orig', DIR_ORIG), ('new', DIR_NEW)]:
        fpath = os.path.join(tmp, tag + '.pkl')
        env = dict(os.environ)
        env.pop('PYTHONPATH', None)
        env['PYTHONDONTWRITEBYTECODE'] = '1'
        proc = subprocess.run([sys.executable, '-W', 'ignore',
            os.path.abspath(__file__), '--worker', fpath], cwd=cwd, env=env)
        if proc.returncode != 0:
            print(f'FAIL: worker "{tag}" exited with code {proc.returncode}')
            return 1
        with open(fpath, 'rb') as f:
            dumps.append(pickle.load(f))

    d1, d2 = dumps
    print('orig package :', d1['file'])
    print('new package  :', d2['file'])
    if not d1['file'].startswith(DIR_ORIG) or not d2['file'].startswith(DIR_NEW):
        print('FAIL: wrong packages were imported')
        return 1
    if len(d1['out']) != len(d2['out']):
        print('FAIL: different numbers of scenarios')
        return 1

    stat = {'arrays': 0, 'exact': 0, 'scalars': 0, 'exact_scalars': 0,
        'inexact_at': set()}
    n_bad, n_exc, n_mut, n_share, n_info = 0, 0, 0, 0, 0
    for s1, s2 in zip(d1['out'], d2['out']):
        diffs = []
        if s1['name'] != s2['name']:
            diffs.append(f'scenario names {s1["name"]} vs {s2["name"]}')
        for key in ['exc', 'mutated', 'shares', 'same_obj']:
            if s1[key] != s2[key]:
                diffs.append(f'{key}: {s1[key]!r} vs {s2[key]!r}')
        diffs += _cmp(s1['res'], s2['res'], s1['name'].split('[')[0] + ':res',
            stat)
        n_exc += s1['exc'] is not None
        n_mut += s1['mutated']
        n_share += s1['shares'] or s1['same_obj']
        if diffs and s1['name'].startswith('X:'):
            # Arguments that are not TT-tensors at all (cores which are not
            # 3-dimensional): outside the quantifier, reported for information.
            n_info += 1
            print(f'INFO (non TT-tensor input, not counted) {s1["name"]}: '
                + '; '.join(diffs[:2]))
        elif diffs:
            n_bad += 1
            print(f'DIFF in scenario {s1["name"]}:')
            for t in diffs[:5]:
                print('    ' + t)

    print(f'scenarios: {len(d1["out"])}  (raising an exception in both: '
        f'{n_exc}; mutating an argument in orig: {n_mut}; '
        f'result aliasing an argument in orig: {n_share})')
    print(f'arrays compared: {stat["arrays"]} (bitwise equal: {stat["exact"]});'
        f' scalars compared: {stat["scalars"]} '
        f'(equal: {stat["exact_scalars"]})')
    print('functions with results equal only up to rounding:',
        sorted(stat['inexact_at']) or 'none')
    if n_bad:
        print(f'FAIL: {n_bad} scenarios differ')
        return 1
    print('OK: the refactored package agrees with the original one')
    return 0


if __name__ == '__main__':
    if len(sys.argv) == 3 and sys.argv[1] == '--worker':
        _worker(sys.argv[2])
        sys.exit(0)
    sys.exit(main())
