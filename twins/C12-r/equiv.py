"""Equivalence demonstration for the C12 refactoring (func_get, func_sum, func_sum_full).

Runs one deterministic scenario list in two subprocesses (pristine package in
/tmp/twinsA/C12/orig, refactored package in /tmp/wt/C12), dumps the outcomes to
pickles and compares them. Exit code 0 if all scenarios agree, 1 otherwise.

Usage: /venv/bin/python /tmp/twinsA/C12/equiv.py
"""
import os
import pickle
import subprocess
import sys
import tempfile

import numpy as np


ROOT_ORIG = '/tmp/twinsA/C12/orig'
ROOT_NEW = '/tmp/wt/C12'
RTOL = 1.E-11
ATOL = 1.E-12


# ---------------------------------------------------------------------------
# Worker part (executed in a subprocess, with the package root as argv[2])
# ---------------------------------------------------------------------------


def _snapshot(obj):
    """Deep structural copy of an argument, used for the mutation checks."""
    if isinstance(obj, np.ndarray):
        return ('nd', obj.dtype.str, obj.shape, obj.copy())
    if isinstance(obj, (list, tuple)):
        return (type(obj).__name__, [_snapshot(o) for o in obj])
    if callable(obj):
        return ('callable',)
    return ('val', obj)


def _same_snapshot(s1, s2):
    if s1[0] != s2[0]:
        return False
    if s1[0] == 'nd':
        return (s1[1] == s2[1] and s1[2] == s2[2]
            and np.array_equal(s1[3], s2[3], equal_nan=True))
    if s1[0] in ('list', 'tuple'):
        return (len(s1[1]) == len(s2[1])
            and all(_same_snapshot(u, v) for u, v in zip(s1[1], s2[1])))
    if s1[0] == 'callable':
        return True
    v1, v2 = s1[1], s2[1]
    if isinstance(v1, float) and isinstance(v2, float):
        return v1 == v2 or (v1 != v1 and v2 != v2)
    return type(v1) is type(v2) and v1 == v2


def _encode(res):
    if isinstance(res, np.ndarray):
        return {'t': 'ndarray', 'dtype': res.dtype.str, 'shape': res.shape,
            'v': np.array(res)}
    if isinstance(res, np.generic):
        return {'t': type(res).__name__, 'dtype': res.dtype.str, 'shape': (),
            'v': np.array(res)}
    if isinstance(res, (float, int, complex)):
        return {'t': type(res).__name__, 'dtype': None, 'shape': (),
            'v': np.array(res)}
    return {'t': type(res).__name__, 'dtype': None, 'shape': None,
        'v': repr(res)}


def _call(func, args, kwargs):
    """Call and record result / exception / mutation of the arguments."""
    before = _snapshot([list(args), sorted(kwargs.items())])
    with np.errstate(all='ignore'):
        try:
            out = {'ok': True, 'res': _encode(func(*args, **kwargs))}
        except Exception as e:
            out = {'ok': False, 'exc': type(e).__name__, 'msg': str(e)}
    after = _snapshot([list(args), sorted(kwargs.items())])
    out['mutated'] = not _same_snapshot(before, after)
    return out


def _rand_tt(rng, n, r, scale=1., dtype=float):
    """Random TT-tensor with mode sizes n and inner ranks r (len(n)-1)."""
    r = [1] + list(r) + [1]
    Y = []
    for k, nk in enumerate(n):
        G = rng.normal(size=(r[k], nk, r[k+1])) * scale
        if dtype is int:
            G = np.round(G * 3).astype(int)
        Y.append(G)
    return Y


def _tt_cases(rng):
    """(name, mode sizes, rank profile) incl. rank 1 and over-ranked cores."""
    cases = [
        ('d1-n5', [5], []),
        ('d1-n2', [2], []),
        ('d2-r1', [4, 3], [1]),
        ('d2-r3', [5, 6], [3]),
        ('d2-over', [2, 2], [5]),
        ('d3-r1', [3, 4, 5], [1, 1]),
        ('d3-mix', [7, 2, 6], [3, 2]),
        ('d3-over', [2, 3, 2], [6, 7]),
        ('d4-mix', [4, 5, 3, 8], [2, 4, 3]),
        ('d4-eq', [6, 6, 6, 6], [3, 3, 3]),
        ('d5-mix', [3, 2, 4, 2, 5], [2, 3, 3, 2]),
        ('d6-big', [9, 8, 7, 6, 5, 4], [4, 5, 5, 4, 2]),
    ]
    for s in range(4):
        d = int(rng.integers(2, 6))
        n = [int(v) for v in rng.integers(2, 10, size=d)]
        r = [int(v) for v in rng.integers(1, 7, size=d-1)]
        cases.append((f'rnd{s}', n, r))
    return cases


def _boxes(rng, d):
    lo = -1. - rng.random(d) * 2.
    hi = 0.5 + rng.random(d) * 3.
    return [
        ('none', None, None),
        ('unit', -1., 1.),
        ('int', -2, 3),
        ('sym-scalar', -2.5, 2.5),
        ('asym-list', [float(v) for v in lo], [float(v) for v in hi]),
        ('asym-arr', lo.copy(), hi.copy()),
        ('sym-arr', -hi.copy(), hi.copy()),
        ('a-none', None, 2.),
        ('b-none', -3., None),
    ]


def _points(rng, d, a, b, m):
    """Points inside, outside and exactly on the boundary of the box."""
    a_ = np.ones(d) * (-1. if a is None else np.asarray(a, dtype=float))
    b_ = np.ones(d) * (+1. if b is None else np.asarray(b, dtype=float))
    X = a_ + (b_ - a_) * rng.random((m, d))
    if m >= 6:
        X[1] = a_
        X[2] = b_
        X[3] = b_ + 0.1
        X[4] = a_ - 1.E-3
        X[5, -1] = b_[-1] + 1.E-12
    return X


def scenarios(teneva):
    """Yield (key, outcome) for the whole deterministic scenario list."""
    rng = np.random.default_rng(20260927)

    # --- func_get -----------------------------------------------------------
    for name, n, r in _tt_cases(rng):
        d = len(n)
        Y = _rand_tt(rng, n, r)
        A = teneva.func_int(Y)
        for bname, a, b in _boxes(rng, d):
            X = _points(rng, d, a, b, 9)
            for skip_out in [None, True, False]:
                for z in [0., -7.5, 3]:
                    key = ('get', name, bname, skip_out, z)
                    yield key, _call(teneva.func_get, (X, A, a, b),
                        {'z': z, 'skip_out': skip_out})
            # single point (1D input), inside and outside:
            yield ('get1-in', name, bname), _call(teneva.func_get,
                (X[0], A, a, b), {})
            yield ('get1-out', name, bname), _call(teneva.func_get,
                (X[3], A, a, b), {'z': 42.})
            yield ('get1-out-noskip', name, bname), _call(teneva.func_get,
                (X[3], A, a, b), {'z': 42., 'skip_out': False})
            # list input, positional z / funcs / kind, empty sample:
            yield ('get-list', name, bname), _call(teneva.func_get,
                (X.tolist(), A, a, b, 1.5, None, 'cheb', True), {})
            yield ('get-empty', name, bname), _call(teneva.func_get,
                (np.zeros((0, d)), A, a, b), {})
            yield ('get-onerow', name, bname), _call(teneva.func_get,
                (X[:1], A, a, b), {})

        # raw (not interpolated) coefficients, integer cores:
        A_raw = _rand_tt(rng, n, r, scale=2.)
        A_int = _rand_tt(rng, n, r, dtype=int)
        X = _points(rng, d, -1., 2., 7)
        yield ('get-raw', name), _call(teneva.func_get, (X, A_raw, -1., 2.), {})
        yield ('get-int', name), _call(teneva.func_get, (X, A_int, -1., 2.), {})

        # custom basis functions (list, single callable, wrong length):
        def f_mono(x, n_max=max(n)):
            return np.array([x**k for k in range(n_max)])

        def f_short(x):
            return np.array([np.ones_like(x), x])

        yield ('get-funcs-list', name), _call(teneva.func_get,
            (X, A_raw, -1., 2.), {'funcs': [f_mono] * d})
        yield ('get-funcs-one', name), _call(teneva.func_get,
            (X, A_raw, -1., 2.), {'funcs': f_mono, 'skip_out': False})
        yield ('get-funcs-bad-len', name), _call(teneva.func_get,
            (X, A_raw, -1., 2.), {'funcs': [f_mono] * (d + 1)})
        yield ('get-funcs-short', name), _call(teneva.func_get,
            (X, A_raw, -1., 2.), {'funcs': f_short})

        # erroneous inputs (exceptions must be the same):
        yield ('get-bad-a', name), _call(teneva.func_get,
            (X, A_raw, [0.] * (d + 1), 2.), {})
        yield ('get-bad-cols', name), _call(teneva.func_get,
            (np.zeros((3, d + 1)), A_raw, -1., 2.), {})
        yield ('get-bad-cols-noskip', name), _call(teneva.func_get,
            (np.zeros((3, d + 1)), A_raw, -1., 2.), {'skip_out': False})
        if d > 1:
            yield ('get-few-cols', name), _call(teneva.func_get,
                (np.zeros((3, d - 1)), A_raw, -1., 2.), {'skip_out': False})
        yield ('get-scalar-x', name), _call(teneva.func_get,
            (0.5, A_raw, -1., 2.), {})
        yield ('get-nan-x', name), _call(teneva.func_get,
            (np.full((2, d), np.nan), A_raw, -1., 2.), {})

    # exactness sample: product polynomial, evaluated through both versions
    for d in [2, 3, 4]:
        n = [5] * d
        a, b = [-1.5] * d, [2.] * d
        I = np.arange(5)
        Y = []
        for k in range(d):
            t = np.cos(np.pi * I / 4)
            x = (b[k] - a[k]) * (t + 1.) / 2 + a[k]
            Y.append((1. + x - 0.3 * x**3 + 0.1 * x**4).reshape(1, -1, 1))
        A = teneva.func_int(Y)
        X = _points(rng, d, a, b, 12)
        yield ('get-poly', d), _call(teneva.func_get, (X, A, a, b), {})
        yield ('sum-poly', d), _call(teneva.func_sum, (A, a, b), {})

    # --- func_sum -----------------------------------------------------------
    for name, n, r in _tt_cases(rng):
        d = len(n)
        Y = _rand_tt(rng, n, r)
        A_int = _rand_tt(rng, n, r, dtype=int)
        for kind in ['cheb', 'sin']:
            A = teneva.func_int(Y, kind)
            for bname, a, b in _boxes(rng, d):
                if a is None or b is None:
                    continue
                yield ('sum', name, kind, bname), _call(teneva.func_sum,
                    (A, a, b, kind), {})
            yield ('sum-int', name, kind), _call(teneva.func_sum,
                (A_int, -1, 1), {'kind': kind})
        A = teneva.func_int(Y)
        yield ('sum-default', name), _call(teneva.func_sum, (A, -2., 5.), {})
        yield ('sum-bad-kind', name), _call(teneva.func_sum,
            (A, -2., 5., 'foo'), {})
        yield ('sum-bad-a', name), _call(teneva.func_sum,
            (A, [0.] * (d + 2), 5.), {})
        yield ('sum-none', name), _call(teneva.func_sum, (A, None, None), {})
        yield ('sum-tuple-long', name), _call(teneva.func_sum,
            (A, tuple([-1.] * (d + 1)), tuple([2.] * (d + 1))), {})
        if d > 1:
            yield ('sum-tuple-short', name), _call(teneva.func_sum,
                (A, tuple([-1.] * (d - 1)), tuple([2.] * (d - 1))), {})

    # --- func_sum_full ------------------------------------------------------
    full_shapes = [(2,), (5,), (8,), (2, 2), (4, 3), (5, 6), (3, 4, 5),
        (7, 2, 6), (2, 3, 2, 4), (4, 5, 3, 2, 3)]
    for sh in full_shapes:
        d = len(sh)
        name = 'x'.join(str(s) for s in sh)
        Yf = rng.normal(size=sh)
        Af = teneva.func_int_full(Yf)
        variants = [
            ('coef', Af),
            ('raw', rng.normal(size=sh) * 3.),
            ('fortran', np.asfortranarray(Af)),
            ('int', np.round(Yf * 4).astype(int)),
            ('f32', Af.astype(np.float32)),
        ]
        if d > 1:
            big = rng.normal(size=tuple(2 * s for s in sh))
            variants.append(('strided', big[tuple(slice(None, None, 2)
                for _ in sh)]))
            variants.append(('transposed', rng.normal(size=sh[::-1]).T))
        for vname, Av in variants:
            for bname, a, b in _boxes(rng, d):
                yield ('sumfull', name, vname, bname), _call(
                    teneva.func_sum_full, (Av, a, b), {})
        yield ('sumfull-bad-a', name), _call(teneva.func_sum_full,
            (Af, [-1.] * (d + 1), 1.), {})
        yield ('sumfull-tuple-long', name), _call(teneva.func_sum_full,
            (Af, tuple([-1.] * (d + 1)), tuple([1.] * (d + 1))), {})
        yield ('sumfull-tuple-long-asym', name), _call(teneva.func_sum_full,
            (Af, tuple([-1.] * d + [0.]), tuple([1.] * d + [5.])), {})
        if d > 1:
            yield ('sumfull-tuple-short', name), _call(teneva.func_sum_full,
                (Af, tuple([-1.] * (d - 1)), tuple([1.] * (d - 1))), {})
        yield ('sumfull-list', name), _call(teneva.func_sum_full,
            (Af.tolist(), -1., 1.), {})
        yield ('sumfull-nan-box', name), _call(teneva.func_sum_full,
            (Af, -1., np.nan), {})
        yield ('sumfull-tiny-asym', name), _call(teneva.func_sum_full,
            (Af, -1., 1. + 1.E-15), {})

    # dense vs TT consistency inputs (same data through both sum routines):
    for sh in [(4, 5), (3, 4, 5)]:
        Y = _rand_tt(rng, list(sh), [2] * (len(sh) - 1))
        A = teneva.func_int(Y)
        yield ('sum-tt-of-dense', sh), _call(teneva.func_sum, (A, -2., 2.), {})
        yield ('sumfull-of-tt', sh), _call(teneva.func_sum_full,
            (teneva.full(A), -2., 2.), {})


def worker(path_out, root):
    os.chdir(root)
    sys.path.insert(0, root)
    import teneva
    got = os.path.realpath(teneva.__file__)
    want = os.path.realpath(os.path.join(root, 'teneva', '__init__.py'))
    assert got == want, f'Wrong package imported: {got} (expected {want})'
    res = list(scenarios(teneva))
    with open(path_out, 'wb') as f:
        pickle.dump(res, f)


# ---------------------------------------------------------------------------
# Driver part
# ---------------------------------------------------------------------------


def compare(key, o1, o2):
    """Return list of human-readable differences for one scenario."""
    diffs = []
    if o1['ok'] != o2['ok']:
        return [f'{key}: orig={o1} new={o2}']
    if o1['mutated'] != o2['mutated']:
        diffs.append(f'{key}: argument mutation differs '
            f'({o1["mutated"]} vs {o2["mutated"]})')
    if not o1['ok']:
        if o1['exc'] != o2['exc']:
            diffs.append(f'{key}: exception {o1["exc"]}({o1["msg"]!r}) vs '
                f'{o2["exc"]}({o2["msg"]!r})')
        return diffs
    r1, r2 = o1['res'], o2['res']
    for fld in ['t', 'dtype', 'shape']:
        if r1[fld] != r2[fld]:
            diffs.append(f'{key}: {fld} differs: {r1[fld]} vs {r2[fld]}')
    if isinstance(r1['v'], np.ndarray) and isinstance(r2['v'], np.ndarray):
        if r1['v'].shape != r2['v'].shape or not np.allclose(r1['v'], r2['v'],
                rtol=RTOL, atol=ATOL, equal_nan=True):
            diffs.append(f'{key}: values differ: {r1["v"]} vs {r2["v"]}')
    elif r1['v'] != r2['v']:
        diffs.append(f'{key}: values differ: {r1["v"]} vs {r2["v"]}')
    return diffs


def main():
    tmp = tempfile.mkdtemp(prefix='equivC12_')
    outs = []
    for tag, root in [('orig', ROOT_ORIG), ('new', ROOT_NEW)]:
        path = os.path.join(tmp, f'{tag}.pkl')
        env = dict(os.environ)
        env.pop('PYTHONPATH', None)
        env['PYTHONWARNINGS'] = 'ignore'
        p = subprocess.run([sys.executable, os.path.abspath(__file__),
            '--worker', path, root], cwd=root, env=env)
        if p.returncode != 0:
            print(f'Worker "{tag}" failed with code {p.returncode}')
            return 1
        with open(path, 'rb') as f:
            outs.append(pickle.load(f))

    res_orig, res_new = outs
    if [k for k, _ in res_orig] != [k for k, _ in res_new]:
        print('Scenario lists differ')
        return 1

    diffs, n_exc, n_msg, max_err = [], 0, 0, 0.
    stat = {}
    for (key, o1), (_, o2) in zip(res_orig, res_new):
        diffs.extend(compare(key, o1, o2))
        stat.setdefault(key[0].split('-')[0], [0, 0])[0 if o1['ok'] else 1] += 1
        if not o1['ok']:
            n_exc += 1
            if o2.get('msg') != o1['msg']:
                n_msg += 1
        elif o2['ok'] and isinstance(o1['res']['v'], np.ndarray) \
                and o1['res']['v'].shape == o2['res']['v'].shape \
                and o1['res']['v'].size:
            v1 = o1['res']['v'].astype(float)
            v2 = o2['res']['v'].astype(float)
            with np.errstate(all='ignore'):
                e = np.abs(v1 - v2) / np.maximum(1., np.abs(v1))
            if np.any(np.isfinite(e)):
                max_err = max(max_err, float(np.nanmax(e[np.isfinite(e)])))

    print(f'Scenarios: {len(res_orig)} (with exception in orig: {n_exc}; '
        f'same exception type but different message: {n_msg})')
    for grp, (n_ok, n_ex) in sorted(stat.items()):
        print(f'  {grp:10s}: {n_ok:5d} returned, {n_ex:4d} raised')
    print(f'Max relative deviation of returned values: {max_err:.2e}')
    if diffs:
        print(f'DIFFERENCES: {len(diffs)}')
        for t in diffs[:40]:
            print('  ' + t)
        return 1
    print('All scenarios agree')
    return 0


if __name__ == '__main__':
    if len(sys.argv) == 4 and sys.argv[1] == '--worker':
        worker(sys.argv[2], sys.argv[3])
        sys.exit(0)
    sys.exit(main())
