#!/venv/bin/python
"""Equivalence demonstration for the C17 twin C (QTT conversion / index maps).

The ORIGINAL package (pristine `git archive HEAD teneva` in
/tmp/twinsC/C17/orig) and the REFACTORED package (/tmp/wt/C17) are run in two
subprocesses on the same deterministic scenario list; every scenario records
the returned value (or the exception type + message), the emitted warnings,
the state of the arguments after the call and one draw of the global NumPy
random generator after the call. The two pickles are then compared.

Exit code: 0 if everything agrees, 1 otherwise.

    /venv/bin/python /tmp/twinsC/C17/equiv.py

"""
import itertools
import os
import pickle
import subprocess
import sys
import tempfile
import warnings

import numpy as np


DIR_ORIG = '/tmp/twinsC/C17/orig'
DIR_TWIN = '/tmp/wt/C17'
RTOL = 1.E-12
ATOL = 1.E-14


# ----------------------------------------------------------------------------
# Worker part (runs inside one of the two trees)
# ----------------------------------------------------------------------------


def _enc(x):
    """Encode a result into plain picklable / comparable data."""
    if isinstance(x, np.ndarray):
        return ('nd', type(x).__name__, x.dtype.str, tuple(x.shape),
            bool(x.flags['C_CONTIGUOUS']), bool(x.flags['F_CONTIGUOUS']),
            bool(x.flags['OWNDATA']), bool(x.flags['WRITEABLE']),
            np.array(x, copy=True))
    if isinstance(x, (list, tuple)):
        return (type(x).__name__, [_enc(v) for v in x])
    if isinstance(x, dict):
        return ('dict', [(repr(k), _enc(v)) for k, v in x.items()])
    if isinstance(x, (np.generic,)):
        return ('npscalar', type(x).__name__, x.item())
    if callable(x):
        return ('callable', getattr(x, '__name__', type(x).__name__))
    return ('py', type(x).__name__, repr(x))


def _call(func, *args, **kwargs):
    """Call func and record everything observable."""
    args_before = _enc(list(args))
    np.random.seed(12345)
    with warnings.catch_warnings(record=True) as wlist:
        warnings.simplefilter('always')
        try:
            res = ('ok', _enc(func(*args, **kwargs)))
        except Exception as exc:
            res = ('exc', type(exc).__name__, str(exc))
    wrn = sorted({(w.category.__name__, str(w.message)) for w in wlist})
    draw = float(np.random.rand())
    args_after = _enc(list(args))
    return {'res': res, 'warn': wrn, 'draw': draw,
        'args_before': args_before, 'args_after': args_after}


def _rand_core(rng, r1, n, r2, kind):
    if kind == 'rand':
        return rng.standard_normal((r1, n, r2))
    if kind == 'rank1':
        a = rng.standard_normal(r1)
        b = rng.standard_normal(n)
        c = rng.standard_normal(r2)
        return np.einsum('i,j,k->ijk', a, b, c)
    if kind == 'zero':
        return np.zeros((r1, n, r2))
    if kind == 'ones':
        return np.ones((r1, n, r2))
    if kind == 'lowrank':
        # Exactly low QTT-rank content: sum of two separable terms
        G = np.zeros((r1, n, r2))
        for _ in range(2):
            a = rng.standard_normal(r1)
            b = np.cos(rng.uniform(0, 3) * np.arange(n))
            c = rng.standard_normal(r2)
            G += np.einsum('i,j,k->ijk', a, b, c)
        return G
    if kind == 'fortran':
        return np.asfortranarray(rng.standard_normal((r1, n, r2)))
    if kind == 'view':
        return rng.standard_normal((r2, n, r1)).T
    if kind == 'strided':
        return rng.standard_normal((r1, 2*n, r2))[:, ::2, :]
    if kind == 'f32':
        return rng.standard_normal((r1, n, r2)).astype(np.float32)
    if kind == 'cplx':
        return rng.standard_normal((r1, n, r2)) \
            + 1j * rng.standard_normal((r1, n, r2))
    if kind == 'int':
        return rng.integers(-3, 4, size=(r1, n, r2))
    if kind == 'scaled':
        return 1.E+8 * rng.standard_normal((r1, n, r2))
    if kind == 'tiny':
        return 1.E-9 * rng.standard_normal((r1, n, r2))
    if kind == 'readonly':
        G = rng.standard_normal((r1, n, r2))
        G.setflags(write=False)
        return G
    raise ValueError(kind)


def _rand_tt(rng, n, ranks):
    return [rng.standard_normal((ranks[k], n[k], ranks[k+1]))
        for k in range(len(n))]


def scenarios(teneva):
    out = {}

    def add(name, func, *args, **kwargs):
        assert name not in out, name
        out[name] = _call(func, *args, **kwargs)

    # --- core_tt_to_qtt: ranks (incl. 1 and over-ranked), levels, e, r -------
    kinds = ['rand', 'rank1', 'zero', 'ones', 'lowrank', 'fortran', 'view',
        'strided', 'f32', 'cplx', 'int', 'scaled', 'tiny', 'readonly']
    accs = [(0., 1.E+12), (1.E-12, 1.E+12), (1.E-6, 100), (1.E-2, 3),
        (0.5, 1.E+12), (0., 1), (0., 2), (1.E-10, 2.7), (10., 5)]
    seed = 0
    for r1, r2 in [(1, 1), (1, 3), (3, 1), (2, 2), (4, 5), (9, 2), (2, 17),
            (40, 3), (3, 40)]:
        for q in [1, 2, 3, 4, 5, 6]:
            for (e, r) in accs:
                seed += 1
                rng = np.random.default_rng(seed)
                kind = kinds[seed % len(kinds)]
                G = _rand_core(rng, r1, 2**q, r2, kind)
                add(f'core_tt_to_qtt/{r1}x2^{q}x{r2}/{kind}/e{e}/r{r}',
                    teneva.core_tt_to_qtt, G, e, r)

    for kind in kinds:
        for q in [1, 3, 5]:
            seed += 1
            rng = np.random.default_rng(seed)
            G = _rand_core(rng, 3, 2**q, 4, kind)
            add(f'core_tt_to_qtt/defaults/{kind}/q{q}',
                teneva.core_tt_to_qtt, G)
            add(f'core_tt_to_qtt/keywords/{kind}/q{q}',
                teneva.core_tt_to_qtt, G=G, r=2, e=1.E-3)
            add(f'core_tt_to_qtt/over_ranked_left/{kind}/q{q}',
                teneva.core_tt_to_qtt,
                _rand_core(rng, 5 * 2**q, 2**q, 2, kind), 1.E-8)

    # Rejected / degenerate inputs (same exception type and message)
    rng = np.random.default_rng(777)
    for n in [0, 1, 3, 5, 6, 7, 12, 24, 100, 1023, 1025]:
        for r1, r2 in [(1, 1), (2, 3), (2, 2)]:
            add(f'core_tt_to_qtt/bad_n{n}/{r1}_{r2}', teneva.core_tt_to_qtt,
                rng.standard_normal((r1, n, r2)), 1.E-8, 5)
    add('core_tt_to_qtt/bad_2d', teneva.core_tt_to_qtt,
        rng.standard_normal((4, 4)))
    add('core_tt_to_qtt/bad_4d', teneva.core_tt_to_qtt,
        rng.standard_normal((2, 4, 2, 2)))
    add('core_tt_to_qtt/bad_list', teneva.core_tt_to_qtt,
        rng.standard_normal((2, 4, 2)).tolist())
    add('core_tt_to_qtt/bad_none', teneva.core_tt_to_qtt, None)
    add('core_tt_to_qtt/bad_r0', teneva.core_tt_to_qtt,
        rng.standard_normal((2, 8, 2)), 0., 0)
    add('core_tt_to_qtt/bad_rneg', teneva.core_tt_to_qtt,
        rng.standard_normal((2, 8, 2)), 0., -3)
    add('core_tt_to_qtt/bad_rstr', teneva.core_tt_to_qtt,
        rng.standard_normal((2, 8, 2)), 0., 'x')
    add('core_tt_to_qtt/bad_enone', teneva.core_tt_to_qtt,
        rng.standard_normal((2, 8, 2)), None, 3)
    add('core_tt_to_qtt/nan', teneva.core_tt_to_qtt,
        np.full((2, 4, 2), np.nan))
    add('core_tt_to_qtt/empty_rank', teneva.core_tt_to_qtt,
        np.zeros((0, 4, 2)))

    # --- whole tensors: tt_to_qtt / qtt_to_tt / get through the anchors ------
    for d in [1, 2, 3, 4]:
        for q in [1, 2, 3, 4]:
            for prof in ['one', 'small', 'big', 'over']:
                for (e, r) in [(1.E-12, 100), (1.E-4, 3), (0., 1.E+12)]:
                    seed += 1
                    rng = np.random.default_rng(seed)
                    if prof == 'one':
                        ranks = [1] * (d + 1)
                    elif prof == 'small':
                        ranks = [1] + [2] * (d - 1) + [1]
                    elif prof == 'big':
                        ranks = [1] + list(rng.integers(1, 7, d - 1)) + [1]
                    else:
                        ranks = [1] + [3 * 2**q] * (d - 1) + [1]
                    ranks = [int(v) for v in ranks]
                    Y = _rand_tt(rng, [2**q] * d, ranks)
                    name = f'tensor/d{d}/q{q}/{prof}/e{e}/r{r}'
                    add('tt_to_qtt/' + name, teneva.tt_to_qtt, Y, e, r)

                    def _round(Y, e, r, q, teneva=teneva):
                        Z = teneva.tt_to_qtt(Y, e, r)
                        X = teneva.qtt_to_tt(Z, q)
                        I = teneva.grid_flat([2**q] * len(Y))[:64]
                        J = teneva.ind_tt_to_qtt(I, 2**q)
                        K = teneva.ind_qtt_to_tt(J, q)
                        return [Z, X, I, J, K, teneva.get_many(Y, I),
                            teneva.get_many(Z, J), teneva.get_many(X, K),
                            teneva.erank(Z), teneva.ranks(Z)]
                    add('round/' + name, _round, Y, e, r, q)

    # --- ind_tt_to_qtt: exhaustive over bounded q*d --------------------------
    for d in [1, 2, 3, 4, 5, 6]:
        for q in [1, 2, 3, 4, 5, 6]:
            if q * d > 12:
                continue
            n = 2**q
            I = np.array(list(itertools.product(range(n), repeat=d)),
                dtype=int)
            add(f'ind_tt_to_qtt/all/d{d}/q{q}', teneva.ind_tt_to_qtt, I, n)
            add(f'ind_tt_to_qtt/all_list/d{d}/q{q}', teneva.ind_tt_to_qtt,
                I.tolist(), n)
            add(f'ind_tt_to_qtt/all_i32/d{d}/q{q}', teneva.ind_tt_to_qtt,
                I.astype(np.int32), n)
            add(f'ind_tt_to_qtt/all_u8/d{d}/q{q}', teneva.ind_tt_to_qtt,
                I.astype(np.uint8), n)
            add(f'ind_tt_to_qtt/all_float/d{d}/q{q}', teneva.ind_tt_to_qtt,
                I.astype(float), float(n))
            add(f'ind_tt_to_qtt/all_fortran/d{d}/q{q}', teneva.ind_tt_to_qtt,
                np.asfortranarray(I), np.int64(n))
            add(f'ind_tt_to_qtt/all_rev/d{d}/q{q}', teneva.ind_tt_to_qtt,
                I[::-1, ::-1], n)
            step = max(1, len(I) // 97)
            for k, i in enumerate(I[::step]):
                add(f'ind_tt_to_qtt/one/d{d}/q{q}/{k}', teneva.ind_tt_to_qtt,
                    i, n)
                add(f'ind_tt_to_qtt/one_list/d{d}/q{q}/{k}',
                    teneva.ind_tt_to_qtt, [int(v) for v in i], n)
                add(f'ind_tt_to_qtt/one_tuple/d{d}/q{q}/{k}',
                    teneva.ind_tt_to_qtt, tuple(int(v) for v in i), n)
                add(f'ind_tt_to_qtt/one_row/d{d}/q{q}/{k}',
                    teneva.ind_tt_to_qtt, i.reshape(1, -1), n)

            J = teneva.ind_tt_to_qtt(I, n)
            add(f'ind_qtt_to_tt/all/d{d}/q{q}', teneva.ind_qtt_to_tt, J, q)
            add(f'ind_qtt_to_tt/all_list/d{d}/q{q}', teneva.ind_qtt_to_tt,
                J.tolist(), q)
            add(f'ind_qtt_to_tt/all_i32/d{d}/q{q}', teneva.ind_qtt_to_tt,
                J.astype(np.int32), q)
            add(f'ind_qtt_to_tt/all_bool/d{d}/q{q}', teneva.ind_qtt_to_tt,
                J.astype(bool), q)
            add(f'ind_qtt_to_tt/all_fortran/d{d}/q{q}', teneva.ind_qtt_to_tt,
                np.asfortranarray(J), np.int64(q))
            add(f'ind_qtt_to_tt/all_rev/d{d}/q{q}', teneva.ind_qtt_to_tt,
                J[::-1, ::-1], q)
            for k, j in enumerate(J[::step]):
                add(f'ind_qtt_to_tt/one/d{d}/q{q}/{k}', teneva.ind_qtt_to_tt,
                    j, q)
                add(f'ind_qtt_to_tt/one_list/d{d}/q{q}/{k}',
                    teneva.ind_qtt_to_tt, [int(v) for v in j], q)
                add(f'ind_qtt_to_tt/one_row/d{d}/q{q}/{k}',
                    teneva.ind_qtt_to_tt, j.reshape(1, -1), q)

    # Random big batches, repeated columns (the refactored ind_tt_to_qtt keeps
    # a per-call table for the equal columns) and big levels
    for d, q, m in [(1, 10, 500), (3, 8, 400), (7, 3, 300), (10, 5, 200),
            (20, 1, 100), (4, 20, 50), (2, 40, 30), (1, 62, 10)]:
        seed += 1
        rng = np.random.default_rng(seed)
        I = rng.integers(0, 2**q, size=(m, d))
        add(f'ind_tt_to_qtt/rand/d{d}/q{q}', teneva.ind_tt_to_qtt, I, 2**q)
        I2 = I.copy()
        I2[:, -1] = I2[:, 0]
        I2 = np.hstack([I2, I2[:, :1], I2[:, ::-1]])
        add(f'ind_tt_to_qtt/rand_rep/d{d}/q{q}', teneva.ind_tt_to_qtt, I2,
            2**q)
        add(f'ind_tt_to_qtt/rand_const/d{d}/q{q}', teneva.ind_tt_to_qtt,
            np.full((m, d), 2**q - 1), 2**q)
        add(f'ind_tt_to_qtt/rand_const1/d{d}/q{q}', teneva.ind_tt_to_qtt,
            [2**q - 1] * d, 2**q)
        J = rng.integers(0, 2, size=(m, d*q))
        add(f'ind_qtt_to_tt/rand/d{d}/q{q}', teneva.ind_qtt_to_tt, J, q)
        add(f'ind_qtt_to_tt/rand_tail/d{d}/q{q}', teneva.ind_qtt_to_tt,
            np.hstack([J, J[:, :1]]), q)

    # Rejected / degenerate inputs of the index maps
    I = np.array([[0, 1, 2], [3, 2, 1]])
    for n in [0, 1, 3, 5, 6, 7, 12, -4, 0.5, 0.25, 6.0, 8.0, 2.5, 1.E+3,
            np.int64(6), np.float64(16), 2**62, 2**64, '8', None, [4]]:
        add(f'ind_tt_to_qtt/bad_n/{n!r}', teneva.ind_tt_to_qtt, I, n)
        add(f'ind_tt_to_qtt/bad_n1/{n!r}', teneva.ind_tt_to_qtt, [0, 1, 0], n)
    for bad in [4, 5, -1, 100]:
        add(f'ind_tt_to_qtt/bad_ind/{bad}', teneva.ind_tt_to_qtt,
            [[0, 1], [2, bad]], 4)
        add(f'ind_tt_to_qtt/bad_ind_rep/{bad}', teneva.ind_tt_to_qtt,
            [[bad, bad], [bad, bad]], 4)
        add(f'ind_tt_to_qtt/bad_ind1/{bad}', teneva.ind_tt_to_qtt,
            [0, bad], 4)
    add('ind_tt_to_qtt/none', teneva.ind_tt_to_qtt, None, 4)
    add('ind_tt_to_qtt/scalar', teneva.ind_tt_to_qtt, 3, 4)
    add('ind_tt_to_qtt/0d', teneva.ind_tt_to_qtt, np.array(3), 4)
    add('ind_tt_to_qtt/3d', teneva.ind_tt_to_qtt,
        np.zeros((2, 3, 2), dtype=int), 4)
    add('ind_tt_to_qtt/3d_b', teneva.ind_tt_to_qtt,
        np.arange(8).reshape(2, 2, 2) % 4, 4)
    add('ind_tt_to_qtt/empty_batch', teneva.ind_tt_to_qtt,
        np.zeros((0, 3), dtype=int), 4)
    add('ind_tt_to_qtt/empty_dim', teneva.ind_tt_to_qtt,
        np.zeros((3, 0), dtype=int), 4)
    add('ind_tt_to_qtt/empty_1d', teneva.ind_tt_to_qtt, [], 4)
    add('ind_tt_to_qtt/frac', teneva.ind_tt_to_qtt, [[0.5, 1.7], [3.9, 2.]],
        4)
    add('ind_tt_to_qtt/str', teneva.ind_tt_to_qtt, [['a', 'b']], 4)
    add('ind_tt_to_qtt/ragged', teneva.ind_tt_to_qtt, [[0, 1], [2]], 4)
    add('ind_tt_to_qtt/keywords', teneva.ind_tt_to_qtt, n=8, I=[[1, 7, 3]])
    Iro = np.array([[1, 2], [3, 0]])
    Iro.setflags(write=False)
    add('ind_tt_to_qtt/readonly', teneva.ind_tt_to_qtt, Iro, 4)

    J = np.array([[0, 1, 1, 0, 0, 1], [1, 1, 1, 0, 0, 0]])
    for q in [0, -1, -2, -3, 1.0, 2.0, 1.5, 4, 5, 6, 7, 100, '2', None,
            np.int64(3), np.float64(3.)]:
        add(f'ind_qtt_to_tt/bad_q/{q!r}', teneva.ind_qtt_to_tt, J, q)
        add(f'ind_qtt_to_tt/bad_q1/{q!r}', teneva.ind_qtt_to_tt,
            [0, 1, 1, 0, 0, 1], q)
    for bad in [2, 3, -1, 100]:
        add(f'ind_qtt_to_tt/bad_digit/{bad}', teneva.ind_qtt_to_tt,
            [[0, 1, 1, 0], [1, bad, 0, 0]], 2)
        add(f'ind_qtt_to_tt/bad_digit1/{bad}', teneva.ind_qtt_to_tt,
            [0, 1, bad, 0], 2)
        add(f'ind_qtt_to_tt/bad_digit_tail/{bad}', teneva.ind_qtt_to_tt,
            [0, 1, 1, 0, bad], 2)
    add('ind_qtt_to_tt/none', teneva.ind_qtt_to_tt, None, 2)
    add('ind_qtt_to_tt/scalar', teneva.ind_qtt_to_tt, 1, 2)
    add('ind_qtt_to_tt/0d', teneva.ind_qtt_to_tt, np.array(1), 2)
    add('ind_qtt_to_tt/3d', teneva.ind_qtt_to_tt,
        np.zeros((2, 4, 2), dtype=int), 2)
    add('ind_qtt_to_tt/3d_b', teneva.ind_qtt_to_tt,
        np.arange(16).reshape(2, 4, 2) % 2, 2)
    add('ind_qtt_to_tt/3d_c', teneva.ind_qtt_to_tt,
        np.arange(8).reshape(2, 2, 2) % 2, 2)
    add('ind_qtt_to_tt/empty_batch', teneva.ind_qtt_to_tt,
        np.zeros((0, 6), dtype=int), 2)
    add('ind_qtt_to_tt/empty_dim', teneva.ind_qtt_to_tt,
        np.zeros((3, 0), dtype=int), 2)
    add('ind_qtt_to_tt/empty_1d', teneva.ind_qtt_to_tt, [], 2)
    add('ind_qtt_to_tt/frac', teneva.ind_qtt_to_tt, [[0.5, 1.7, 1.2, 0.]], 2)
    add('ind_qtt_to_tt/ragged', teneva.ind_qtt_to_tt, [[0, 1], [1]], 2)
    add('ind_qtt_to_tt/keywords', teneva.ind_qtt_to_tt, q=3,
        I_qtt=[[1, 0, 1, 0, 1, 1]])
    Jro = np.array([[1, 0], [1, 1]])
    Jro.setflags(write=False)
    add('ind_qtt_to_tt/readonly', teneva.ind_qtt_to_tt, Jro, 2)

    # Results must be fresh writeable arrays not aliasing the argument
    def _alias(func, A, p):
        A0 = A.copy()
        R = func(A, p)
        shared = bool(np.shares_memory(R, A))
        R[...] = -7
        return [shared, bool(np.array_equal(A, A0))]
    add('ind_tt_to_qtt/alias', _alias, teneva.ind_tt_to_qtt,
        np.array([[1, 2], [3, 0]]), 4)
    add('ind_tt_to_qtt/alias1', _alias, teneva.ind_tt_to_qtt,
        np.array([1, 2]), 4)
    add('ind_qtt_to_tt/alias', _alias, teneva.ind_qtt_to_tt,
        np.array([[1, 0], [1, 1]]), 2)
    add('ind_qtt_to_tt/alias1', _alias, teneva.ind_qtt_to_tt,
        np.array([1, 0]), 2)

    def _alias_core(G, e, r, teneva=teneva):
        G0 = G.copy()
        Y = teneva.core_tt_to_qtt(G, e, r)
        shared = [bool(np.shares_memory(Q, G)) for Q in Y]
        cross = [bool(np.shares_memory(Y[i], Y[j]))
            for i in range(len(Y)) for j in range(i)]
        for Q in Y:
            Q[...] = -7.
        return [shared, cross, bool(np.array_equal(G, G0))]
    rng = np.random.default_rng(4242)
    for q in [1, 2, 4]:
        for r1, r2 in [(1, 1), (3, 2)]:
            add(f'core_tt_to_qtt/alias/q{q}/{r1}_{r2}', _alias_core,
                rng.standard_normal((r1, 2**q, r2)), 1.E-8, 4)

    # Other functions that go through the anchors (optimum search in QTT)
    for d, q in [(2, 3), (3, 2), (4, 2)]:
        seed += 1
        rng = np.random.default_rng(seed)
        Y = _rand_tt(rng, [2**q] * d, [1] + [3] * (d - 1) + [1])
        add(f'optima_qtt/d{d}/q{q}', teneva.optima_qtt, Y, 10)

    return out


def worker(path):
    sys.path.insert(0, os.getcwd())
    import teneva
    root = os.path.dirname(os.path.dirname(os.path.abspath(teneva.__file__)))
    assert os.path.samefile(root, os.getcwd()), (root, os.getcwd())
    with np.errstate(all='warn'):
        out = scenarios(teneva)
    with open(path, 'wb') as f:
        pickle.dump({'root': root, 'out': out}, f)


# ----------------------------------------------------------------------------
# Comparison part
# ----------------------------------------------------------------------------


class Stat:
    arrays = 0
    exact = 0
    max_diff = 0.


def _same(a, b, where, errs):
    if type(a) is not type(b):
        errs.append(f'{where}: type {type(a)} vs {type(b)}')
        return
    if isinstance(a, np.ndarray):
        Stat.arrays += 1
        if a.shape != b.shape or a.dtype != b.dtype:
            errs.append(f'{where}: array meta {a.shape}/{a.dtype} vs '
                + f'{b.shape}/{b.dtype}')
            return
        if a.tobytes() == b.tobytes():
            Stat.exact += 1
            return
        if a.dtype.kind in 'fc':
            ok = np.allclose(a, b, rtol=RTOL, atol=ATOL, equal_nan=True)
            if a.size:
                with np.errstate(all='ignore'):
                    diff = np.abs(a - b)
                    diff = diff[np.isfinite(diff)]
                if diff.size:
                    Stat.max_diff = max(Stat.max_diff, float(diff.max()))
        else:
            ok = np.array_equal(a, b)
        if not ok:
            errs.append(f'{where}: array values differ')
        return
    if isinstance(a, (list, tuple)):
        if len(a) != len(b):
            errs.append(f'{where}: length {len(a)} vs {len(b)}')
            return
        for k, (x, y) in enumerate(zip(a, b)):
            _same(x, y, f'{where}[{k}]', errs)
        return
    if isinstance(a, dict):
        if sorted(a) != sorted(b):
            errs.append(f'{where}: keys differ')
            return
        for k in a:
            _same(a[k], b[k], f'{where}.{k}', errs)
        return
    if isinstance(a, float):
        if not (a == b or (a != a and b != b)
                or abs(a - b) <= ATOL + RTOL * abs(b)):
            errs.append(f'{where}: {a!r} vs {b!r}')
        return
    if a != b:
        errs.append(f'{where}: {a!r} vs {b!r}')


def main():
    tmp = tempfile.mkdtemp(prefix='equiv_C17_')
    data = {}
    for tag, cwd in [('orig', DIR_ORIG), ('twin', DIR_TWIN)]:
        path = os.path.join(tmp, tag + '.pkl')
        env = dict(os.environ)
        env.pop('PYTHONPATH', None)
        env['PYTHONDONTWRITEBYTECODE'] = '1'
        res = subprocess.run([sys.executable, os.path.abspath(__file__),
            '--worker', path], cwd=cwd, env=env)
        if res.returncode != 0:
            print(f'FAIL: worker "{tag}" exited with {res.returncode}')
            return 1
        with open(path, 'rb') as f:
            data[tag] = pickle.load(f)
        os.remove(path)
    os.rmdir(tmp)

    assert data['orig']['root'] != data['twin']['root']
    A, B = data['orig']['out'], data['twin']['out']

    errs = []
    if list(A) != list(B):
        errs.append('scenario lists differ')
    n_ok = n_exc = 0
    for name in A:
        if name not in B:
            continue
        cur = []
        _same(A[name], B[name], name, cur)
        errs.extend(cur)
        # The arguments are never modified by the original:
        if A[name]['res'][0] == 'ok':
            n_ok += 1
        else:
            n_exc += 1

    print(f'original : {data["orig"]["root"]}')
    print(f'refactor : {data["twin"]["root"]}')
    print(f'scenarios: {len(A)} ({n_ok} with a result, {n_exc} with an '
        + 'exception)')
    print(f'arrays   : {Stat.arrays} compared, {Stat.exact} bit-identical, '
        + f'max abs difference of the others {Stat.max_diff:.3e}')
    if errs:
        print(f'FAIL: {len(errs)} difference(s)')
        for e in errs[:40]:
            print('  ' + e)
        return 1
    print('OK: the refactored functions agree with the original ones')
    return 0


if __name__ == '__main__':
    if len(sys.argv) == 3 and sys.argv[1] == '--worker':
        worker(sys.argv[2])
        sys.exit(0)
    sys.exit(main())
