"""Corpus of source edits for `python -m ttsa selftest`.

expect='violation' (default): a realistic single change that breaks the
property (still compiles; the pinned tests do not notice).
expect='silent': behaviour preserving twin that must NOT raise an alarm.
"""
MUTANTS = []


def M(id, prop, file, old, new, **kw):
    d = dict(id=id, prop=prop, file=file, old=old, new=new)
    d.update(kw)
    MUTANTS.append(d)


def T(id, prop, file, old, new, **kw):
    M(id, prop, file, old, new, expect='silent', **kw)


# ------------------------------------------------------------------ C06
M('c06-drop-fold-ltr', 'C06', 'cross.py',
  "            if info['stop']:\n                Y[i] = np.tensordot(R, Y[i], 1)\n",
  "            if info['stop']:\n")
M('c06-swap-fold-rtl', 'C06', 'cross.py',
  "                Y[i] = np.tensordot(Y[i], R, 1)\n                info['r']",
  "                Y[i] = np.tensordot(R, Y[i], 1)\n                info['r']")
M('c06-no-budget-cached', 'C06', 'cross.py',
  "        if info['m_max'] is not None and info['m'] + len(I_new) > info['m_max']:\n            info['stop'] = 'm'\n            return\n",
  "")
M('c06-budget-wrong-batch', 'C06', 'cross.py',
  "info['m'] + len(I_new) > info['m_max']", "info['m'] + len(I) > info['m_max'] * 2")
M('c06-count-before-none', 'C06', 'cross.py',
  "        y = f(I)\n        if y is None:\n            info['stop'] = 'func'\n            return\n        info['m'] += len(I)\n",
  "        y = f(I)\n        info['m'] += len(I)\n        if y is None:\n            info['stop'] = 'func'\n            return\n")
M('c06-budget-ge', 'C06', 'cross.py',
  "info['m'] + len(I) > info['m_max']", "info['m'] + len(I) >= info['m_max']")
M('c06-stop-priority', 'C06', 'utils.py',
  "        if nswp is not None:\n            if info['nswp'] >= nswp:",
  "        if nswp is not None:\n            if info['nswp'] > nswp:")
M('c06-cb-overwrites', 'C06', 'cross.py',
  "                info['stop'] = info['stop'] or 'cb'\n\n        if teneva._info_appr(info, _time, nswp, e, e_vld, log):\n            return Y\n\n\ndef _func",
  "                info['stop'] = 'cb'\n\n        if teneva._info_appr(info, _time, nswp, e, e_vld, log):\n            return Y\n\n\ndef _func")
M('c06-nswp-twice', 'C06', 'cross.py',
  "        Y[d-1] = np.tensordot(Y[d-1], R, 1)\n\n        R = np.ones((1, 1))\n        for i in range(d-1, -1, -1):\n            Z = (func",
  "        Y[d-1] = np.tensordot(Y[d-1], R, 1)\n        info['nswp'] += 1\n\n        R = np.ones((1, 1))\n        for i in range(d-1, -1, -1):\n            Z = (func")
M('c06-validate-dropped', 'C06', 'cross.py',
  "    if e_vld is not None and (I_vld is None or y_vld is None):\n        raise ValueError('Validation dataset is not set')\n",
  "")
M('c06-stale-info-on-stop', 'C06', 'cross.py',
  "                Y[i] = np.tensordot(R, Y[i], 1)\n                info['r'] = teneva.erank(Y)\n                info['e'] = teneva.accuracy(Y, Yold)\n",
  "                info['r'] = teneva.erank(Y)\n                info['e'] = teneva.accuracy(Y, Yold)\n                Y[i] = np.tensordot(R, Y[i], 1)\n")
M('c06-e-stop-no-finite', 'C06', 'utils.py',
  "            if info['e'] <= e and not np.isinf(info['e']):", "            if info['e'] <= e:")
T('c06-twin-rename', 'C06', 'cross.py',
  "        y = f(I)\n        if y is None:\n            info['stop'] = 'func'\n            return\n        info['m'] += len(I)\n        return np.array(y, dtype=float)",
  "        vals = f(I)\n        if vals is None:\n            info['stop'] = 'func'\n            return\n        info['m'] += len(I)\n        return np.array(vals, dtype=float)")
T('c06-twin-budget-flipped', 'C06', 'cross.py',
  "info['m'] + len(I) > info['m_max']", "info['m_max'] < info['m'] + len(I)")


# ------------------------------------------------------------------ C01
M('c01-add-wrong-zero-block', 'C01', 'act_two.py',
  "Z1 = np.zeros([r1_l, k, r2_r])", "Z1 = np.zeros([r2_l, k, r2_r])")
M('c01-add-axis-last-core', 'C01', 'act_two.py',
  "        elif i == len(n) - 1:\n            G = np.concatenate([G1, G2], axis=0)",
  "        elif i == len(n) - 1:\n            G = np.concatenate([G1, G2], axis=2)")
M('c01-mul-number-all-cores', 'C01', 'act_two.py',
  "        Y = teneva.copy(Y2)\n        Y[0] *= Y1\n        return Y",
  "        Y = teneva.copy(Y2)\n        for G in Y:\n            G *= Y1\n        return Y")
M('c01-get-many-einsum-letter', 'C01', 'act_one.py',
  "'...q, q...r -> ...r'", "'...q, r...q -> ...r'")
M('c01-mean-einsum', 'C01', 'act_one.py',
  "        Z = Z @ np.einsum('rmq,m->rq', Y[i], p)", "        Z = Z @ np.einsum('rmq,r->mq', Y[i], p)")
M('c01-mul-reshape-kron', 'C01', 'act_two.py',
  "        G = G1[:, None, :, :, None] * G2[None, :, :, None, :]\n        G = G.reshape([G1.shape[0]*G2.shape[0], -1, G1.shape[-1]*G2.shape[-1]])\n        Y.append(G)",
  "        G = G1[:, None, :, :, None] * G2[None, :, :, None, :]\n        G = G.reshape([G1.shape[0]*G2.shape[0], -1, G1.shape[-1]])\n        Y.append(G)")
M('c01-ranks-axis', 'C01', 'props.py',
  "return np.array([1] + [G.shape[2] for G in Y], dtype=int)", "return np.array([1] + [G.shape[0] for G in Y], dtype=int)")
M('c01-full-squeeze', 'C01', 'transformation.py',
  "    if Z.shape[0] == 1:\n        Z = Z[0, ...]\n\n    if Z.shape[-1] == 1:\n        Z = Z[..., 0]\n\n    return Z",
  "    return np.squeeze(Z)")
M('c01-const-sign-all', 'C01', 'tensors.py',
  "    Y = [np.ones([1, k, 1]) * v for k in n]\n    Y[-1] *= s\n\n    if I_zero",
  "    Y = [np.ones([1, k, 1]) * v * s for k in n]\n\n    if I_zero")
T('c01-twin-dot', 'C01', 'act_one.py',
  "        Q = Q @ Y[k][:, i[k], :]", "        Q = np.dot(Q, Y[k][:, i[k], :])")
T('c01-twin-einsum-letters', 'C01', 'act_one.py',
  "np.einsum('rmq,m->rq', Y[i], p)", "np.einsum('amb,m->ab', Y[i], p)")
T('c01-twin-add-rename', 'C01', 'act_two.py',
  "            Z1 = np.zeros([r1_l, k, r2_r])\n            Z2 = np.zeros([r2_l, k, r1_r])\n            L1 = np.concatenate([G1, Z1], axis=2)\n            L2 = np.concatenate([Z2, G2], axis=2)",
  "            pad_a = np.zeros((r1_l, k, r2_r))\n            pad_b = np.zeros((r2_l, k, r1_r))\n            L1 = np.concatenate((G1, pad_a), axis=-1)\n            L2 = np.concatenate((pad_b, G2), axis=-1)")

# ------------------------------------------------------------------ C02 / C03
M('c02-svdmode-give-r', 'C02', 'transformation.py', "give_to='l')", "give_to='r')")
M('c02-no-norm-scaling', 'C02', 'transformation.py',
  "            Z, p = orthogonalize(Y, d-1), 0\n            e = e / np.sqrt(d-1) * np.linalg.norm(Z[-1])",
  "            Z, p = orthogonalize(Y, d-1), 0\n            e = e / np.sqrt(d-1)")
M('c02-pivot-zero', 'C02', 'transformation.py',
  "            Z, p = orthogonalize(Y, d-1), 0", "            Z, p = orthogonalize(Y, 0), 0")
M('c02-e-not-squared', ['C02', 'C03'], 'svd.py',
  "    where = np.where(np.cumsum(s[::-1]) <= e**2)[0]", "    where = np.where(np.cumsum(s[::-1]) <= e)[0]")
M('c02-rank-paren', ['C02', 'C03'], 'svd.py',
  "    rank = max(1, min(int(r), len(s) - dlen))", "    rank = max(1, min(int(r), len(s)) - dlen)")
M('c02-r-not-forwarded', 'C02', 'transformation.py',
  "            U, V = teneva.matrix_svd(G, e, r)", "            U, V = teneva.matrix_svd(G, e)")
M('c02-addmany-final-no-r', 'C02', 'act_many.py',
  "    return teneva.truncate(Y, e, r) if not teneva._is_num(Y) else Y", "    return teneva.truncate(Y, e) if not teneva._is_num(Y) else Y")
M('c03-give-default', 'C03', 'svd.py', "        G, Z = matrix_skeleton(Z, e, r, give_to='r')", "        G, Z = matrix_skeleton(Z, e, r)")
M('c03-gram-selector', ['C03', 'C02'], 'svd.py',
  "    C = A @ A.T if m <= n else A.T @ A", "    C = A @ A.T if m < n else A.T @ A")
M('c03-skeleton-l-swapped', 'C03', 'svd.py',
  "        return U[:, :r] @ S, V[:r, :]\n\n    elif give_to == 'r':", "        return U[:, :r], S @ V[:r, :]\n\n    elif give_to == 'r':")
M('c03-rank-floor', ['C03', 'C11'], 'svd.py',
  "    r = max(1, min(int(r), len(s) - dlen))", "    r = min(int(r), len(s) - dlen)")
T('c03-twin-selector-spelling', ['C02', 'C03', 'C11'], 'svd.py',
  "    C = A @ A.T if m <= n else A.T @ A", "    C = A @ A.T if not (m > n) else A.T @ A")
T('c02-twin-range-name', 'C02', 'transformation.py',
  "    for k in range(d-1, 0, -1):\n        r1, n, r2 = Z[k].shape\n        G = teneva._reshape(Z[k], (r1, n * r2))",
  "    for k in range(d-1, 0, -1):\n        ra, n, rb = Z[k].shape\n        r2 = rb\n        G = teneva._reshape(Z[k], (ra, n * rb))")

# ------------------------------------------------------------------ C04 / C16
M('c04-left-wrong-neighbour', 'C04', 'transformation.py',
  "    G2 = R @ G2\n    Z[i+1] = teneva._reshape(G2, (G2.shape[0], n2, r3))",
  "    G2 = R @ G2\n    Z[i] = teneva._reshape(G2, (G2.shape[0], n2, r3))")
M('c04-guard-off-by-one', 'C04', 'transformation.py',
  "    if i is None or i < 0 or i >= d-1:", "    if i is None or i < 0 or i > d-1:")
# (was listed as a mutant until calls that raise on every path were
# propagated to the caller: with k = d the loop reaches
# orthogonalize_left(Z, d-1), which raises the very same
# ValueError('Invalid mode number') -- the outer upper bound is redundant and
# the edit is behaviour preserving; the earlier "kill" was a false alarm)
T('c04-twin-pivot-guard-redundant', 'C04', 'transformation.py',
  "    if k is None or k < 0 or k > d-1:", "    if k is None or k < 0 or k > d:")
M('c04-inplace-copy-dropped', ['C04', 'C09'], 'transformation.py',
  "    Z = Y if inplace else teneva.copy(Y)\n\n    r1, n1, r2 = Z[i].shape\n    G1 = teneva._reshape(Z[i], (r1 * n1, r2))\n    Q, R = np.linalg.qr",
  "    Z = Y\n\n    r1, n1, r2 = Z[i].shape\n    G1 = teneva._reshape(Z[i], (r1 * n1, r2))\n    Q, R = np.linalg.qr")
M('c04-right-loop-range', 'C04', 'transformation.py',
  "    for i in range(d-1, k, -1):\n        orthogonalize_right(Z, i, inplace=True)",
  "    for i in range(d-1, k+1, -1):\n        orthogonalize_right(Z, i, inplace=True)")
M('c16-corestab-sign', 'C16', 'core.py', "    return Q, p0 + p", "    return Q, p0 - p")
M('c16-norm-half', 'C16', 'act_one.py',
  "        return np.sqrt(v) if v > 0 else 0., p/2", "        return np.sqrt(v) if v > 0 else 0., p")
M('c16-truncate-pd', 'C16', 'transformation.py', "            Z[k] *= 2**(p/d)", "            Z[k] *= 2**p")
M('c16-accuracy-exponent', 'C16', 'act_two.py', "    c = 2.**(p1 - p2)", "    c = 2.**(p1 + p2)")
M('c16-stab-wrong-core', ['C16', 'C04'], 'transformation.py',
  "            Z[i+1], p = teneva.core_stab(Z[i+1], p)", "            Z[i], p = teneva.core_stab(Z[i], p)")
M('c16-log-guard', 'C16', 'core.py',
  "    if v_max <= thr:\n        return G, p0\n\n", "")
M('c16-beam-scale-once', ['C16', 'C15'], 'optima.py',
  "        Q = Q[ind, :] if l2r else Q[:, ind]\n\n        Q *= 2**p0\n", "        Q = Q[ind, :] if l2r else Q[:, ind]\n")
T('c16-twin-pow', 'C16', 'core.py', "    Q = G / 2.**p", "    Q = G / (2.**p)")
T('c04-twin-qr-mode', 'C04', 'transformation.py',
  "    Q, R = np.linalg.qr(G1, mode='reduced')", "    Q, R = np.linalg.qr(G1)")

# ------------------------------------------------------------------ C05 / C06 extra
M('c05-drop-post-sweep-fold', ['C05', 'C06'], 'cross.py',
  "                tau, dr_min, dr_max, tau0, k0, ltr=True)\n        Y[d-1] = np.tensordot(Y[d-1], R, 1)\n",
  "                tau, dr_min, dr_max, tau0, k0, ltr=True)\n")
M('c05-yold-alias', ['C05', 'C06'], 'cross.py', "        Yold = teneva.copy(Y)\n\n        R = np.ones((1, 1))\n        for i in range(d):\n            Z = (func",
  "        Yold = Y\n\n        R = np.ones((1, 1))\n        for i in range(d):\n            Z = (func")
M('c05-cache-order', 'C05', 'cross.py',
  "    return np.array([cache[tuple(i)] for i in I], dtype=float)", "    return np.array([cache[tuple(i)] for i in I_new], dtype=float)")
M('c05-stale-e', 'C05', 'cross.py',
  "        info['nswp'] += 1\n        info['r'] = teneva.erank(Y)\n        info['e'] = teneva.accuracy(Y, Yold)",
  "        info['nswp'] += 1\n        info['r'] = teneva.erank(Yold)\n        info['e'] = teneva.accuracy(Y, Yold)")

# ------------------------------------------------------------------ C07
M('c07-any-on-index', 'C07', 'als.py', "        if idx.size == 0:", "        if not idx.any():")
M('c07-iface-out-index', 'C07', 'als.py',
  "                contract('jk,kjl->jl', Yl[k], Y[k][:, i, :], out=Yl[k+1])", "                contract('jk,kjl->jl', Yl[k], Y[k][:, i, :], out=Yl[k])")
M('c07-weights-one-side', 'C07', 'als.py',
  "            AW = w[:, None] * A\n            AtA = A.T @ AW\n            Aty = AW.T @ y",
  "            AW = w[:, None] * A\n            AtA = A.T @ AW\n            Aty = A.T @ y")
M('c07-no-ridge', 'C07', 'als.py',
  "        return sp.linalg.lstsq(AtA + lamb * np.identity(A.shape[1]), Aty,", "        return sp.linalg.lstsq(AtA, Aty,")
M('c07-skip-validation', 'C07', 'als.py', "    if not allow_skip_cores:\n        for k in range(d):", "    if False:\n        for k in range(d):")
M('c07-adaptive-give-to', 'C07', 'als.py',
  "    V1, V2 = teneva.matrix_skeleton(Qs, e, r,\n        rel=True, give_to='r' if ltr else 'l')",
  "    V1, V2 = teneva.matrix_skeleton(Qs, e, r,\n        rel=True, give_to='l' if ltr else 'r')")
M('c07-w-not-forwarded', 'C07', 'als.py',
  "            sol, residuals, rank, s = _lstsq(A, b, lamb=lamb,\n                w=w[idx] if w is not None else None, update_sol=None)",
  "            sol, residuals, rank, s = _lstsq(A, b, lamb=lamb,\n                w=None, update_sol=None)")
T('c07-twin-size-len', 'C07', 'als.py', "        if idx.size == 0:", "        if len(idx) == 0:")

# ------------------------------------------------------------------ C08
M('c08-accept-square', 'C08', 'maxvol.py', "    if n <= r:\n        raise ValueError('Input matrix should be \"tall\"')", "    if n < r:\n        raise ValueError('Input matrix should be \"tall\"')")
M('c08-mask-late', 'C08', 'maxvol.py',
  "        I[k] = i\n        S[i] = 0\n\n        v = B.dot(B[i])\n        l = 1. / (1 + v[i])\n        B = np.hstack([B - l * np.outer(v, B[i]), l * v.reshape(-1, 1)])\n        F = S * (F - l * v * v)",
  "        v = B.dot(B[i])\n        l = 1. / (1 + v[i])\n        B = np.hstack([B - l * np.outer(v, B[i]), l * v.reshape(-1, 1)])\n        F = S * (F - l * v * v)\n        I[k] = i\n        S[i] = 0")
M('c08-rect-guard', 'C08', 'maxvol.py', "    if r_min < r or r_min > r_max or r_max > n:", "    if r_min < r or r_max > n:")
M('c08-dispatch-clamp', 'C08', 'utils.py', "    dr_max = min(dr_max, n - r)\n    dr_min = min(dr_min, dr_max)\n", "    dr_min = min(dr_min, dr_max)\n")
M('c08-break-guard', 'C08', 'maxvol.py',
  "        if np.abs(B[i, j]) <= e:\n            break\n\n        I[j] = i", "        I[j] = i")

# ------------------------------------------------------------------ C09
M('c09-truncate-no-copy', 'C09', 'transformation.py', "        Z, p = teneva.copy(Y), 0", "        Z, p = Y, 0")
M('c09-mul-no-copy', 'C09', 'act_two.py', "    if teneva._is_num(Y2):\n        Y = teneva.copy(Y1)", "    if teneva._is_num(Y2):\n        Y = list(Y1)")
M('c09-sub-no-copy', 'C09', 'act_two.py', "        Y2 = teneva.copy(Y2)\n        Y2[0] *= -1.", "        Y2 = list(Y2)\n        Y2[0] *= -1.")
M('c09-outer-alias', 'C09', 'act_two.py', "    Y = teneva.copy(Y1)\n    Y.extend(teneva.copy(Y2))", "    Y = teneva.copy(Y1)\n    Y.extend(Y2)")
M('c09-cdf-sort-inplace', 'C09', 'stat.py', "    x = np.array(x, copy=True)\n    x.sort()", "    x = np.asarray(x)\n    x.sort()")
M('c09-optfunc-no-copy', 'C09', 'optima_func.py', "    A = teneva.copy(A)\n    for G in A:\n        G[:, 0, :] *= np.sqrt(2.)", "    for G in A:\n        G[:, 0, :] *= np.sqrt(2.)")
M('c09-als-swap-no-copy', 'C09', 'als.py', "        I_trn = I_trn.copy()\n        rearrange", "        rearrange")
M('c09-full-d-return-view', 'C09', 'act_one.py',
  "    elif isinstance(Y, np.ndarray):\n        return Y.copy()", "    elif isinstance(Y, np.ndarray):\n        return Y")
T('c09-twin-copy-comprehension', 'C09', 'transformation.py',
  "        Z, p = teneva.copy(Y), 0", "        Z, p = [G.copy() for G in Y], 0")
T('c09-twin-mul-expr', 'C09', 'act_two.py',
  "        Y = teneva.copy(Y2)\n        Y[0] *= Y1\n        return Y", "        Y = teneva.copy(Y2)\n        Y[0] = Y[0] * Y1\n        return Y")

# ------------------------------------------------------------------ C10
M('c10-global-choice', ['C10', 'C14'], 'sample.py', "    I = np.vstack([rand.choice(np.arange(k), m) for k in n]).T", "    I = np.vstack([np.random.choice(np.arange(k), m) for k in n]).T")
M('c10-info-not-reset', 'C10', 'als.py', "    info.update({'e': -1, 'e_vld': -1, 'nswp': 0, 'stop': None})", "    info.update({'e': -1, 'e_vld': -1, 'stop': None})\n    info.setdefault('nswp', 0)")
M('c10-seed-not-forwarded', 'C10', 'sample.py', "            lhs_1 = sample_lhs(sh1, r, seed)\n            for n in range(rng):\n                for i in lhs_1:", "            lhs_1 = sample_lhs(sh1, r)\n            for n in range(rng):\n                for i in lhs_1:")
M('c10-empty-conditional', 'C10', 'als.py', "    Q = np.zeros((Q1.shape[0], Q1.shape[1], Q2.shape[1], Q2.shape[2]))", "    Q = np.empty((Q1.shape[0], Q1.shape[1], Q2.shape[1], Q2.shape[2]))")
M('c10-clock-in-result', 'C10', 'utils.py', "    info['t'] = tpc() - t\n", "    info['t'] = tpc() - t\n    if info['t'] > 60.:\n        info['stop'] = info['stop'] or 'nswp'\n")
M('c10-new-rng', 'C10', 'tensors.py', "    rand = teneva._rand(seed)\n\n    def f(size):\n        return rand.normal(m, s, size=size)", "    rand = np.random.default_rng()\n\n    def f(size):\n        return rand.normal(m, s, size=size)")
M('c10-set-iteration', 'C10', 'data.py', "    I_data = np.array([i for i in cache.keys()], dtype=int)", "    I_data = np.array([i for i in set(cache.keys())], dtype=int)")
T('c10-twin-rand-name', 'C10', 'sample.py', "    rand = teneva._rand(seed)\n\n    I = np.vstack([rand.choice(np.arange(k), m) for k in n]).T", "    rng = teneva._rand(seed)\n\n    I = np.vstack([rng.choice(np.arange(k), m) for k in n]).T")

# ------------------------------------------------------------------ C11
M('c11-unguarded-reciprocal', 'C11', 'svd.py',
  "    w_inv = np.divide(1., w, out=np.zeros_like(w), where=w > 0)\n    V = (w_inv[:, np.newaxis] * U.T) @ A if m <= n else U.T",
  "    V = ((1. / w)[:, np.newaxis] * U.T) @ A if m <= n else U.T")
M('c11-const-guard', ['C11', 'C19'], 'tensors.py', "    s = abs(v) / v if abs(v) > 1.E-16 else v\n    v = abs(v)**(1./d) if abs(v) > 1.E-16 else 1.\n    Y = [np.ones", "    s = abs(v) / v\n    v = abs(v)**(1./d)\n    Y = [np.ones")
M('c11-accuracy-sentinel', 'C11', 'act_two.py', "    if np.isinf(c) or np.isinf(z1) or np.isinf(z2) or abs(z2) < 1.E-100:\n        return -1 # TODO: check\n\n", "")
M('c11-orth-left-shape', ['C11', 'C04'], 'transformation.py', "    Z[i] = teneva._reshape(Q, (r1, n1, Q.shape[1]))", "    Z[i] = teneva._reshape(Q, (r1, n1, r2))")
M('c11-truncate-reshape', ['C11', 'C02'], 'transformation.py', "        Z[k] = teneva._reshape(V, (-1, n, r2))", "        Z[k] = teneva._reshape(V, (r1, n, r2))")

# ------------------------------------------------------------------ C12
M('c12-rcond', 'C12', 'func.py', "            cond=rcond)[0]", "            rcond=rcond)[0]")
M('c12-box-one-sided', 'C12', 'func.py', "            if np.max(a - X[i, :]) > 1.E-99 or np.max(X[i, :] - b) > 1.E-99:\n                continue\n\n        Q = np.einsum", "            if np.max(a - X[i, :]) > 1.E-99:\n                continue\n\n        Q = np.einsum")
M('c12-sum-slice', 'C12', 'func.py', "        v = v @ (p[:(nk + 1)//2] @ y[:, ::2])", "        v = v @ (p[:nk//2] @ y[:, ::2])")
M('c12-gets-einsum', 'C12', 'func.py', "        Z.append(np.einsum('riq,ij->rjq', A[k], T))", "        Z.append(np.einsum('riq,ji->rjq', A[k], T))")
M('c12-sumfull-no-reject', 'C12', 'func_full.py', "    for k in range(d):\n        if abs(abs(b[k]) - abs(a[k])) > 1.E-16:\n            raise ValueError('This function works only for symmetric grids')\n", "")
M('c12-diff-inplace-scale', 'C12', 'func.py', "            l = (2. / (b - a))**(i+1)\n            D_list.append(D * l)", "            D *= (2. / (b - a))**(i+1)\n            D_list.append(D)")

# ------------------------------------------------------------------ C13
M('c13-last-core-no-f0', 'C13', 'anova.py', "        core[0, :, 0] = self.f1_arr[self.d-1] + self.f0", "        core[0, :, 0] = self.f1_arr[self.d-1]")
M('c13-middle-slot', 'C13', 'anova.py', "            core[1, :, 1] = 1.\n            core[0, :, 1] = self.f1_arr[i]", "            core[1, :, 1] = 1.\n            core[1, :, 0] = self.f1_arr[i]")
M('c13-build-order', 'C13', 'anova.py', "        self.build_0(I_trn, y_trn)\n\n        if self.order >= 1:\n            self.build_1(I_trn, y_trn)\n        else:\n            self.f1 = []\n", "        if self.order >= 1:\n            self.build_1(I_trn, y_trn)\n        else:\n            self.f1 = []\n\n        self.build_0(I_trn, y_trn)\n")
M('c13-f1-no-f0', 'C13', 'anova.py', "                value = np.mean(y_trn[idx]) - self.f0\n                f1_curr[x] = value", "                value = np.mean(y_trn[idx])\n                f1_curr[x] = value")
M('c13-func-offset', 'C13', 'anova_func.py', "                idx[i] = pi + 1", "                idx[i] = pi")
M('c13-order2-cap', 'C13', 'anova.py', "            cores = teneva.add_many([cores] + cores2_many, r=r)", "            cores = teneva.add_many([cores] + cores2_many)")

# ------------------------------------------------------------------ C14
M('c14-replace-true', 'C14', 'sample.py', "        I2 = rand.choice(k, m-len(I1), replace=False)", "        I2 = rand.choice(k, m-len(I1))")
M('c14-p-not-normalised', 'C14', 'sample.py', "    p = np.maximum(p, 0)\n    p = p / p.sum()\n    ind = rand.choice", "    p = np.maximum(p, 0)\n    ind = rand.choice")
M('c14-square-pivot', 'C14', 'sample.py', "    Z, p = teneva.orthogonalize(Y, 0, use_stab=True)\n\n    G = Z[0]\n    r1, n, r2 = G.shape\n\n    if float_cf", "    Z, p = teneva.orthogonalize(Y, d-1, use_stab=True)\n\n    G = Z[0]\n    r1, n, r2 = G.shape\n\n    if float_cf")
M('c14-size-one-draw', 'C14', 'sample.py', "            i_cur = im[di] = rand.choice(n, p=norms)", "            i_cur = im[di] = rand.choice(n, size=1, p=norms)")
M('c14-einsum-transposed', 'C14', 'sample.py', "        p = np.einsum('ma,aib,b->mi', phi[i-1], Y[i], phi[i+1])", "        p = np.einsum('ma,bia,b->mi', phi[i-1], Y[i], phi[i+1])")
M('c14-clipped-marginal', 'C14', 'sample.py', "        phi[i] = np.sum(Y[i], axis=1) @ phi[i+1]", "        phi[i] = np.maximum(np.sum(Y[i], axis=1) @ phi[i+1], 0)")
T('c14-twin-normalise-expr', 'C14', 'sample.py', "    norms = np.sum(Q**2, axis=1)\n    norms /= norms.sum()\n\n    ind = rand.choice(n, size=m", "    norms = np.sum(Q**2, axis=1)\n    norms = norms / norms.sum()\n\n    ind = rand.choice(n, size=m")

# ------------------------------------------------------------------ C15
M('c15-kron-order', 'C15', 'optima.py', "            I_l = np.kron(I, teneva._ones(n))", "            I_l = np.kron(teneva._ones(n), I)")
M('c15-min-max-swapped', 'C15', 'optima.py', "    if y2 > y1:\n        return i1, y1, i2, y2", "    if y2 > y1:\n        return i2, y2, i1, y1")
M('c15-value-from-z', 'C15', 'optima.py', "    i2, _ = optima_tt_max(Z, k)\n    y2 = teneva.get(Y, i2)", "    i2, y2 = optima_tt_max(Z, k)")
M('c15-pivot-dir', 'C15', 'optima.py', "        Z, p = teneva.orthogonalize(Y, 0 if l2r else len(Y)-1, use_stab=True)", "        Z, p = teneva.orthogonalize(Y, len(Y)-1 if l2r else 0, use_stab=True)")
M('c15-qtt-wrong-q', 'C15', 'optima.py', "    i_max = teneva.ind_qtt_to_tt(i_max, q)", "    i_max = teneva.ind_qtt_to_tt(i_max, q-1)")
M('c15-reshape-order', 'C15', 'optima.py', "            Q = Q.reshape(-1, r2)", "            Q = Q.reshape(-1, r2, order='F')")

# ------------------------------------------------------------------ C17
M('c17-ravel-order', 'C17', 'grid.py', "        I[:, i] = np.ravel_multi_index(I_qtt_curr, n, order='F')", "        I[:, i] = np.ravel_multi_index(I_qtt_curr, n, order='C')")
M('c17-merge-order', 'C17', 'core.py', "        G = np.tensordot(G, Q, 1)\n        G = teneva._reshape(G, (r1, -1, r2))", "        G = np.tensordot(G, Q, 1)\n        G = teneva._reshape(G, (r1, -1, r2), order='C')")
M('c17-pow2-check', 'C17', 'core.py', "    if 2**d != n:\n        raise ValueError('Invalid mode size (it should be a power of two)')\n\n    A = teneva._reshape(G, (-1, r2))", "    A = teneva._reshape(G, (-1, r2))")
M('c17-cap-not-forwarded', 'C17', 'core.py', "        A, V = teneva.matrix_svd(A, e, r)\n        Y.append", "        A, V = teneva.matrix_svd(A, e)\n        Y.append")
M('c17-v0-dropped', 'C17', 'core.py', "    Y[0] = np.einsum('ijk,kl', Y[0], V0)\n", "")
M('c17-block-offset', 'C17', 'grid.py', "        I_qtt[:, q*i:q*(i+1)] = I_qtt_curr", "        I_qtt[:, q*i+1:q*(i+1)+1] = I_qtt_curr")

# ------------------------------------------------------------------ C18
M('c18-uni-n', 'C18', 'grid.py', "        X = I / (n - 1) * (b - a) + a", "        X = I / n * (b - a) + a")
M('c18-cheb-shift', 'C18', 'grid.py', "        X = np.cos(np.pi * I / (n - 1)) * (b - a) / 2 + (b + a) / 2", "        X = np.cos(np.pi * I / (n - 1)) * (b - a) / 2 + (b - a) / 2")
M('c18-clamp-high-missing', 'C18', 'grid.py', "        Xsc[Xsc < -1.] = -1.\n        Xsc[Xsc > +1.] = +1.", "        Xsc[Xsc < -1.] = -1.")
M('c18-clamp-bound', 'C18', 'grid.py', "    I[I > n-1] = n[I > n-1] - 1", "    I[I > n] = n[I > n] - 1")
M('c18-kind-fallthrough', 'C18', 'grid.py', "        X = np.cos(np.pi * I / (n - 1)) * (b - a) / 2 + (b + a) / 2\n    else:\n        raise ValueError(f'Unknown grid type \"{kind}\"')", "        X = np.cos(np.pi * I / (n - 1)) * (b - a) / 2 + (b + a) / 2\n    else:\n        X = I")
M('c18-opts-length', 'C18', 'grid.py', "            elif d != len(item):\n                raise ValueError('Invalid grid option')", "            elif d < len(item):\n                raise ValueError('Invalid grid option')")
M('c18-poi-to-ind-cheb', 'C18', 'grid.py', "        I = np.arccos(Xsc) / np.pi * (n - 1)", "        I = np.arccos(Xsc) / np.pi * n")
T('c18-twin-affine-rewrite', 'C18', 'grid.py', "        X = I / (n - 1) * (b - a) + a", "        X = a + (b - a) * I / (n - 1)")

# ------------------------------------------------------------------ C19
M('c19-delta-sign-core', 'C19', 'tensors.py', "    for k in range(d):\n        Y[k][0, i[k], 0] = v\n    Y[-1] *= s\n    return Y", "    for k in range(d):\n        Y[k][0, i[k], 0] = v * s\n    return Y")
M('c19-poly-last', 'C19', 'tensors.py', "                G[:, m, 0] = np.array([_get(m, j) * scale, scale])", "                G[:, m, 0] = np.array([_get(m, j) * scale, 1.])")
M('c19-poly-middle', 'C19', 'tensors.py', "                    [1., _get(m, j)],\n                    [0., 1.]])", "                    [1., _get(m, j)],\n                    [1., 0.]])")
M('c19-rand-cut', 'C19', 'tensors.py', "        G = cores[ps[i]-1:ps[i+1]-1]", "        G = cores[ps[i]:ps[i+1]-1]")
M('c19-index-range', 'C19', 'utils.py', "    if i >= n or i < -n:", "    if i > n or i < -n:")
M('c19-bits-big-endian', 'C19', 'utils.py', "            ind.append(i % 2)\n            i = int(i / 2)", "            ind.insert(0, i % 2)\n            i = int(i / 2)")
M('c19-vector-delta-all-cores', 'C19', 'vectors.py', "        G[0, ind[k], 0] = 1.\n        Y.append(G)\n    Y[-1][0, ind[-1], 0] = v", "        G[0, ind[k], 0] = v\n        Y.append(G)")
M('c19-const-sign-np', ['C19', 'C01'], 'tensors.py', "    d = len(n)\n    s = abs(v) / v if abs(v) > 1.E-16 else v\n    v = abs(v)**(1./d) if abs(v) > 1.E-16 else 1.\n    Y = [np.ones", "    d = len(n)\n    s = np.sign(v)\n    v = abs(v)**(1./d) if abs(v) > 1.E-16 else 1.\n    Y = [np.ones")
T('c19-twin-threshold-spelling', ['C19', 'C01', 'C11'], 'tensors.py', "    d = len(n)\n    s = abs(v) / v if abs(v) > 1.E-16 else v\n    v = abs(v)**(1./d) if abs(v) > 1.E-16 else 1.\n    Y = [np.ones", "    d = len(n)\n    s = abs(v) / v if abs(v) > 1e-16 else v\n    v = abs(v)**(1./d) if 1e-16 < abs(v) else 1.\n    Y = [np.ones")

# ------------------------------------------------------------------ C20
M('c20-3d-lstsq', 'C20', 'svd.py', "        M = np.array([teneva.get(Y_res[:mode], i, _to_item=False)[0]", "        M = np.array([teneva.get(Y_res[:mode], i, _to_item=False)")
M('c20-mode-from-prev', 'C20', 'svd.py', "        n = shapes[mode]\n", "        n = shapes[mode-1]\n")
M('c20-idx-length', 'C20', 'sample.py', "    I, idx, idx_many = [], [0], []", "    I, idx, idx_many = [], [], []")


# ------------------------------------------------------------------ more twins
T('c18-twin-clip', 'C18', 'grid.py',
  "        Xsc = (X - a) / (b - a)\n        Xsc[Xsc < 0.] = 0.\n        Xsc[Xsc > 1.] = 1.",
  "        Xsc = (X - a) / (b - a)\n        Xsc = np.clip(Xsc, 0., 1.)")
T('c02-twin-tensordot', ['C02', 'C11', 'C16'], 'transformation.py',
  "        Z[k-1] = np.einsum('ijq,ql', Z[k-1], U, optimize=True)", "        Z[k-1] = np.tensordot(Z[k-1], U, 1)")
T('c03-twin-np-reshape', ['C03', 'C11'], 'svd.py',
  "        Z = Z.reshape(q * k, -1)", "        Z = np.reshape(Z, (q * k, -1))")
T('c07-twin-len-lt', 'C07', 'als.py', "        if idx.size == 0:", "        if len(idx) < 1:")
T('c19-twin-last-core', ['C19', 'C01', 'C11'], 'tensors.py',
  "    Y = [np.ones([1, k, 1]) * v for k in n]\n    Y[-1] *= s\n\n    if I_zero", "    Y = [np.ones([1, k, 1]) * v for k in n]\n    Y[d-1] = Y[d-1] * s\n\n    if I_zero")
T('c14-twin-np-sum', 'C14', 'sample.py', "    p = np.maximum(p, 0)\n    p = p / p.sum()\n    ind = rand.choice", "    p = np.maximum(p, 0)\n    p /= np.sum(p)\n    ind = rand.choice")
T('c05-twin-info-order', ['C05', 'C06'], 'cross.py',
  "        info['nswp'] += 1\n        info['r'] = teneva.erank(Y)\n        info['e'] = teneva.accuracy(Y, Yold)\n        info['e_vld'] = teneva.accuracy_on_data(Y, I_vld, y_vld)\n\n        if info['m_cache']",
  "        info['nswp'] += 1\n        info['e'] = teneva.accuracy(Y, Yold)\n        info['e_vld'] = teneva.accuracy_on_data(Y, I_vld, y_vld)\n        info['r'] = teneva.erank(Y)\n\n        if info['m_cache']")
T('c09-twin-astype-copy', 'C09', 'stat.py', "    x = np.array(x, copy=True)\n    x.sort()", "    x = np.sort(np.asarray(x))")
T('c16-twin-exponent-var', ['C16', 'C11'], 'core.py', "    p = int(np.floor(np.log2(v_max)))\n    Q = G / 2.**p\n\n    return Q, p0 + p", "    shift = int(np.floor(np.log2(v_max)))\n    Q = G / 2.**shift\n    p_new = p0 + shift\n\n    return Q, p_new")
T('c04-twin-neg-index', ['C04', 'C11'], 'transformation.py', "    Z[i-1] = teneva._reshape(G1, (r1, n1, G1.shape[1]))", "    Z[i-1] = teneva._reshape(G1, (r1, n1, G1.shape[-1]))")
T('c10-twin-default-none', 'C10', 'data.py', "def cache_to_data(cache={}):", "def cache_to_data(cache=None):\n    cache = {} if cache is None else cache")
T('c13-twin-cores1-order', 'C13', 'anova.py', "            core[0, :, 0] = 1.\n            core[1, :, 1] = 1.\n            core[0, :, 1] = self.f1_arr[i]", "            core[0, :, 1] = self.f1_arr[i]\n            core[0, :, 0] = 1.\n            core[1, :, 1] = 1.")
T('c15-twin-compare-flip', 'C15', 'optima.py', "    if y2 > y1:\n        return i1, y1, i2, y2\n    else:\n        return i2, y2, i1, y1", "    if y1 < y2:\n        return i1, y1, i2, y2\n    else:\n        return i2, y2, i1, y1")
T('c17-twin-shift', 'C17', 'core.py', "    if 2**d != n:", "    if (1 << d) != n:")
T('c12-twin-fill', 'C12', 'func.py', "    y = np.ones(m) * z", "    y = np.full(m, z, dtype=float)")
T('c20-twin-stack', 'C20', 'svd.py', "    Y_res = [Y_curr[None, ...]]", "    Y_res = [Y_curr.reshape(1, Y_curr.shape[0], Y_curr.shape[1])]")
T('c08-twin-ge', 'C08', 'maxvol.py', "    if n <= r:\n        raise ValueError('Input matrix should be \"tall\"')", "    if not n > r:\n        raise ValueError('Input matrix should be \"tall\"')")
T('c01-twin-outer-plus', ['C01', 'C09'], 'act_two.py', "    Y = teneva.copy(Y1)\n    Y.extend(teneva.copy(Y2))\n    return Y", "    return teneva.copy(Y1) + teneva.copy(Y2)")


# ------------------------------------------------------------------ round c rules
M('c03-rel-by-norm', 'C03', 'svd.py', "    ss = s/s[0] if rel else s", "    ss = s/np.linalg.norm(s) if rel else s")
M('c03-rel-by-last', 'C03', 'svd.py', "    ss = s/s[0] if rel else s", "    ss = s/s[-1] if rel else s")
T('c03-twin-rel-if', 'C03', 'svd.py', "    ss = s/s[0] if rel else s", "    ss = s\n    if rel:\n        ss = s / s.max()")
M('c12-basis-le2', 'C12', 'func.py', "    if m < 2:\n        return T\n\n    T[1] = X", "    if m <= 2:\n        return T\n\n    T[1] = X")
T('c12-twin-basis-eq1', 'C12', 'func.py', "    if m < 2:\n        return T\n\n    T[1] = X", "    if m <= 1:\n        return T\n\n    T[1] = X")
M('c13-core-one-tile', 'C13', 'anova.py', "    return np.kron(np.ones([1, n, 1]), np.eye(r)[:, None, :])", "    return np.tile(np.eye(r), (n, 1, 1)).reshape(r, n, r)")
M('c13-core-one-axis', 'C13', 'anova.py', "    return np.kron(np.ones([1, n, 1]), np.eye(r)[:, None, :])", "    return np.kron(np.ones([1, 1, n]), np.eye(r)[:, :, None]).reshape(r, r, n)")
T('c13-twin-core-one-tile', 'C13', 'anova.py', "    return np.kron(np.ones([1, n, 1]), np.eye(r)[:, None, :])", "    return np.tile(np.eye(r)[:, None, :], (1, n, 1))")
T('c13-twin-core-one-repeat', 'C13', 'anova.py', "    return np.kron(np.ones([1, n, 1]), np.eye(r)[:, None, :])", "    return np.repeat(np.identity(r)[:, None, :], n, axis=1)")
M('c14-no-stab', ['C14'], 'sample.py', "    Z, p = teneva.orthogonalize(Y, 0, use_stab=True)", "    Z = teneva.orthogonalize(Y, 0)")
M('c14-stab-false', ['C14'], 'sample.py', "    Z, p = teneva.orthogonalize(Y, 0, use_stab=True)", "    Z, p = teneva.orthogonalize(Y, 0, use_stab=False), 0")
T('c14-twin-stab-positional', 'C14', 'sample.py', "    Z, p = teneva.orthogonalize(Y, 0, use_stab=True)", "    Z, _p = teneva.orthogonalize(Y, 0, True)")
M('c17-split-skeleton', 'C17', 'core.py', "        A, V = teneva.matrix_svd(A, e, r)\n        Y.append", "        A, V = teneva.matrix_skeleton(A, e, r)\n        Y.append")
M('c18-flat-c-order', 'C18', 'grid.py', "    I = np.array(I, dtype=int).reshape((d, -1), order='F').T", "    I = np.array(I, dtype=int).reshape((d, -1)).T")
M('c02-thr-true-scale', 'C02', 'transformation.py', "            e = e / np.sqrt(d-1) * np.linalg.norm(Z[-1]) # TODO!", "            e = e / np.sqrt(d-1) * np.linalg.norm(Z[-1]) * 2.**p")
M('c11-stab-norm-sqrt', 'C11', 'act_one.py', "        return np.sqrt(v) if v > 0 else 0., p/2", "        return np.sqrt(v), p/2")
T('c11-twin-norm-max', 'C11', 'act_one.py', "        return np.sqrt(v) if v > 0 else 0., p/2", "        return np.sqrt(max(v, 0.)), p/2")
M('c09-poi-to-ind-inplace', 'C09', 'grid.py', "    n = grid_prep_opt(n, d, kind=int, reps=m)\n\n    if kind == 'uni':\n        I = Xsc * (n - 1)", "    n = grid_prep_opt(n, d, kind=int, reps=m)\n    n -= 1\n\n    if kind == 'uni':\n        I = Xsc * n")
M('c01-interface-natural-stale-n', 'C01', 'act_one.py', None, None,
  edits=[("    d = len(Y)\n    phi = [None] * (d+1)\n    phi[-1] = np.ones(1)\n\n    if ltr:", "    d, n_ = len(Y), teneva.shape(Y)\n    phi = [None] * (d+1)\n    phi[-1] = np.ones(1)\n\n    if ltr:"),
         ("                phi[k] /= Y[k].shape[1]", "                phi[k] /= n_[k]")])
M('c01-mean-wrong-size', 'C01', 'act_one.py', "        k = Y[i].shape[1]\n        if P is None:\n            p = np.ones(k) / k if norm else np.ones(k)", "        k = Y[i].shape[1]\n        if P is None:\n            p = np.ones(k) / Y[0].shape[1] if norm else np.ones(k)")
M('c01-sum-normed', 'C01', 'act_one.py', "    return mean(Y, norm=False)", "    return mean(Y)")
T('c01-twin-mean-mult', 'C01', 'act_one.py', "            p = np.ones(k) / k if norm else np.ones(k)", "            p = np.ones(k)\n            if norm:\n                p = p / k")
T('c01-twin-interface-size', 'C01', 'act_one.py', "                phi[k] /= Y[k].shape[1]", "                phi[k] = phi[k] / len(Y[k][0])")


# ------------------------------------------------------------------ round d rules
M('c04-shallow-copy-overwrite', ['C09'], 'transformation.py', None, None,
  edits=[("    Z = teneva.copy(Y)\n    p = 0\n", "    Z = list(Y)\n    p = 0\n"),
         ("    R, Q = sp.linalg.rq(G2, mode='economic', check_finite=False)", "    R, Q = sp.linalg.rq(G2, mode='economic', check_finite=False,\n        overwrite_a=True)")])
T('c04-twin-overwrite-fresh', ['C09', 'C04'], 'transformation.py',
  "    R, Q = sp.linalg.rq(G2, mode='economic', check_finite=False)", "    R, Q = sp.linalg.rq(np.array(G2), mode='economic', check_finite=False,\n        overwrite_a=True)")
M('c05-nswp-truthy', ['C05', 'C06'], 'utils.py', "    if info['stop'] is None:\n        if nswp is not None:\n            if info['nswp'] >= nswp:", "    if info['stop'] is None:\n        if nswp:\n            if info['nswp'] >= nswp:")
T('c05-twin-nswp-flat', ['C05', 'C06', 'C07'], 'utils.py', "    if info['stop'] is None:\n        if nswp is not None:\n            if info['nswp'] >= nswp:\n                info['stop'] = 'nswp'", "    if info['stop'] is None and nswp is not None and info['nswp'] >= nswp:\n        info['stop'] = 'nswp'")
M('c11-mask-size-empty', ['C11', 'C13'], 'anova.py', "                        if idx.sum() == 0:", "                        if idx.size == 0:")
T('c13-twin-mask-any', ['C11', 'C13'], 'anova.py', "                        if idx.sum() == 0:\n                            value = 0.\n                        else:\n                            value = np.mean(y_trn[idx]) - self.f0\n                            value = value - self.f1[k1][x1] - self.f1[k2][x2]", "                        if idx.any():\n                            value = np.mean(y_trn[idx]) - self.f0\n                            value -= self.f1[k1][x1] + self.f1[k2][x2]\n                        else:\n                            value = 0.")
M('c13-pair-term-dedent', 'C13', 'anova.py', "                            value = np.mean(y_trn[idx]) - self.f0\n                            value = value - self.f1[k1][x1] - self.f1[k2][x2]", "                            value = np.mean(y_trn[idx]) - self.f0\n                        value = value - self.f1[k1][x1] - self.f1[k2][x2]")
M('c13-pair-term-sign', 'C13', 'anova.py', "                            value = value - self.f1[k1][x1] - self.f1[k2][x2]", "                            value = value - self.f1[k1][x1] + self.f1[k2][x2]")
M('c12-full-int-fill', 'C12', 'func.py', "    y = np.ones(m) * z", "    y = np.full(m, z)")
M('c19-shift-int-kind', 'C19', 'tensors.py', "    shift = teneva.grid_prep_opt(shift, d)", "    shift = teneva.grid_prep_opt(shift, d, kind=int)")
M('c20-rank-two-step', ['C20', 'C03'], 'svd.py', "    r = max(1, min(int(r), len(s) - dlen))", "    r = min(int(r), len(s))\n    r = max(1, r - dlen)")
T('c20-twin-rank-two-step', ['C20', 'C03', 'C02', 'C11'], 'svd.py', "    r = max(1, min(int(r), len(s) - dlen))", "    r = min(int(r), len(s) - dlen)\n    r = max(1, r)")
M('c18-cdf-unique', 'C18', 'stat.py', "    x = np.array(x, copy=True)\n    x.sort()", "    x = np.unique(x)")
M('c17-batch-of-one', 'C17', 'grid.py', "    return I_qtt if is_many else I_qtt[0, :]", "    return I_qtt if m > 1 else I_qtt[0, :]")
M('c15-select-if-pruned', 'C15', 'optima.py', "        ind = np.argsort(norms)[:-(k+1):-1]\n\n        I = I[ind, :]\n        Q = Q[ind, :] if l2r else Q[:, ind]", "        if norms.size > k:\n            ind = np.argsort(norms)[:-(k+1):-1]\n\n            I = I[ind, :]\n            Q = Q[ind, :] if l2r else Q[:, ind]")
M('c14-unique-restack', 'C14', 'sample.py', "            return sample_square(Y, m, True, seed, 2*m_fact, max_rep-1,\n                float_cf=float_cf)", "            I_add = sample_square(Y, m - I.shape[0], True, rand, 2*m_fact,\n                max_rep-1, float_cf=float_cf)\n            I = np.vstack([I, I_add])")
T('c14-twin-unique-restack-dedup', 'C14', 'sample.py', "            return sample_square(Y, m, True, seed, 2*m_fact, max_rep-1,\n                float_cf=float_cf)", "            I_add = sample_square(Y, m, True, rand, 2*m_fact,\n                max_rep-1, float_cf=float_cf)\n            I = np.unique(np.vstack([I, I_add]), axis=0)")
M('c02-tail-by-difference', ['C02'], 'svd.py', "    where = np.where(np.cumsum(ss[::-1]**2) <= e**2)[0]\n    dlen = 0 if len(where) == 0 else int(1 + where[-1])\n    r = max(1, min(int(r), len(s) - dlen))", "    energy = np.cumsum(ss**2)\n    dlen = int(np.count_nonzero(energy[-1] - energy[:-1] <= e**2))\n    r = max(1, min(int(r), len(s) - dlen))")
M('c15-value-kwargs-derived', 'C15', 'optima.py', "    y2 = teneva.get(Y, i2)", "    y2 = teneva.get(Z, i=i2)")
T('c15-twin-value-kwargs', 'C15', 'optima.py', "    y2 = teneva.get(Y, i2)", "    y2 = teneva.get(Y, i=i2)")


# ------------------------------------------------------------------ round e rules
M('c13-relnoise-truthy', 'C13', 'anova.py', "        if rel_noise is not None:", "        if rel_noise:")
T('c13-twin-relnoise-none', 'C13', 'anova.py', "        if rel_noise is not None:\n            noise = rel_noise * max(abs(self.y_max), abs(self.y_min))", "        if rel_noise is None:\n            pass\n        else:\n            noise = max(abs(self.y_max), abs(self.y_min)) * rel_noise")
M('c01-mean-intprod', 'C01', 'act_one.py', None, None,
  edits=[("            p = np.ones(k) / k if norm else np.ones(k)", "            p = np.ones(k)"),
         ("    return Z[0, 0]\n\n\ndef norm", "    return Z[0, 0] / np.prod(teneva.shape(Y)) if (norm and P is None) else Z[0, 0]\n\n\ndef norm")])
M('c03-sqrt-before-clamp', ['C03', 'C02', 'C11'], 'svd.py', "    w[w < 0] = 0.\n    w = np.sqrt(w)", "    w = np.sqrt(w)\n    w[w < 0] = 0.")
T('c03-twin-clamp-flip', ['C03', 'C02', 'C11'], 'svd.py', "    w[w < 0] = 0.\n    w = np.sqrt(w)", "    w[0. > w] = 0.\n    w = np.sqrt(w)")
M('c06-count-inside-if', ['C06', 'C05'], 'cross.py', "            cache[tuple(i)] = float(y_new[k])\n\n    info['m'] += len(I_new)\n    info['m_cache'] += len(I) - len(I_new)\n", "            cache[tuple(i)] = float(y_new[k])\n        info['m'] += len(I_new)\n        info['m_cache'] += len(I) - len(I_new)\n")
M('c10-empty-like-ifexp', 'C10', 'als.py', "def _optimize_core(Q, i, y_trn, Yl, Yr, lamb, w, update_sol=None):\n    Q = Q.copy()", "def _optimize_core(Q, i, y_trn, Yl, Yr, lamb, w, update_sol=None):\n    Q = Q.copy() if update_sol is not None else np.empty_like(Q)")
M('c15-cheb-t0-early', 'C15', 'optima_func.py', "    res = np.ones([X.shape[0], n])\n    if n > 1:", "    res = np.ones([X.shape[0], n])\n    res[:, 0] = np.sqrt(0.5)\n    if n > 1:")
M('c12-basis-recurrence-sign', 'C12', 'func.py', "        T[k] = 2. * X * T[k - 1] - T[k - 2]", "        T[k] = 2. * X * T[k - 1] + T[k - 2]")
T('c12-twin-basis-recurrence', 'C12', 'func.py', "        T[k] = 2. * X * T[k - 1] - T[k - 2]", "        T[k] = -T[k - 2] + T[k - 1] * X * 2")
M('c19-delta-onehot', 'C19', 'tensors.py', "    Y = [np.zeros([1, k, 1]) for k in n]\n    for k in range(d):\n        Y[k][0, i[k], 0] = v\n", "    Y = [v * (np.arange(k) == j).reshape(1, -1, 1) for k, j in zip(n, i)]\n")
M('c02-skip-rank1-bond', 'C02', 'transformation.py', "        r1, n, r2 = Z[k].shape\n        G = teneva._reshape(Z[k], (r1, n * r2))\n        if is_eigh:", "        r1, n, r2 = Z[k].shape\n        if r1 == 1:\n            continue\n        G = teneva._reshape(Z[k], (r1, n * r2))\n        if is_eigh:")
M('c07-skip-refresh', 'C07', 'als.py', "                Y[k] = _optimize_core(Y[k], i, y_trn, Yl[k], Yr[k],\n                    lamb=lamb, w=w, update_sol=update_sol)\n                contract('jk,kjl->jl', Yl[k], Y[k][:, i, :], out=Yl[k+1])", "                Q = _optimize_core(Y[k], i, y_trn, Yl[k], Yr[k],\n                    lamb=lamb, w=w, update_sol=update_sol)\n                if np.array_equal(Q, Y[k]):\n                    continue\n                Y[k] = Q\n                contract('jk,kjl->jl', Yl[k], Y[k][:, i, :], out=Yl[k+1])")
T('c07-twin-refresh-tmp', 'C07', 'als.py', "                Y[k] = _optimize_core(Y[k], i, y_trn, Yl[k], Yr[k],\n                    lamb=lamb, w=w, update_sol=update_sol)\n                contract('jk,kjl->jl', Yl[k], Y[k][:, i, :], out=Yl[k+1])", "                Q = _optimize_core(Y[k], i, y_trn, Yl[k], Yr[k],\n                    lamb=lamb, w=w, update_sol=update_sol)\n                Y[k] = Q\n                contract('jk,kjl->jl', Yl[k], Q[:, i, :], out=Yl[k+1])")
M('c17-packbits', 'C17', 'grid.py', "        I_qtt_curr = I_qtt[:, q*i:q*(i+1)].T\n        I[:, i] = np.ravel_multi_index(I_qtt_curr, n, order='F')", "        I_qtt_curr = I_qtt[:, q*i:q*(i+1)]\n        I[:, i] = np.packbits(I_qtt_curr, axis=1, bitorder='little')[:, 0]")
M('c20-cap-intprod', 'C20', 'svd.py', "        r1 = r if mode < d-1 else 1", "        r1 = min(r, np.prod(shapes[mode+1:]))")
T('c19-twin-delta-onehot-mod', 'C19', 'tensors.py', "    Y = [np.zeros([1, k, 1]) for k in n]\n    for k in range(d):\n        Y[k][0, i[k], 0] = v\n", "    Y = [v * (np.arange(k) == j % k).reshape(1, -1, 1) for k, j in zip(n, i)]\n")
T('c03-twin-sqrt-maximum', ['C03', 'C02', 'C11'], 'svd.py', "    w[w < 0] = 0.\n    w = np.sqrt(w)", "    w = np.sqrt(np.maximum(w, 0.))")
T('c01-twin-mean-floatprod', 'C01', 'act_one.py', None, None,
  edits=[("            p = np.ones(k) / k if norm else np.ones(k)", "            p = np.ones(k)"),
         ("    return Z[0, 0]\n\n\ndef norm", "    return Z[0, 0] / np.prod(np.asarray(teneva.shape(Y), dtype=float)) if (norm and P is None) else Z[0, 0]\n\n\ndef norm")])


# ------------------------------------------------------------------ round f rules
M('c02-cap-npint-dropped', 'C02', 'transformation.py', "    d = len(Y)\n\n    if orth:\n        if use_stab:", "    d = len(Y)\n    r = r if teneva._is_num(r) else 1.E+12\n\n    if orth:\n        if use_stab:")
T('c02-twin-cap-int', 'C02', 'transformation.py', "    d = len(Y)\n\n    if orth:\n        if use_stab:", "    d = len(Y)\n    r = int(r)\n\n    if orth:\n        if use_stab:")
M('c12-sum-scalar-bounds', 'C12', 'func.py', None, None,
  edits=[("    a, b, n = teneva.grid_prep_opts(a, b, n, d)\n\n    if kind == 'cheb':\n        p = 2. / (1 - np.arange(0, n_max, 2)**2)", "    h = (np.asanyarray(b, dtype=float) - np.asanyarray(a, dtype=float)) / 2.\n\n    if kind == 'cheb':\n        p = 2. / (1 - np.arange(0, n_max, 2)**2)"),
         ("    for ak, bk, y, nk in zip(a, b, A, n):\n        v = v @ (p[:(nk + 1)//2] @ y[:, ::2])\n        v *= (bk - ak) / 2.\n\n    return v.item()", "    for y, nk in zip(A, n):\n        v = v @ (p[:(nk + 1)//2] @ y[:, ::2])\n\n    return v.item() * np.prod(h)")])
M('c16-mulscalar-skip-first', 'C16', 'act_two.py', "        if use_stab:\n            v, p = teneva.core_stab(v, p)", "        if use_stab and i > 0:\n            v, p = teneva.core_stab(v, p)")
M('c18-gridflat-lru', ['C18', 'C09'], 'grid.py', None, None,
  edits=[("import itertools\nimport numpy as np\n", "import functools\nimport itertools\nimport numpy as np\n"),
         ("        return np.arange(int(n))\n\n    d = len(n)\n    I = [np.arange(k).reshape(1, -1) for k in n]", "        return np.arange(int(n))\n\n    return _grid_flat(tuple(n))\n\n\n@functools.lru_cache(maxsize=64)\ndef _grid_flat(n):\n    d = len(n)\n    I = [np.arange(k).reshape(1, -1) for k in n]")])
M('c01-add-int-prealloc', ['C01', 'C15'], 'act_two.py', "            Z1 = np.zeros([r1_l, k, r2_r])\n            Z2 = np.zeros([r2_l, k, r1_r])\n            L1 = np.concatenate([G1, Z1], axis=2)\n            L2 = np.concatenate([Z2, G2], axis=2)\n            G = np.concatenate([L1, L2], axis=0)", "            G = np.zeros_like(G1, shape=[r1_l + r2_l, k, r1_r + r2_r])\n            G[:r1_l, :, :r1_r] = G1\n            G[r1_l:, :, r1_r:] = G2")
T('c01-twin-add-float-prealloc', ['C01', 'C15', 'C11'], 'act_two.py', "            Z1 = np.zeros([r1_l, k, r2_r])\n            Z2 = np.zeros([r2_l, k, r1_r])\n            L1 = np.concatenate([G1, Z1], axis=2)\n            L2 = np.concatenate([Z2, G2], axis=2)\n            G = np.concatenate([L1, L2], axis=0)", "            G = np.zeros([r1_l + r2_l, k, r1_r + r2_r])\n            G[:r1_l, :, :r1_r] = G1\n            G[r1_l:, :, r1_r:] = G2")


# ------------------------------------------------------------------ structural twins (anchor moved / re-shaped)
T('c02-twin-while-sweep', ['C02', 'C11', 'C16'], 'transformation.py', "    for k in range(d-1, 0, -1):\n        r1, n, r2 = Z[k].shape\n        G = teneva._reshape(Z[k], (r1, n * r2))", "    k = d\n    while k > 1:\n        k -= 1\n        r1, n, r2 = Z[k].shape\n        G = teneva._reshape(Z[k], (r1, n * r2))")
T('c07-twin-giveto-var', 'C07', 'als.py', "    Qs = Q.reshape(np.prod(Q.shape[:2]), -1)\n    V1, V2 = teneva.matrix_skeleton(Qs, e, r,\n        rel=True, give_to='r' if ltr else 'l')", "    Qs = Q.reshape(np.prod(Q.shape[:2]), -1)\n    side = 'l' if not ltr else 'r'\n    V1, V2 = teneva.matrix_skeleton(Qs, e, r,\n        rel=True, give_to=side)")
T('c07-twin-slice-check-helper', 'C07', 'als.py', None, None,
  edits=[("    if not allow_skip_cores:\n        for k in range(d):\n            if np.unique(I_trn[:, k]).size != Y[k].shape[1]:\n                msg = 'One groundtruth sample is needed for every slice'\n                raise ValueError(msg)\n", "    if not allow_skip_cores:\n        _check_slices(I_trn, Y)\n"),
         ("def _lstsq(A, y, lamb=1e-2, w=None, *, overwrite_a=True, update_sol=None):", "def _check_slices(I_trn, Y):\n    for k in range(len(Y)):\n        if np.unique(I_trn[:, k]).size != Y[k].shape[1]:\n            msg = 'One groundtruth sample is needed for every slice'\n            raise ValueError(msg)\n\n\ndef _lstsq(A, y, lamb=1e-2, w=None, *, overwrite_a=True, update_sol=None):")])
T('c13-twin-addmany-positional', 'C13', 'anova.py', "            cores = teneva.add_many([cores] + cores2_many, r=r)", "            cores = teneva.add_many([cores] + cores2_many, 1.E-10, r)")


# ------------------------------------------------------------------ round h rules
M('c02-abs-threshold-gram', ['C02', 'C03'], 'svd.py', "    w, U = np.linalg.eigh(C)\n", "    if np.linalg.norm(C) < 1.E-14:\n        return np.zeros([m, 1]), np.zeros([1, n])\n\n    w, U = np.linalg.eigh(C)\n")
T('c02-twin-zero-gram-shortcut', ['C03', 'C11'], 'svd.py', "    w, U = np.linalg.eigh(C)\n", "    if not np.any(C):\n        return np.zeros([m, 1]), np.zeros([1, n])\n\n    w, U = np.linalg.eigh(C)\n")
M('c03-svd-e-split', 'C03', 'svd.py', "    Z = Y_full.copy()\n", "    e = e / np.sqrt(max(len(n) - 1, 1))\n    Z = Y_full.copy()\n")
M('c05-oracle-kind-passthrough', 'C05', 'cross.py', "        info['m'] += len(I)\n        return np.array(y, dtype=float)", "        info['m'] += len(I)\n        return np.asarray(y)")
T('c05-twin-oracle-asarray-float', ['C05', 'C06'], 'cross.py', "        info['m'] += len(I)\n        return np.array(y, dtype=float)", "        info['m'] += len(I)\n        return np.asarray(y, dtype=float).copy()")
M('c06-zero-criteria-unset', 'C06', 'cross.py', "    if m is None and e is None and nswp is None:", "    if not (m or e or nswp):")
M('c07-als-orth-const-rank', 'C07', 'als.py', "    Y = teneva.copy(Y0)\n    if r is not None:\n        Y = teneva.orthogonalize(Y, 0, use_stab)", "    Y = teneva.orthogonalize(Y0, 0, use_stab and r is not None)")
M('c14-square-skip-unit-mode', 'C14', 'sample.py', "        Qtens = np.einsum('kr,riq->kiq', Q, G, optimize='optimal')", "        if n == 1:\n            I[:, di] = 0\n            continue\n\n        Qtens = np.einsum('kr,riq->kiq', Q, G, optimize='optimal')")
T('c14-twin-square-unit-mode-contracted', 'C14', 'sample.py', "        Qtens = np.einsum('kr,riq->kiq', Q, G, optimize='optimal')", "        if n == 1:\n            I[:, di] = 0\n            Q = Q @ G[:, 0, :]\n            continue\n\n        Qtens = np.einsum('kr,riq->kiq', Q, G, optimize='optimal')")
M('c17-split-c-order', 'C17', 'core.py', "    A = teneva._reshape(G, (-1, r2))\n    A, V0 = teneva.matrix_svd(A, e, r)", "    A = G.reshape(-1, r2)\n    A, V0 = teneva.matrix_svd(A, e, r)")
T('c17-twin-split-f-order-method', ['C17', 'C11'], 'core.py', "    A = teneva._reshape(G, (-1, r2))\n    A, V0 = teneva.matrix_svd(A, e, r)", "    A = G.reshape((-1, r2), order='F')\n    A, V0 = teneva.matrix_svd(A, e, r)")
M('c18-prep-opts-explicit-d', 'C18', 'grid.py', "            if d is None:\n                d = len(item)\n            elif d != len(item):\n                raise ValueError('Invalid grid option')", "            if d is None:\n                d = len(item)")
M('c19-delta-sign', ['C19', 'C01'], 'tensors.py', "    d = len(n)\n    s = abs(v) / v if abs(v) > 1.E-16 else v\n    v = abs(v)**(1./d) if abs(v) > 1.E-16 else 1.\n    Y = [np.zeros([1, k, 1]) for k in n]", "    d = len(n)\n    s = np.sign(v)\n    v = abs(v)**(1./d) if abs(v) > 1.E-16 else 1.\n    Y = [np.zeros([1, k, 1]) for k in n]")
M('c19-rand-rank-clamped', 'C19', 'tensors.py', "    r = np.asanyarray(r, dtype=int)\n\n    ps = np.cumsum", "    r = np.asanyarray(r, dtype=int)\n    for k in range(1, d):\n        r[k] = min(r[k], r[k-1] * n[k-1])\n\n    ps = np.cumsum")


# ------------------------------------------------------------------ round i rules (contract side)
M('c03-svd-flatten-memory-order', 'C03', 'svd.py', "    Z = Y_full.copy()\n    Y = []", "    Z = Y_full.flatten(order='K')\n    Y = []")
T('c03-twin-svd-flatten-c-order', 'C03', 'svd.py', "    Z = Y_full.copy()\n    Y = []", "    Z = Y_full.flatten(order='C')\n    Y = []")
M('c04-pivot-isinstance-int', 'C04', 'transformation.py', "    if k is None or k < 0 or k > d-1:", "    if not isinstance(k, int) or k < 0 or k > d-1:")
M('c05-stop-guard-uncached-only', 'C05', 'cross.py', "    if cache is None:\n        if info['m_max'] is not None and info['m'] + len(I) > info['m_max']:", "    if cache is None:\n        if info['stop']:\n            return\n        if info['m_max'] is not None and info['m'] + len(I) > info['m_max']:")
T('c05-twin-stop-guard-both-paths', 'C05', 'cross.py', None, None,
  edits=[("    if cache is None:\n        if info['m_max'] is not None and info['m'] + len(I) > info['m_max']:", "    if info['stop']:\n        return\n\n    if cache is None:\n        if info['m_max'] is not None and info['m'] + len(I) > info['m_max']:")])
M('c08-lu-pivot-absolute', 'C08', 'maxvol.py', "    P, L, U = lu(A, check_finite=False)\n", "    P, L, U = lu(A, check_finite=False)\n    if np.abs(np.diag(U)).min() < 1.E-12:\n        raise ValueError('Input matrix should have full column rank')\n")
M('c09-truncate-e-inplace', 'C09', 'transformation.py', "            e = e / np.sqrt(d-1) * np.linalg.norm(Z[-1])\n    else:", "            e *= np.linalg.norm(Z[-1]) / np.sqrt(d-1)\n    else:")
M('c11-accuracy-on-data-sentinel', 'C11', 'data.py', "    if I_data is None or y_data is None:", "    if I_data is None or len(I_data) == 0:")
M('c12-func-int-overwrite-x', 'C09', 'func.py', "            A[k] = dct(y, 1, axis=1) / (y.shape[1] - 1)", "            A[k] = dct(y, 1, axis=1, overwrite_x=True) / (y.shape[1] - 1)")
M('c17-merge-no-copy', 'C17', 'core.py', "    G = Q_list[0].copy()", "    G = Q_list[0]")
M('c18-prep-opt-reps-one', 'C18', 'grid.py', "    if reps is not None:", "    if reps is not None and reps > 1:")
M('c20-sample-tt-truth-of-slice', ['C20', 'C14'], 'sample.py', "        if len(sh2) == 0:", "        if not sh2:")
T('c20-twin-sample-tt-size-test', ['C20', 'C14'], 'sample.py', "        if len(sh2) == 0:", "        if np.size(sh2) == 0:")


# ------------------------------------------------------------------ round j rules (history / rare branch)
M('c01-grad-module-buffer', ['C09', 'C10'], 'act_one.py', None, None,
  edits=[("def get_and_grad(Y, i, check_phi=False):", "_GRAD_BUF = {}\n\n\ndef get_and_grad(Y, i, check_phi=False):"),
         ("    grad = [np.zeros(G.shape) for G in Y]", "    key = tuple(G.shape for G in Y)\n    if key not in _GRAD_BUF:\n        _GRAD_BUF[key] = [np.zeros(G.shape) for G in Y]\n    grad = _GRAD_BUF[key]")])
M('c19-poly-memo-underkeyed', ['C09', 'C10'], 'tensors.py', None, None,
  edits=[("    def _get(m, j):\n        return (m + shift[j])**power", "    terms = {}\n\n    def _get(m, j):\n        if n[j] not in terms:\n            terms[n[j]] = (np.arange(n[j]) + shift[j])**power\n        return terms[n[j]][m]")])
M('c04-skip-rank-one', 'C04', 'transformation.py', "    r1, n1, r2 = Z[i].shape\n    G1 = teneva._reshape(Z[i], (r1 * n1, r2))\n    Q, R = np.linalg.qr(G1, mode='reduced')", "    r1, n1, r2 = Z[i].shape\n    if r2 == 1:\n        return Z\n    G1 = teneva._reshape(Z[i], (r1 * n1, r2))\n    Q, R = np.linalg.qr(G1, mode='reduced')")
M('c08-swap-loop-extra-exit', 'C08', 'maxvol.py', "        if np.abs(B[i, j]) <= e:\n            break\n\n        I[j] = i", "        if np.abs(B[i, j]) <= e or i in I[:j]:\n            break\n\n        I[j] = i")
T('c08-twin-swap-loop-flipped-test', 'C08', 'maxvol.py', "        if np.abs(B[i, j]) <= e:\n            break\n\n        I[j] = i", "        if not e < np.abs(B[i, j]):\n            break\n\n        I[j] = i")
M('c20-cap-clobbered', 'C20', 'svd.py', None, None,
  edits=[("        r1 = r if mode < d-1 else 1", "        r = r if mode < d-1 else 1"),
         ("        if Y_curr.shape[1] > r1:\n            Y_curr, _ = matrix_skeleton(Y_curr, e, r1)\n        r1 = Y_curr.shape[1]\n\n        G = np.empty([r0, n, r1])", "        if Y_curr.shape[1] > r:\n            Y_curr, _ = matrix_skeleton(Y_curr, e, r)\n        r = Y_curr.shape[1]\n\n        G = np.empty([r0, n, r])")])
T('c19-twin-poly-memo-full-key', ['C09', 'C10', 'C19'], 'tensors.py', None, None,
  edits=[("    def _get(m, j):\n        return (m + shift[j])**power", "    terms = {}\n\n    def _get(m, j):\n        key = (n[j], shift[j])\n        if key not in terms:\n            terms[key] = (np.arange(n[j]) + shift[j])**power\n        return terms[key][m]")])


# ------------------------------------------------------------------ round k rules (pure value changes)
M('c01-mul-pair-order', 'C01', 'act_two.py', "        G = G1[:, None, :, :, None] * G2[None, :, :, None, :]\n        G = G.reshape([G1.shape[0]*G2.shape[0], -1, G1.shape[-1]*G2.shape[-1]])\n        Y.append(G)", "        G = G1[:, None, :, None, :] * G2[None, :, :, :, None]\n        G = G.reshape([G1.shape[0]*G2.shape[0], -1, G1.shape[-1]*G2.shape[-1]])\n        Y.append(G)")
M('c01-mulscalar-pair-order', ['C01', 'C16'], 'act_two.py', "        G = G1[:, None, :, :, None] * G2[None, :, :, None, :]\n        G = G.reshape([G1.shape[0]*G2.shape[0], -1, G1.shape[-1]*G2.shape[-1]])\n        G = np.sum(G, axis=1)", "        G = G1[:, None, :, None, :] * G2[None, :, :, :, None]\n        G = G.reshape([G1.shape[0]*G2.shape[0], -1, G1.shape[-1]*G2.shape[-1]])\n        G = np.sum(G, axis=1)")
T('c01-twin-mul-both-swapped', ['C01', 'C16'], 'act_two.py', None, None,
  edits=[("        G = G1[:, None, :, :, None] * G2[None, :, :, None, :]\n        G = G.reshape([G1.shape[0]*G2.shape[0], -1, G1.shape[-1]*G2.shape[-1]])", "        G = G1[None, :, :, None, :] * G2[:, None, :, :, None]\n        G = G.reshape([G1.shape[0]*G2.shape[0], -1, G1.shape[-1]*G2.shape[-1]])")])
M('c03-interleave-swapped', 'C03', 'svd.py', "np.hstack((ind1, ind2))", "np.hstack((ind2, ind1))")
M('c05-accuracy-order', 'C05', 'cross.py', "                Y[i] = np.tensordot(R, Y[i], 1)\n                info['r'] = teneva.erank(Y)\n                info['e'] = teneva.accuracy(Y, Yold)", "                Y[i] = np.tensordot(R, Y[i], 1)\n                info['r'] = teneva.erank(Y)\n                info['e'] = teneva.accuracy(Yold, Y)")
M('c07-alsfunc-crossed-thresholds', 'C07', 'als_func.py', "_info_appr(info, _time, nswp, e, e_vld, log)", "_info_appr(info, _time, nswp, e_vld, e, log)")
M('c08-mask-init-padded', 'C08', 'maxvol.py', "    S[I0] = 0", "    S[I] = 0")
M('c11-show-left-boundary', 'C11', 'vis.py', "    if r[-1] != 1:", "    if r[0] != 1:")
M('c12-gets-old-grid-nodes', 'C12', 'func.py', "ind_to_poi(I, -1., +1., m[k], 'cheb')", "ind_to_poi(I, -1., +1., n[k], 'cheb')")
M('c18-cdf-left-side', 'C18', 'stat.py', "np.searchsorted(x, z, 'right')", "np.searchsorted(x, z, 'left')")
T('c18-twin-cdf-side-keyword', 'C18', 'stat.py', "np.searchsorted(x, z, 'right')", "np.searchsorted(x, z, side='right')")
M('c19-matrix-delta-transposed-slot', 'C19', 'matrices.py', "    Y[-1][0, ind_col[-1], ind_row[-1], 0] = v", "    Y[-1][0, ind_row[-1], ind_col[-1], 0] = v")
M('c20-skeleton-args-swapped', 'C20', 'svd.py', "            Y_curr, _ = matrix_skeleton(Y_curr, e, r1)", "            Y_curr, _ = matrix_skeleton(Y_curr, r1, e)")
# P-endpoints (C15): the end point appended is the one whose absence was tested
M('c15-endpoint-wrong-end', 'C15', 'optima_func.py', "    if clip[1] < +np.inf and clip[1] not in x0:\n        x0.append(clip[1])", "    if clip[1] < +np.inf and clip[1] not in x0:\n        x0.append(clip[0])")
T('c15-twin-endpoint-tmp', 'C15', 'optima_func.py', "    if clip[1] < +np.inf and clip[1] not in x0:\n        x0.append(clip[1])", "    hi_end = clip[1]\n    if hi_end < +np.inf and hi_end not in x0:\n        x0.append(hi_end)")
# P-pow2 (C17): the power-of-two test is an inequality, not a one-sided comparison
M('c17-pow2-one-sided-grid', 'C17', 'grid.py', "    if 2**q != n:\n        raise ValueError('Invalid mode size (it should be a power of two)')", "    if 2**q < n:\n        raise ValueError('Invalid mode size (it should be a power of two)')")
M('c17-pow2-one-sided-core', 'C17', 'core.py', "    if 2**d != n:", "    if n > 2**d:")
T('c17-twin-pow2-sides-swapped', 'C17', 'grid.py', "    if 2**q != n:\n        raise ValueError('Invalid mode size (it should be a power of two)')", "    if n != 2**q:\n        raise ValueError('Invalid mode size (it should be a power of two)')")
# P-marginal (C14): the marginal vectors of sample() are sums over the mode axis
M('c14-marginal-mean', 'C14', 'sample.py', "        phi[i] = np.sum(Y[i], axis=1) @ phi[i+1]", "        phi[i] = np.mean(Y[i], axis=1) @ phi[i+1]")
T('c14-twin-marginal-method-sum', 'C14', 'sample.py', "        phi[i] = np.sum(Y[i], axis=1) @ phi[i+1]", "        phi[i] = Y[i].sum(axis=1) @ phi[i+1]")
# F-split (C02): the accuracy of truncate is divided by sqrt(d - 1)
M('c02-split-sqrt-d', 'C02', 'transformation.py', "            Z, p = orthogonalize(Y, d-1), 0\n            e = e / np.sqrt(d-1) * np.linalg.norm(Z[-1])", "            Z, p = orthogonalize(Y, d-1), 0\n            e = e / np.sqrt(d) * np.linalg.norm(Z[-1])")
T('c02-twin-split-len', 'C02', 'transformation.py', "            Z, p = orthogonalize(Y, d-1), 0\n            e = e / np.sqrt(d-1) * np.linalg.norm(Z[-1])", "            Z, p = orthogonalize(Y, d-1), 0\n            e = e / np.sqrt(len(Y) - 1) * np.linalg.norm(Z[-1])")
# U-exp-paths (C16): every return path of the stabilised norm carries the ledger exponent
M('c16-norm-zero-drops-exponent', 'C16', 'act_one.py', "        return np.sqrt(v) if v > 0 else 0., p/2", "        if v <= 0:\n            return 0., 0\n        return np.sqrt(v), p/2")
T('c16-twin-norm-two-returns', 'C16', 'act_one.py', "        return np.sqrt(v) if v > 0 else 0., p/2", "        if v <= 0:\n            return 0., p/2\n        return np.sqrt(v), p/2")
