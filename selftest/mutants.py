"""Corpus of source edits for `python -m ttsa selftest`.

expect='violation' (default): a realistic single change that breaks the
property (still compiles; the pinned tests do not notice).
expect='silent': behaviour preserving twin that must NOT raise an alarm.
"""
MUTANTS = []


def M(id, prop, file, old, new, **kw):
    d = dict(id=id, prop=prop, file=file, old=old, new=new)
    d.update(kw)
    MUTANTS.append(d)


def T(id, prop, file, old, new, **kw):
    M(id, prop, file, old, new, expect='silent', **kw)


# ------------------------------------------------------------------ C06
M('c06-drop-fold-ltr', 'C06', 'cross.py',
  "            if info['stop']:\n                Y[i] = np.tensordot(R, Y[i], 1)\n",
  "            if info['stop']:\n")
M('c06-swap-fold-rtl', 'C06', 'cross.py',
  "                Y[i] = np.tensordot(Y[i], R, 1)\n                info['r']",
  "                Y[i] = np.tensordot(R, Y[i], 1)\n                info['r']")
M('c06-no-budget-cached', 'C06', 'cross.py',
  "        if info['m_max'] is not None and info['m'] + len(I_new) > info['m_max']:\n            info['stop'] = 'm'\n            return\n",
  "")
M('c06-budget-wrong-batch', 'C06', 'cross.py',
  "info['m'] + len(I_new) > info['m_max']", "info['m'] + len(I) > info['m_max'] * 2")
M('c06-count-before-none', 'C06', 'cross.py',
  "        y = f(I)\n        if y is None:\n            info['stop'] = 'func'\n            return\n        info['m'] += len(I)\n",
  "        y = f(I)\n        info['m'] += len(I)\n        if y is None:\n            info['stop'] = 'func'\n            return\n")
M('c06-budget-ge', 'C06', 'cross.py',
  "info['m'] + len(I) > info['m_max']", "info['m'] + len(I) >= info['m_max']")
M('c06-stop-priority', 'C06', 'utils.py',
  "        if nswp is not None:\n            if info['nswp'] >= nswp:",
  "        if nswp is not None:\n            if info['nswp'] > nswp:")
M('c06-cb-overwrites', 'C06', 'cross.py',
  "                info['stop'] = info['stop'] or 'cb'\n\n        if teneva._info_appr(info, _time, nswp, e, e_vld, log):\n            return Y\n\n\ndef _func",
  "                info['stop'] = 'cb'\n\n        if teneva._info_appr(info, _time, nswp, e, e_vld, log):\n            return Y\n\n\ndef _func")
M('c06-nswp-twice', 'C06', 'cross.py',
  "        Y[d-1] = np.tensordot(Y[d-1], R, 1)\n\n        R = np.ones((1, 1))\n        for i in range(d-1, -1, -1):\n            Z = (func",
  "        Y[d-1] = np.tensordot(Y[d-1], R, 1)\n        info['nswp'] += 1\n\n        R = np.ones((1, 1))\n        for i in range(d-1, -1, -1):\n            Z = (func")
M('c06-validate-dropped', 'C06', 'cross.py',
  "    if e_vld is not None and (I_vld is None or y_vld is None):\n        raise ValueError('Validation dataset is not set')\n",
  "")
M('c06-stale-info-on-stop', 'C06', 'cross.py',
  "                Y[i] = np.tensordot(R, Y[i], 1)\n                info['r'] = teneva.erank(Y)\n                info['e'] = teneva.accuracy(Y, Yold)\n",
  "                info['r'] = teneva.erank(Y)\n                info['e'] = teneva.accuracy(Y, Yold)\n                Y[i] = np.tensordot(R, Y[i], 1)\n")
M('c06-e-stop-no-finite', 'C06', 'utils.py',
  "            if info['e'] <= e and not np.isinf(info['e']):", "            if info['e'] <= e:")
T('c06-twin-rename', 'C06', 'cross.py',
  "        y = f(I)\n        if y is None:\n            info['stop'] = 'func'\n            return\n        info['m'] += len(I)\n        return np.array(y, dtype=float)",
  "        vals = f(I)\n        if vals is None:\n            info['stop'] = 'func'\n            return\n        info['m'] += len(I)\n        return np.array(vals, dtype=float)")
T('c06-twin-budget-flipped', 'C06', 'cross.py',
  "info['m'] + len(I) > info['m_max']", "info['m_max'] < info['m'] + len(I)")
