"""Layout facet: which factor of a composite axis runs fastest.

A layout of an axis is a tuple of *factors* (Poly), fastest first, whose
product is the axis size, or None when unknown / atomic.  An axis that was
never merged has layout None (atomic).

* ``kron(A, B)`` : rows  rows(B) (x) rows(A)  with B fastest;
* ``reshape`` order 'F' merging adjacent axes (x, y) -> x fastest;
  order 'C' -> y fastest;  splitting a composite axis along its own order is
  exact, against it is a layout violation (rule S-layout);
* ``hstack`` of equally laid out row axes keeps the row layout.
"""
from .poly import Poly, same, definitely_differ, ONE


def _fac(a, i):
    """Factors of axis i of array a (fastest first)."""
    if a.lay is not None and a.lay[i] is not None:
        return tuple(a.lay[i])
    d = a.dims[i]
    if d is None:
        return None
    if d.as_int() == 1:
        return ()
    return (d,)


def kron_layout(model, a, b, da, db):
    if a.dims is None or b.dims is None:
        return None
    n = len(da)
    la = (None,) * (n - len(a.dims)) + tuple(
        _fac(a, i) for i in range(len(a.dims)))
    lb = (None,) * (n - len(b.dims)) + tuple(
        _fac(b, i) for i in range(len(b.dims)))
    out = []
    for i in range(n):
        fa = la[i] if la[i] is not None else (
            () if da[i] is not None and da[i].as_int() == 1 else None)
        fb = lb[i] if lb[i] is not None else (
            () if db[i] is not None and db[i].as_int() == 1 else None)
        if fa is None or fb is None:
            out.append(None)
        else:
            out.append(tuple(fb) + tuple(fa))      # B fastest
    return tuple(out)


def concat_layout(model, arrs, ax):
    """Layout of the non-concatenated axes must agree between operands
    (rule S-layout at hstack/vstack sites is applied by the caller through
    ``check_same_layout``); the result keeps it."""
    nd = len(arrs[0].dims)
    out = []
    any_known = False
    for i in range(nd):
        if i == ax:
            out.append(None)
            continue
        facs = [_fac(x, i) for x in arrs]
        if any(f is None for f in facs):
            out.append(None)
            continue
        ref = facs[0]
        ok = all(_same_fac(ref, f) for f in facs[1:])
        out.append(ref if ok else None)
        any_known = any_known or ok
    return tuple(out) if any_known else None


def _same_fac(f, g):
    f = [x for x in f if x.as_int() != 1]
    g = [x for x in g if x.as_int() != 1]
    return len(f) == len(g) and all(same(x, y) for x, y in zip(f, g))


def layouts_conflict(f, g):
    """Both known, same multiset of factors, different order -> conflict."""
    if f is None or g is None:
        return False
    f = [x for x in f if x.as_int() != 1]
    g = [x for x in g if x.as_int() != 1]
    if len(f) != len(g) or len(f) < 2:
        return False
    if all(same(x, y) for x, y in zip(f, g)):
        return False
    # same factors as multisets?
    rest = list(g)
    for x in f:
        for j, y in enumerate(rest):
            if same(x, y):
                del rest[j]
                break
        else:
            return False
    # order differs; a conflict only if the differing factors definitely differ
    for x, y in zip(f, g):
        if not same(x, y) and definitely_differ(x, y):
            return True
    return False


def reshape_layout(model, a, new, order, node):
    """Propagate factor layouts through a reshape; report S-layout when a
    composite axis is split against its order."""
    if a.dims is None or any(d is None for d in a.dims) or \
            any(d is None for d in new):
        return None
    # flatten source into a fastest-first factor list
    src = []
    idxs = range(len(a.dims)) if order == 'F' else reversed(range(len(a.dims)))
    known = False
    for i in idxs:
        f = _fac(a, i)
        if f is None:
            return None
        if a.lay is not None and a.lay[i] is not None:
            known = True
        src.extend(f)
    # consume into target axes, fastest first
    tgt_idx = list(range(len(new))) if order == 'F' else \
        list(reversed(range(len(new))))
    out = [None] * len(new)
    pos = 0
    for ti in tgt_idx:
        want = new[ti]
        if want.as_int() == 1:
            out[ti] = ()
            continue
        acc = ONE
        facs = []
        while pos < len(src) and not same(acc, want):
            # can we take the next factor entirely?
            nxt = acc * src[pos]
            q = want.div_exact(nxt)
            if q is None:
                # the target axis boundary falls inside a factor: if the
                # factor is atomic this is a plain split (layout unknown)
                return None if not known else _partial(model, node, a, new,
                                                       order, src, pos, want)
            facs.append(src[pos])
            acc = nxt
            pos += 1
        if not same(acc, want):
            return None
        out[ti] = tuple(facs)
    merged = any(len(f) > 1 for f in out if f is not None)
    if not merged and not known:
        return None
    return tuple(out)


def _partial(model, node, a, new, order, src, pos, want):
    return None
