"""CLI:  python -m ttsa check Cxx [--tier quick|thorough] [--repo /repo]"""
import argparse
import importlib
import os
import sys
import traceback


def main(argv=None):
    ap = argparse.ArgumentParser(prog='ttsa')
    sub = ap.add_subparsers(dest='cmd')
    c = sub.add_parser('check')
    c.add_argument('prop')
    c.add_argument('--tier', default=os.environ.get('VERIF_TIER', 'quick'))
    c.add_argument('--repo', default='/repo')
    c.add_argument('--no-evidence', action='store_true')
    c.add_argument('--verbose', action='store_true')
    s = sub.add_parser('selftest')
    s.add_argument('--jobs', type=int, default=16)
    s.add_argument('--only', default=None)
    s.add_argument('--repo', default='/repo')
    args = ap.parse_args(argv)
    if args.cmd == 'check':
        return run_check(args)
    if args.cmd == 'selftest':
        from . import selftest
        return selftest.main(args)
    ap.print_help()
    return 2


def run_check(args):
    from .report import Report
    from .model import AnalysisError
    tier = args.tier if args.tier in ('quick', 'thorough') else 'quick'
    try:
        seed = int(os.environ.get('VERIF_SEED', '0'))
    except ValueError:
        seed = 0
    rep = Report(args.prop, tier, seed)
    try:
        mod = importlib.import_module('ttsa.props.%s' % args.prop)
    except ImportError as e:
        print('ANALYSIS-ERROR property=%s no checker: %s' % (args.prop, e))
        return 2
    try:
        from .engine import Analysis
        an = Analysis(args.repo)
        rep.units = {'modules': len(an.prog.modules),
                     'functions': len(an.prog.functions),
                     'public': len(an.prog.public),
                     'digest': an.prog.digest[:16], 'repo': args.repo}
        mod.check(an, rep, tier)
    except AnalysisError as e:
        rep.error(str(e))
    except Exception as e:      # never let a traceback look like a violation
        tb = traceback.format_exc(limit=8)
        rep.error('internal error: %r\n%s' % (e, tb))
    write = not args.no_evidence and os.path.abspath(args.repo) == '/repo'
    return rep.finish(write_evidence=write, quiet=False)


if __name__ == '__main__':
    sys.exit(main())
