"""Path-wise symbolic values of a local variable (rational forms over opaque
atoms).

``values_at(fn_node, target_stmt, name)`` enumerates the acyclic paths of the
innermost block sequence leading to ``target_stmt`` (branches of ``if`` are
followed separately, loops are not unrolled: the search starts at the body of
the innermost enclosing loop) and returns, per path, the guards taken and the
value of ``name`` as a ``Rat`` whose atoms are the canonical texts of the
non-arithmetic sub-expressions (calls, subscripts, attributes)."""
import ast
import copy

from .rules_formula import Rat, rat_eval
from .poly import Poly


_FN = [None]        # function whose temporaries are inlined into opaque atoms


class _Opaque(ast.NodeTransformer):
    """Replace every non-arithmetic subtree by a Name carrying its text."""

    def __init__(self, env):
        self.env = env

    def _atom(self, n):
        fn_node = _FN[0]
        if fn_node is not None:
            # temporaries bound once read as their defining expression, so
            # that  t = self.f1[k]; t[x]  and  self.f1[k][x]  are one atom
            from . import roles
            n = roles.inline(fn_node, n)
        return ast.Name(id='@' + ast.unparse(n), ctx=ast.Load())

    def visit_Call(self, n):
        return self._atom(n)

    def visit_Subscript(self, n):
        return self._atom(n)

    def visit_Attribute(self, n):
        return self._atom(n)


def sym(expr, env):
    tree = _Opaque(env).visit(copy.deepcopy(expr))
    return rat_eval(tree, env)


def _enclosing_body(fn_node, target):
    """Statement list of the innermost loop / function that contains target,
    plus the chain of statements from that list down to the target."""
    parents = {}
    for n in ast.walk(fn_node):
        for c in ast.iter_child_nodes(n):
            parents[c] = n
    cur = target
    while cur in parents and not isinstance(parents[cur],
                                            (ast.For, ast.While,
                                             ast.FunctionDef)):
        cur = parents[cur]
    top = parents.get(cur)
    return top.body if top is not None else fn_node.body


def values_at(fn_node, target, name):
    body = _enclosing_body(fn_node, target)
    results = []

    def run(stmts, env, guards):
        """-> list of (env, guards, reached) after the statements."""
        states = [(env, guards, False)]
        for st in stmts:
            nxt = []
            for e, g, reached in states:
                if reached:
                    nxt.append((e, g, True))
                    continue
                if st is target:
                    nxt.append((e, g, True))
                    continue
                if isinstance(st, ast.Assign) and len(st.targets) == 1 and \
                        isinstance(st.targets[0], ast.Name):
                    e2 = dict(e)
                    try:
                        e2[st.targets[0].id] = sym(st.value, e)
                    except ValueError:
                        e2.pop(st.targets[0].id, None)
                        e2[st.targets[0].id] = Rat(Poly.sym(
                            '?' + st.targets[0].id + str(st.lineno)))
                    nxt.append((e2, g, False))
                elif isinstance(st, ast.AugAssign) and \
                        isinstance(st.target, ast.Name):
                    e2 = dict(e)
                    fake = ast.BinOp(left=ast.Name(id=st.target.id,
                                                   ctx=ast.Load()),
                                     op=st.op, right=st.value)
                    try:
                        e2[st.target.id] = sym(fake, e)
                    except ValueError:
                        e2[st.target.id] = Rat(Poly.sym(
                            '?' + st.target.id + str(st.lineno)))
                    nxt.append((e2, g, False))
                elif isinstance(st, ast.If):
                    for arm, pol in ((st.body, True), (st.orelse, False)):
                        nxt.extend(run(arm, dict(e), g + [(st.test, pol)]))
                elif isinstance(st, (ast.Try, ast.With, ast.For, ast.While)):
                    # not followed: values assigned inside become opaque
                    e2 = dict(e)
                    for x in ast.walk(st):
                        if isinstance(x, ast.Name) and \
                                isinstance(x.ctx, ast.Store):
                            e2[x.id] = Rat(Poly.sym('?%s%d' % (x.id,
                                                               st.lineno)))
                    reached_in = any(y is target for y in ast.walk(st))
                    nxt.append((e2, g, reached_in))
                else:
                    nxt.append((e, g, False))
            states = nxt
        return states

    _FN[0] = fn_node
    try:
        for e, g, reached in run(body, {}, []):
            if reached:
                results.append((g, e.get(name)))
    finally:
        _FN[0] = None
    return results


# ---------------------------------------------------------------------------
# Bounded symbolic execution of "fill an array row by row" builders
def basis_rows(prog, fn, size, size_param, arg_param):
    """Execute the straight-line / loop / if statements of ``fn`` with the
    integer parameter ``size_param`` = ``size`` and the array parameter
    ``arg_param`` as the symbol x.  An array created by ones / zeros (or by a
    callable parameter, as in func_basis) is a dict index -> Rat; stores
    ``A[k] = e`` / ``A[:, k] = e`` fill it.  Returns {index: Rat} of the
    array that is returned, or None when a construct is not understood."""
    from .rules_formula import _eval_int
    x = Rat(Poly.sym('x'))
    ints = {size_param: size}
    arrays = {}             # name -> ({index: Rat}, fill Rat)
    result = {'val': None}

    def idx_of(sub):
        """index expression of A[k] / A[:, k] -> python int or None."""
        sl = sub.slice
        if isinstance(sl, ast.Tuple):
            parts = [e for e in sl.elts
                     if not (isinstance(e, ast.Slice) and e.lower is None and
                             e.upper is None and e.step is None)]
            if len(parts) != 1:
                return None
            sl = parts[0]
        if isinstance(sl, ast.Slice):
            return None
        return _eval_int(sl, ints)

    class Rd(ast.NodeTransformer):
        def visit_Subscript(self, n):
            if isinstance(n.value, ast.Name) and n.value.id in arrays:
                k = idx_of(n)
                if k is None:
                    raise ValueError('index')
                rows, fill = arrays[n.value.id]
                key = '@row:%s:%d' % (n.value.id, k)
                env[key] = rows.get(k, fill)
                return ast.Name(id=key, ctx=ast.Load())
            return ast.Name(id='@' + ast.unparse(n), ctx=ast.Load())

        def visit_Call(self, n):
            f = prog.dotted(n.func) or ''
            if f.endswith('sqrt') and n.args and \
                    isinstance(n.args[0], ast.Constant):
                return ast.Name(id='@sqrt(%r)' % n.args[0].value,
                                ctx=ast.Load())
            return ast.Name(id='@' + ast.unparse(n), ctx=ast.Load())

        def visit_Attribute(self, n):
            return ast.Name(id='@' + ast.unparse(n), ctx=ast.Load())
    env = {arg_param: x}

    def ev(expr):
        import copy as _c
        return rat_eval(Rd().visit(_c.deepcopy(expr)), env)

    def is_ctor(v):
        if not isinstance(v, ast.Call):
            return None
        f = prog.dotted(v.func) or ''
        if f.endswith('ones') or (isinstance(v.func, ast.Name) and
                                  v.func.id in fn.all_params and
                                  'ones' in v.func.id):
            return Rat(1)
        if f.endswith('zeros'):
            return Rat(0)
        return None

    def run(stmts):
        for st in stmts:
            if result['val'] is not None:
                return
            if isinstance(st, ast.Assign) and len(st.targets) == 1:
                t = st.targets[0]
                if isinstance(t, ast.Name):
                    fill = is_ctor(st.value)
                    if fill is not None:
                        arrays[t.id] = ({}, fill)
                        continue
                    iv = _eval_int(st.value, ints)
                    if iv is not None:
                        ints[t.id] = iv
                        continue
                    if t.id in arrays and isinstance(st.value, ast.Subscript):
                        continue        # res = res[0]  (reduction of a point)
                    continue
                if isinstance(t, ast.Subscript) and \
                        isinstance(t.value, ast.Name) and \
                        t.value.id in arrays:
                    k = idx_of(t)
                    if k is None:
                        raise ValueError('store index')
                    arrays[t.value.id][0][k] = ev(st.value)
                    continue
            elif isinstance(st, ast.For) and isinstance(st.target, ast.Name) \
                    and isinstance(st.iter, ast.Call) and \
                    isinstance(st.iter.func, ast.Name) and \
                    st.iter.func.id == 'range':
                a = [_eval_int(z, ints) for z in st.iter.args]
                if any(z is None for z in a):
                    raise ValueError('range')
                for k in range(*a):
                    ints[st.target.id] = k
                    run(st.body)
                continue
            elif isinstance(st, ast.If):
                from .rules_formula import _eval_cmp
                c = _eval_cmp(st.test, ints)
                if c is None and isinstance(st.test, ast.Name) and \
                        st.test.id in ints:
                    c = bool(ints[st.test.id])
                if c is None:
                    # tests on the array argument (ndim etc.): the generic,
                    # batched case does not take the reduction branch
                    names = {z.id for z in ast.walk(st.test)
                             if isinstance(z, ast.Name)}
                    if names & set(ints):
                        raise ValueError('test')
                    c = False
                    if isinstance(st.test, ast.Compare) and \
                            isinstance(st.test.ops[0], (ast.NotEq,)):
                        c = False
                run(st.body if c else st.orelse)
                continue
            elif isinstance(st, ast.Return):
                v = st.value
                if isinstance(v, ast.IfExp):
                    v = v.orelse
                if isinstance(v, ast.Name) and v.id in arrays:
                    rows, fill = arrays[v.id]
                    result['val'] = {k: rows.get(k, fill)
                                     for k in range(size)}
                return
            elif isinstance(st, ast.Raise):
                return
    try:
        run(fn.node.body)
    except ValueError:
        return None
    return result['val']


def cheb_expected(k, first=None):
    x = Rat(Poly.sym('x'))
    t0, t1 = Rat(1), x
    if k == 0:
        return first if first is not None else t0
    if k == 1:
        return t1
    for _ in range(2, k + 1):
        t0, t1 = t1, Rat(2) * x * t1 - t0
    return t1
