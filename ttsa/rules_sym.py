"""Path-wise symbolic values of a local variable (rational forms over opaque
atoms).

``values_at(fn_node, target_stmt, name)`` enumerates the acyclic paths of the
innermost block sequence leading to ``target_stmt`` (branches of ``if`` are
followed separately, loops are not unrolled: the search starts at the body of
the innermost enclosing loop) and returns, per path, the guards taken and the
value of ``name`` as a ``Rat`` whose atoms are the canonical texts of the
non-arithmetic sub-expressions (calls, subscripts, attributes)."""
import ast
import copy

from .rules_formula import Rat, rat_eval
from .poly import Poly


class _Opaque(ast.NodeTransformer):
    """Replace every non-arithmetic subtree by a Name carrying its text."""

    def __init__(self, env):
        self.env = env

    def visit_Call(self, n):
        return ast.Name(id='@' + ast.unparse(n), ctx=ast.Load())

    def visit_Subscript(self, n):
        return ast.Name(id='@' + ast.unparse(n), ctx=ast.Load())

    def visit_Attribute(self, n):
        return ast.Name(id='@' + ast.unparse(n), ctx=ast.Load())


def sym(expr, env):
    tree = _Opaque(env).visit(copy.deepcopy(expr))
    return rat_eval(tree, env)


def _enclosing_body(fn_node, target):
    """Statement list of the innermost loop / function that contains target,
    plus the chain of statements from that list down to the target."""
    parents = {}
    for n in ast.walk(fn_node):
        for c in ast.iter_child_nodes(n):
            parents[c] = n
    cur = target
    while cur in parents and not isinstance(parents[cur],
                                            (ast.For, ast.While,
                                             ast.FunctionDef)):
        cur = parents[cur]
    top = parents.get(cur)
    return top.body if top is not None else fn_node.body


def values_at(fn_node, target, name):
    body = _enclosing_body(fn_node, target)
    results = []

    def run(stmts, env, guards):
        """-> list of (env, guards, reached) after the statements."""
        states = [(env, guards, False)]
        for st in stmts:
            nxt = []
            for e, g, reached in states:
                if reached:
                    nxt.append((e, g, True))
                    continue
                if st is target:
                    nxt.append((e, g, True))
                    continue
                if isinstance(st, ast.Assign) and len(st.targets) == 1 and \
                        isinstance(st.targets[0], ast.Name):
                    e2 = dict(e)
                    try:
                        e2[st.targets[0].id] = sym(st.value, e)
                    except ValueError:
                        e2.pop(st.targets[0].id, None)
                        e2[st.targets[0].id] = Rat(Poly.sym(
                            '?' + st.targets[0].id + str(st.lineno)))
                    nxt.append((e2, g, False))
                elif isinstance(st, ast.AugAssign) and \
                        isinstance(st.target, ast.Name):
                    e2 = dict(e)
                    fake = ast.BinOp(left=ast.Name(id=st.target.id,
                                                   ctx=ast.Load()),
                                     op=st.op, right=st.value)
                    try:
                        e2[st.target.id] = sym(fake, e)
                    except ValueError:
                        e2[st.target.id] = Rat(Poly.sym(
                            '?' + st.target.id + str(st.lineno)))
                    nxt.append((e2, g, False))
                elif isinstance(st, ast.If):
                    for arm, pol in ((st.body, True), (st.orelse, False)):
                        nxt.extend(run(arm, dict(e), g + [(st.test, pol)]))
                elif isinstance(st, (ast.Try, ast.With, ast.For, ast.While)):
                    # not followed: values assigned inside become opaque
                    e2 = dict(e)
                    for x in ast.walk(st):
                        if isinstance(x, ast.Name) and \
                                isinstance(x.ctx, ast.Store):
                            e2[x.id] = Rat(Poly.sym('?%s%d' % (x.id,
                                                               st.lineno)))
                    reached_in = any(y is target for y in ast.walk(st))
                    nxt.append((e2, g, reached_in))
                else:
                    nxt.append((e, g, False))
            states = nxt
        return states

    for e, g, reached in run(body, {}, []):
        if reached:
            results.append((g, e.get(name)))
    return results
