"""Structured control-flow queries for protocol rules (P family).

* ``guards_of(fn, node)``   the conditions that hold whenever ``node`` executes:
  enclosing ``if`` arms (with polarity) plus preceding sibling ``if``
  statements whose taken arm always leaves the block (early return / raise /
  continue / break) — an exact dominance computation for structured code.
* ``paths(fn)``             acyclic event paths through a function (loops are
  taken 0 or 1 times, ``while True`` exactly once), used for must-precede /
  must-follow queries.
"""
import ast
import re

from .model import AnalysisError

MAX_PATHS = 60000


def parent_map(root):
    pm = {}
    for n in ast.walk(root):
        for ch in ast.iter_child_nodes(n):
            pm[ch] = n
    return pm


def always_exits(stmts):
    """Does the statement list always leave the enclosing block?"""
    for st in stmts:
        if isinstance(st, (ast.Return, ast.Raise, ast.Continue, ast.Break)):
            return True
        if isinstance(st, ast.If):
            if st.orelse and always_exits(st.body) and always_exits(st.orelse):
                return True
    return False


def _blocks(node):
    for name in ('body', 'orelse', 'finalbody'):
        b = getattr(node, name, None)
        if isinstance(b, list):
            yield name, b
    if isinstance(node, ast.Try):
        for h in node.handlers:
            yield 'handler', h.body


def guards_of(fn_node, target):
    """List of (test expr node, polarity) dominating ``target`` (a statement
    or an expression inside a statement) within the function."""
    pm = parent_map(fn_node)
    # climb to the statement containing target
    node = target
    guards = []
    while node is not fn_node and node in pm:
        par = pm[node]
        if isinstance(node, ast.stmt) or isinstance(par, (ast.If, ast.For,
                                                           ast.While)):
            pass
        # expression-level guards: IfExp arms, BoolOp short circuit
        if isinstance(par, ast.IfExp):
            if node is par.body:
                guards.append((par.test, True))
            elif node is par.orelse:
                guards.append((par.test, False))
        if isinstance(par, ast.BoolOp) and node in par.values:
            i = par.values.index(node)
            for prev in par.values[:i]:
                guards.append((prev, isinstance(par.op, ast.And)))
        if isinstance(node, ast.stmt):
            # which block of the parent holds this statement?
            for name, block in _blocks(par):
                if node in block:
                    idx = block.index(node)
                    for prev in block[:idx]:
                        if isinstance(prev, ast.If):
                            if always_exits(prev.body) and not \
                                    always_exits(prev.orelse or []):
                                guards.append((prev.test, False))
                            elif prev.orelse and always_exits(prev.orelse) \
                                    and not always_exits(prev.body):
                                guards.append((prev.test, True))
                        if isinstance(prev, ast.Assert):
                            guards.append((prev.test, True))
                    if isinstance(par, ast.If):
                        guards.append((par.test, name == 'body'))
                    if isinstance(par, ast.While) and name == 'body':
                        guards.append((par.test, True))
                    break
        node = par
    guards.reverse()
    return guards


def src(mod, node):
    s = ast.get_source_segment(mod.src, node) or ''
    return re.sub(r'\s+', ' ', s).strip()


def guard_texts(mod, fn_node, target):
    return [(src(mod, t), pol) for t, pol in guards_of(fn_node, target)]


# ---------------------------------------------------------------------------
class Ev:
    __slots__ = ('kind', 'node', 'pol')

    def __init__(self, kind, node, pol=None):
        self.kind = kind      # 'stmt' | 'test' | 'loop' | 'end'
        self.node = node
        self.pol = pol

    def __repr__(self):
        return '%s@%s%s' % (self.kind, getattr(self.node, 'lineno', '?'),
                            '' if self.pol is None else ('+' if self.pol
                                                         else '-'))


def paths(fn_node, max_paths=MAX_PATHS):
    """All acyclic event paths of the function body.  Each path is a list of
    Ev; the last event is Ev('end', node) with node a Return / Raise or None
    (fall through)."""
    counter = [0]

    def block(stmts, cont):
        """cont: function(prefix-list) -> list of paths after this block
        completes normally.  Returns generator-like list builder."""
        def run(i, prefix, loopctx):
            if i == len(stmts):
                return cont(prefix, loopctx)
            st = stmts[i]
            nxt = lambda p, lc=loopctx: run(i + 1, p, lc)
            return stmt(st, prefix, nxt, loopctx)
        return run

    out = []

    def emit(prefix, endnode):
        counter[0] += 1
        if counter[0] > max_paths:
            raise AnalysisError('path explosion in %s'
                                % getattr(fn_node, 'name', '?'))
        out.append(prefix + [Ev('end', endnode)])

    def stmt(st, prefix, nxt, loopctx):
        if isinstance(st, ast.Return):
            emit(prefix + [Ev('stmt', st)], st)
            return
        if isinstance(st, ast.Raise):
            emit(prefix + [Ev('stmt', st)], st)
            return
        if isinstance(st, ast.Continue):
            if loopctx:
                loopctx['cont'](prefix + [Ev('stmt', st)])
            return
        if isinstance(st, ast.Break):
            if loopctx:
                loopctx['brk'](prefix + [Ev('stmt', st)])
            return
        if isinstance(st, ast.If):
            do_block(st.body, prefix + [Ev('test', st.test, True)], nxt,
                     loopctx)
            do_block(st.orelse, prefix + [Ev('test', st.test, False)], nxt,
                     loopctx)
            return
        if isinstance(st, (ast.For, ast.While)):
            is_true = isinstance(st, ast.While) and \
                isinstance(st.test, ast.Constant) and st.test.value is True
            after = lambda p: do_block(st.orelse, p, nxt, loopctx) \
                if getattr(st, 'orelse', None) else nxt(p)
            if not is_true:
                # zero iterations
                after(prefix + [Ev('loop', st, False)])
            lc = {'cont': lambda p: (after(p) if not is_true else None),
                  'brk': lambda p: nxt(p)}
            # one iteration, then leave (for `while True` the only way out
            # is return / break inside the body)
            def body_done(p, _lc=None):
                if not is_true:
                    after(p)
            do_block(st.body, prefix + [Ev('loop', st, True)], body_done, lc)
            return
        if isinstance(st, ast.Try):
            def after_body(p, _lc=None):
                if st.orelse:
                    do_block(st.orelse, p, after_all, loopctx)
                else:
                    after_all(p)

            def after_all(p, _lc=None):
                if st.finalbody:
                    do_block(st.finalbody, p, nxt, loopctx)
                else:
                    nxt(p)
            do_block(st.body, prefix, after_body, loopctx)
            for h in st.handlers:
                do_block(h.body, prefix + [Ev('test', h, True)], after_all,
                         loopctx)
            return
        if isinstance(st, ast.With):
            do_block(st.body, prefix + [Ev('stmt', st)], nxt, loopctx)
            return
        if isinstance(st, (ast.FunctionDef, ast.ClassDef)):
            nxt(prefix)
            return
        nxt(prefix + [Ev('stmt', st)])

    def do_block(stmts, prefix, cont, loopctx):
        def run(i, p):
            if i == len(stmts):
                cont(p)
                return
            stmt(stmts[i], p, lambda q, _lc=None: run(i + 1, q), loopctx)
        run(0, prefix)

    do_block(fn_node.body, [], lambda p, _lc=None: emit(p, None), None)
    return out


def calls_in(node):
    for n in ast.walk(node):
        if isinstance(n, ast.Call):
            yield n


def stores_in(node):
    """Yield (target node, value node) of assignments inside a statement."""
    if isinstance(node, ast.Assign):
        for t in node.targets:
            yield t, node.value
    elif isinstance(node, ast.AugAssign):
        yield node.target, node.value
    elif isinstance(node, ast.AnnAssign) and node.value is not None:
        yield node.target, node.value


def subscript_key(target):
    """info['stop'] -> ('info', 'stop') for constant string keys."""
    if isinstance(target, ast.Subscript) and isinstance(target.value, ast.Name):
        s = target.slice
        if isinstance(s, ast.Constant) and isinstance(s.value, str):
            return target.value.id, s.value
    return None
