"""Structured control-flow queries for protocol rules (P family).

* ``guards_of(fn, node)``   the conditions that hold whenever ``node`` executes:
  enclosing ``if`` arms (with polarity) plus preceding sibling ``if``
  statements whose taken arm always leaves the block (early return / raise /
  continue / break) — an exact dominance computation for structured code.
* ``paths(fn)``             acyclic event paths through a function (loops are
  taken 0 or 1 times, ``while True`` exactly once), used for must-precede /
  must-follow queries.
"""
import ast
import re

from .model import AnalysisError

MAX_PATHS = 60000


def parent_map(root):
    pm = {}
    for n in ast.walk(root):
        for ch in ast.iter_child_nodes(n):
            pm[ch] = n
    return pm


def always_exits(stmts):
    """Does the statement list always leave the enclosing block?"""
    for st in stmts:
        if isinstance(st, (ast.Return, ast.Raise, ast.Continue, ast.Break)):
            return True
        if isinstance(st, ast.If):
            if st.orelse and always_exits(st.body) and always_exits(st.orelse):
                return True
    return False


def _blocks(node):
    for name in ('body', 'orelse', 'finalbody'):
        b = getattr(node, name, None)
        if isinstance(b, list):
            yield name, b
    if isinstance(node, ast.Try):
        for h in node.handlers:
            yield 'handler', h.body


def linear(stmts):
    """The statement sequence with else-continuations spliced in:
    ``if c: <exit> else: rest`` is the same straight-line code as
    ``if c: <exit>`` followed by ``rest`` (and symmetrically when the else arm
    exits).  Rules that walk "the statements of the function body" use this so
    that the two spellings are indistinguishable."""
    out = []
    for st in stmts:
        out.append(st)
        if isinstance(st, ast.If) and st.orelse:
            eb, eo = always_exits(st.body), always_exits(st.orelse)
            if eb and eo:
                # both arms leave: the short rejection arm is the guard, the
                # other one is the rest of the function
                eb, eo = (True, False) if len(st.body) <= len(st.orelse) \
                    else (False, True)
            if eb and not eo:
                out.extend(linear(st.orelse))
            elif eo and not eb:
                out.extend(linear(st.body))
    return out


def flat(stmts):
    """``linear`` plus parallel assignments split up: ``a, b = x, y`` reads as
    ``a = x`` followed by ``b = y`` when no target name occurs in a value (the
    order of the two stores is then immaterial)."""
    out = []
    for st in linear(stmts):
        if isinstance(st, ast.Assign) and len(st.targets) == 1 and \
                isinstance(st.targets[0], ast.Tuple) and \
                isinstance(st.value, ast.Tuple) and \
                len(st.targets[0].elts) == len(st.value.elts):
            tn = {n.id for t in st.targets[0].elts for n in ast.walk(t)
                  if isinstance(n, ast.Name) and isinstance(n.ctx, ast.Store)}
            vn = {n.id for v in st.value.elts for n in ast.walk(v)
                  if isinstance(n, ast.Name)}
            if not (tn & vn):
                for t, v in zip(st.targets[0].elts, st.value.elts):
                    a = ast.Assign(targets=[t], value=v)
                    ast.copy_location(a, st)
                    a._parent = getattr(st, '_parent', None)
                    out.append(a)
                continue
        out.append(st)
    return out


def own_walk(st):
    """ast.walk over a statement of a ``linear`` sequence, without the arm
    that ``linear`` spliced in as the continuation."""
    if isinstance(st, ast.If) and st.orelse:
        eb, eo = always_exits(st.body), always_exits(st.orelse)
        if eb and eo:
            eb, eo = (True, False) if len(st.body) <= len(st.orelse) \
                else (False, True)
        if eb and not eo:
            parts = [st.test] + st.body
        elif eo and not eb:
            parts = [st.test] + st.orelse
        else:
            parts = [st]
        for p in parts:
            yield from ast.walk(p)
        return
    yield from ast.walk(st)


def _has_own_break(loop):
    """Does the loop body contain a ``break`` that leaves THIS loop?"""
    def walk(stmts):
        for s in stmts:
            if isinstance(s, ast.Break):
                return True
            if isinstance(s, (ast.For, ast.While)):
                if walk(s.orelse):
                    return True
                continue
            for name in ('body', 'orelse', 'finalbody'):
                if walk(getattr(s, name, []) or []):
                    return True
            for h in getattr(s, 'handlers', []) or []:
                if walk(h.body):
                    return True
        return False
    return walk(loop.body)


def fall_guards(st):
    """Facts that hold when control falls out of the bottom of the ``if``
    statement ``st`` (as far as they form a conjunction): for the chain
    ``if a: <exit> elif b: <exit>`` that is  not a, not b."""
    out = []
    if always_exits(st.body) and not always_exits(st.orelse or []):
        out.append((st.test, False))
        if len(st.orelse) == 1 and isinstance(st.orelse[0], ast.If):
            out.extend(fall_guards(st.orelse[0]))
    elif st.orelse and always_exits(st.orelse) and \
            not always_exits(st.body):
        out.append((st.test, True))
        if len(st.body) == 1 and isinstance(st.body[0], ast.If):
            out.extend(fall_guards(st.body[0]))
    return out


def step_guards(fn_node, target):
    """Guards that decide whether ``target`` runs WITHIN one iteration of its
    innermost enclosing loop (the loop's own test -- ``while k < n`` -- is not
    a condition on the step; without a loop: all guards)."""
    pm = parent_map(fn_node)
    cur = target
    loop = None
    while cur in pm:
        cur = pm[cur]
        if isinstance(cur, (ast.For, ast.While)):
            loop = cur
            break
    if loop is None:
        return guards_of(fn_node, target)
    gs = guards_of(loop, target)
    if isinstance(loop, ast.While):
        d0 = ast.dump(loop.test)
        gs = [(t, p) for t, p in gs if not (p and ast.dump(t) == d0)]
    return gs


def guards_of(fn_node, target):
    """List of (test expr node, polarity) dominating ``target`` (a statement
    or an expression inside a statement) within the function."""
    pm = parent_map(fn_node)
    # climb to the statement containing target
    node = target
    guards = []
    while node is not fn_node and node in pm:
        par = pm[node]
        if isinstance(node, ast.stmt) or isinstance(par, (ast.If, ast.For,
                                                           ast.While)):
            pass
        # expression-level guards: IfExp arms, BoolOp short circuit
        if isinstance(par, ast.IfExp):
            if node is par.body:
                guards.append((par.test, True))
            elif node is par.orelse:
                guards.append((par.test, False))
        if isinstance(par, ast.BoolOp) and node in par.values:
            i = par.values.index(node)
            for prev in par.values[:i]:
                guards.append((prev, isinstance(par.op, ast.And)))
        if isinstance(node, ast.stmt):
            # which block of the parent holds this statement?
            for name, block in _blocks(par):
                if node in block:
                    idx = block.index(node)
                    for prev in block[:idx]:
                        if isinstance(prev, ast.If):
                            guards.extend(reversed(fall_guards(prev)))
                        if isinstance(prev, ast.While) and not prev.orelse \
                                and not _has_own_break(prev):
                            # left through its test: the test is false now,
                            # provided nothing after the loop re-binds a name
                            # of the test before the target
                            tn = {n.id for n in ast.walk(prev.test)
                                  if isinstance(n, ast.Name)}
                            j0 = block.index(prev)
                            later = {n.id for st2 in block[j0 + 1:idx]
                                     for n in ast.walk(st2)
                                     if isinstance(n, ast.Name) and
                                     isinstance(n.ctx, ast.Store)}
                            if not (tn & later):
                                guards.append((prev.test, False))
                        if isinstance(prev, ast.Assert):
                            guards.append((prev.test, True))
                    if isinstance(par, ast.If):
                        guards.append((par.test, name == 'body'))
                    if isinstance(par, ast.While) and name == 'body':
                        guards.append((par.test, True))
                    break
        node = par
    guards.reverse()
    # ``not t`` holding is ``t`` failing: rules never see the negation
    out = []
    for t, pol in guards:
        while isinstance(t, ast.UnaryOp) and isinstance(t.op, ast.Not):
            t, pol = t.operand, not pol
        out.append((t, pol))
    return out


def guard_atoms(guards):
    """Split conjunctions that hold / disjunctions that fail into their
    parts (each part then holds / fails on its own)."""
    out = []
    todo = list(guards)
    while todo:
        t, pol = todo.pop(0)
        while isinstance(t, ast.UnaryOp) and isinstance(t.op, ast.Not):
            t, pol = t.operand, not pol
        if isinstance(t, ast.BoolOp) and (
                (isinstance(t.op, ast.And) and pol) or
                (isinstance(t.op, ast.Or) and not pol)):
            todo = [(v, pol) for v in t.values] + todo
            continue
        out.append((t, pol))
    return out


_FLIP = {ast.Lt: ast.Gt, ast.Gt: ast.Lt, ast.LtE: ast.GtE, ast.GtE: ast.LtE,
         ast.Eq: ast.Eq, ast.NotEq: ast.NotEq}
_NEG = {ast.Lt: ast.GtE, ast.Gt: ast.LtE, ast.LtE: ast.Gt, ast.GtE: ast.Lt,
        ast.Eq: ast.NotEq, ast.NotEq: ast.Eq, ast.Is: ast.IsNot,
        ast.IsNot: ast.Is, ast.In: ast.NotIn, ast.NotIn: ast.In}


def cmp_facts(guards):
    """Canonical comparison facts implied by the guards: a list of
    (left-dump, op-class, right-dump, left-node, right-node) that HOLD, each
    single comparison given in both orientations (a < b and b > a), with
    failing tests negated.  Chained comparisons are split."""
    facts = []
    for t, pol in guard_atoms(guards):
        if not isinstance(t, ast.Compare):
            continue
        if len(t.ops) > 1 and not pol:
            continue            # negation of a chain is a disjunction
        operands = [t.left] + list(t.comparators)
        for i, op in enumerate(t.ops):
            l, r = operands[i], operands[i + 1]
            oc = type(op)
            if not pol:
                oc = _NEG.get(oc)
            if oc is None:
                continue
            facts.append((ast.dump(l), oc, ast.dump(r), l, r))
            if oc in _FLIP:
                facts.append((ast.dump(r), _FLIP[oc], ast.dump(l), r, l))
    return facts


def holds(guards, left, op, right=None):
    """Does a guard imply ``left <op> right``?  left / right are source
    strings or AST nodes; right=None matches any right operand."""
    def dump(x):
        if x is None:
            return None
        if isinstance(x, str):
            x = ast.parse(x, mode='eval').body
        return ast.dump(x)
    dl, dr = dump(left), dump(right)
    for l, oc, r, _, _ in cmp_facts(guards):
        if l == dl and oc is op and (dr is None or r == dr):
            return True
    return False


def src(mod, node):
    """Canonical text of a node: ``ast.unparse`` (independent of the source
    formatting, quote style and redundant parentheses)."""
    try:
        s = ast.unparse(node)
    except Exception:
        s = ast.get_source_segment(mod.src, node) or ''
    return re.sub(r'\s+', ' ', s).strip()


def guard_texts(mod, fn_node, target):
    return [(src(mod, t), pol) for t, pol in guards_of(fn_node, target)]


# ---------------------------------------------------------------------------
class Ev:
    __slots__ = ('kind', 'node', 'pol')

    def __init__(self, kind, node, pol=None):
        self.kind = kind      # 'stmt' | 'test' | 'loop' | 'end'
        self.node = node
        self.pol = pol

    def __repr__(self):
        return '%s@%s%s' % (self.kind, getattr(self.node, 'lineno', '?'),
                            '' if self.pol is None else ('+' if self.pol
                                                         else '-'))


def paths(fn_node, max_paths=MAX_PATHS):
    """All acyclic event paths of the function body.  Each path is a list of
    Ev; the last event is Ev('end', node) with node a Return / Raise or None
    (fall through)."""
    counter = [0]

    def block(stmts, cont):
        """cont: function(prefix-list) -> list of paths after this block
        completes normally.  Returns generator-like list builder."""
        def run(i, prefix, loopctx):
            if i == len(stmts):
                return cont(prefix, loopctx)
            st = stmts[i]
            nxt = lambda p, lc=loopctx: run(i + 1, p, lc)
            return stmt(st, prefix, nxt, loopctx)
        return run

    out = []

    def emit(prefix, endnode):
        counter[0] += 1
        if counter[0] > max_paths:
            raise AnalysisError('path explosion in %s'
                                % getattr(fn_node, 'name', '?'))
        out.append(prefix + [Ev('end', endnode)])

    def stmt(st, prefix, nxt, loopctx):
        if isinstance(st, ast.Return):
            emit(prefix + [Ev('stmt', st)], st)
            return
        if isinstance(st, ast.Raise):
            emit(prefix + [Ev('stmt', st)], st)
            return
        if isinstance(st, ast.Continue):
            if loopctx:
                loopctx['cont'](prefix + [Ev('stmt', st)])
            return
        if isinstance(st, ast.Break):
            if loopctx:
                loopctx['brk'](prefix + [Ev('stmt', st)])
            return
        if isinstance(st, ast.If):
            do_block(st.body, prefix + [Ev('test', st.test, True)], nxt,
                     loopctx)
            do_block(st.orelse, prefix + [Ev('test', st.test, False)], nxt,
                     loopctx)
            return
        if isinstance(st, (ast.For, ast.While)):
            is_true = isinstance(st, ast.While) and \
                isinstance(st.test, ast.Constant) and st.test.value is True
            after = lambda p: do_block(st.orelse, p, nxt, loopctx) \
                if getattr(st, 'orelse', None) else nxt(p)
            if not is_true:
                # zero iterations
                after(prefix + [Ev('loop', st, False)])
            lc = {'cont': lambda p: (after(p) if not is_true else None),
                  'brk': lambda p: nxt(p)}
            # one iteration, then leave (for `while True` the only way out
            # is return / break inside the body)
            def body_done(p, _lc=None):
                if not is_true:
                    after(p)
            do_block(st.body, prefix + [Ev('loop', st, True)], body_done, lc)
            return
        if isinstance(st, ast.Try):
            def after_body(p, _lc=None):
                if st.orelse:
                    do_block(st.orelse, p, after_all, loopctx)
                else:
                    after_all(p)

            def after_all(p, _lc=None):
                if st.finalbody:
                    do_block(st.finalbody, p, nxt, loopctx)
                else:
                    nxt(p)
            do_block(st.body, prefix, after_body, loopctx)
            for h in st.handlers:
                do_block(h.body, prefix + [Ev('test', h, True)], after_all,
                         loopctx)
            return
        if isinstance(st, ast.With):
            do_block(st.body, prefix + [Ev('stmt', st)], nxt, loopctx)
            return
        if isinstance(st, (ast.FunctionDef, ast.ClassDef)):
            nxt(prefix)
            return
        nxt(prefix + [Ev('stmt', st)])

    def do_block(stmts, prefix, cont, loopctx):
        def run(i, p):
            if i == len(stmts):
                cont(p)
                return
            stmt(stmts[i], p, lambda q, _lc=None: run(i + 1, q), loopctx)
        run(0, prefix)

    do_block(fn_node.body, [], lambda p, _lc=None: emit(p, None), None)
    return out


def calls_in(node):
    for n in ast.walk(node):
        if isinstance(n, ast.Call):
            yield n


def stores_in(node):
    """Yield (target node, value node) of assignments inside a statement."""
    if isinstance(node, ast.Assign):
        for t in node.targets:
            yield t, node.value
    elif isinstance(node, ast.AugAssign):
        yield node.target, node.value
    elif isinstance(node, ast.AnnAssign) and node.value is not None:
        yield node.target, node.value


def subscript_key(target):
    """info['stop'] -> ('info', 'stop') for constant string keys."""
    if isinstance(target, ast.Subscript) and isinstance(target.value, ast.Name):
        s = target.slice
        if isinstance(s, ast.Constant) and isinstance(s.value, str):
            return target.value.id, s.value
    return None


# ---------------------------------------------------------------------------
# Propositional entailment over recognised atoms.
def _formula(node, atomise, atoms):
    """-> nested tuple formula ('not', f) / ('and', [..]) / ('or', [..]) /
    ('atom', key) / ('const', bool)."""
    if isinstance(node, ast.UnaryOp) and isinstance(node.op, ast.Not):
        return ('not', _formula(node.operand, atomise, atoms))
    if isinstance(node, ast.BoolOp):
        return ('and' if isinstance(node.op, ast.And) else 'or',
                [_formula(v, atomise, atoms) for v in node.values])
    if isinstance(node, ast.Constant) and isinstance(node.value, bool):
        return ('const', node.value)
    if isinstance(node, ast.Compare) and len(node.ops) > 1:
        # a < b < c  ==  a < b and b < c
        parts = []
        ops = [node.left] + list(node.comparators)
        for i, op in enumerate(node.ops):
            c = ast.Compare(left=ops[i], ops=[op], comparators=[ops[i + 1]])
            parts.append(_formula(c, atomise, atoms))
        return ('and', parts)
    a = atomise(node)
    if a is None:
        # a comparison and its negation share one free atom
        key, pos = ast.dump(node), True
        if isinstance(node, ast.Compare) and len(node.ops) == 1 and \
                type(node.ops[0]) in _NEG:
            neg = ast.Compare(left=node.left,
                              ops=[_NEG[type(node.ops[0])]()],
                              comparators=node.comparators)
            k2 = ast.dump(neg)
            if k2 in atoms:
                key, pos = k2, False
    else:
        key, pos = a
    atoms.add(key)
    return ('atom', key) if pos else ('not', ('atom', key))


def _feval(f, asg):
    k = f[0]
    if k == 'atom':
        return asg[f[1]]
    if k == 'const':
        return f[1]
    if k == 'not':
        return not _feval(f[1], asg)
    if k == 'and':
        return all(_feval(x, asg) for x in f[1])
    return any(_feval(x, asg) for x in f[1])


def entails(guards, atomise, goal, max_atoms=12):
    """Do the guards (list of (test, polarity)) imply ``goal`` (a function of
    the truth assignment dict of the atoms)?  ``atomise(node)`` maps a leaf
    test to (atom key, positive?) or None (a free atom of its own).  Returns
    True / False, or None when there are too many atoms."""
    import itertools
    atoms = set()
    fs = []
    for t, pol in guards:
        f = _formula(t, atomise, atoms)
        fs.append(f if pol else ('not', f))
    atoms = sorted(atoms, key=repr)
    if len(atoms) > max_atoms:
        return None
    for vals in itertools.product((False, True), repeat=len(atoms)):
        asg = dict(zip(atoms, vals))
        if all(_feval(f, asg) for f in fs):
            try:
                if not goal(asg):
                    return False
            except KeyError:
                return False        # the goal's atoms do not occur at all
    return True
