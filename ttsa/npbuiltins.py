"""Python builtins and methods of arrays / lists / dicts / generators."""
import ast
from fractions import Fraction

from .poly import Poly, Lin, fn_atom, pmin, pmax, same, definitely_differ, \
    lower_bound, ONE
from .values import AV, TOP, NONE, BOOL, INT, FLOAT, STR, ARR, LIST, TUPLE, \
    DICT, EXT, GEN, NOCONST, from_const, join, join_all, join_dim
from .npcalls import DRAW_METHODS, _ds

EXC = {'ValueError', 'NotImplementedError', 'TypeError', 'KeyError',
       'AttributeError', 'AssertionError', 'Exception'}


class BuiltinsMixin:

    def call_builtin(self, name, pos, kw, node, env):
        h = getattr(self, 'b_' + name, None)
        if h is not None:
            return h(pos, kw, node, env)
        if name in EXC:
            return AV('exc', ext=name)
        return TOP('builtin:' + name)

    def b_len(self, pos, kw, node, env):
        v = pos[0] if pos else TOP()
        if v.k in ('list', 'tuple', 'iter'):
            if v.items is not None:
                return INT(len(v.items))
            return INT(v.p) if v.p is not None else INT()
        if v.k == 'set':
            return INT(len(v.items)) if v.items is not None else INT()
        if v.k == 'arr':
            if v.dims is not None and len(v.dims) >= 1 and v.dims[0] is not None:
                return INT(v.dims[0])
            return INT()
        if v.k == 'dict':
            if v.elem is None and v.label is None:
                return INT(len(v.keys))
            return INT()
        if v.k == 'str' and v.has_const():
            return INT(len(v.c))
        return INT()

    def b_range(self, pos, kw, node, env):
        if all(p.k in ('int', 'bool') and p.has_const() for p in pos) and pos:
            try:
                r = range(*[int(p.c) for p in pos])
            except Exception:
                return AV('iter', elem=INT())
            if len(r) <= 64:
                return AV('iter', items=[INT(i) for i in r])
            return AV('iter', elem=INT(), p=Poly.const(len(r)))
        if len(pos) == 1 and pos[0].k == 'int' and pos[0].p is not None:
            n = pos[0].p
            el = INT(Poly.sym(('i', self.I.where(), getattr(node, 'lineno', 0))))
            el.note = 'index'
            el.src = n
            return AV('iter', elem=el, p=n)
        if len(pos) >= 2 and all(p.k == 'int' and p.p is not None
                                 for p in pos):
            st = pos[2].p.as_int() if len(pos) > 2 else 1
            cnt = None
            if st == 1:
                cnt = pos[1].p - pos[0].p
            elif st == -1:
                cnt = pos[0].p - pos[1].p
            return AV('iter', elem=INT(Poly.sym(
                ('i', self.I.where(), getattr(node, 'lineno', 0)))), p=cnt)
        return AV('iter', elem=INT())

    def b_int(self, pos, kw, node, env):
        if not pos:
            return INT(0)
        v = pos[0]
        if v.doc:
            self.site('S-kind', node, 'violation',
                      'the value of parameter %s, documented as float, is '
                      'converted with int(): fractional values are truncated '
                      'silently' % v.doc.split(':')[-1])
        if v.has_const() and isinstance(v.c, (int, float, bool)):
            try:
                return INT(int(v.c))
            except (OverflowError, ValueError):
                return INT()
        if v.k in ('int', 'bool'):
            return v if v.k == 'int' else INT(v.p)
        if v.k == 'float' and v.p is not None:
            # int(np.floor(np.log2(x))) etc.: integer exponent atom
            r = INT(fn_atom('int', v.p))
            return r
        if v.k == 'float' and v.note == 'log2':
            r = INT(self.I.fresh('ilog2', node))
            r.note = 'ilog2'
            r.src = v.src
            return r
        return INT(self.I.fresh('int', node))

    def b_float(self, pos, kw, node, env):
        if pos and pos[0].has_const() and isinstance(pos[0].c, (int, float)):
            return FLOAT(float(pos[0].c))
        v = pos[0] if pos else None
        if v is not None and v.k in ('float', 'int'):
            return FLOAT(taint=v.taint, lg=v.lg, unit=v.unit, deg=v.deg)
        return FLOAT(taint=v.taint if v is not None else frozenset())

    def b_bool(self, pos, kw, node, env):
        t = self.I.truth(pos[0]) if pos else False
        return BOOL(t) if t is not None else BOOL()

    def b_str(self, pos, kw, node, env):
        return STR()

    b_repr = b_str

    def b_abs(self, pos, kw, node, env):
        v = pos[0] if pos else TOP()
        if v.has_const() and isinstance(v.c, (int, float)):
            r = from_const(abs(v.c))
            r.unit, r.lg, r.deg = v.unit, v.lg, v.deg
            return r
        if v.k in ('int', 'float'):
            return v.copy(nonneg=True, c=NOCONST, note=None)
        if v.k == 'arr':
            return v.copy(org=frozenset(), nonneg=True, orth=None)
        return TOP()

    def _minmax(self, pos, kw, node, env, is_min):
        vals = pos
        if len(pos) == 1:
            v = pos[0]
            if v.k in ('list', 'tuple', 'iter') and v.items is not None:
                vals = v.items
            elif v.k in ('list', 'tuple', 'iter') and v.elem is not None:
                return v.elem
            elif v.k == 'arr' and v.items is not None:
                vals = v.items
            elif v.k == 'arr':
                return self.I.scalar_of(v)
            else:
                return TOP()
        if not vals:
            return TOP()
        if all(x.k in ('int', 'bool') and x.p is not None for x in vals):
            r = vals[0].p
            for x in vals[1:]:
                r = pmin(r, x.p) if is_min else pmax(r, x.p)
            return INT(r)
        if all(x.has_const() and isinstance(x.c, (int, float)) for x in vals):
            return from_const((min if is_min else max)(x.c for x in vals))
        if all(x.k in ('int', 'float', 'bool') for x in vals):
            # mixed int / float (e.g. min(int(r), len(s)) with r = 1e12)
            ints = [x for x in vals if x.k in ('int', 'bool')]
            if len(ints) == len(vals):
                return INT(self.I.fresh('mm', node))
            r = FLOAT()
            r.taint = frozenset().union(*[x.taint for x in vals])
            return r
        return TOP()

    def b_min(self, pos, kw, node, env):
        return self._minmax(pos, kw, node, env, True)

    def b_max(self, pos, kw, node, env):
        return self._minmax(pos, kw, node, env, False)

    def b_sum(self, pos, kw, node, env):
        v = pos[0] if pos else TOP()
        if v.k in ('list', 'tuple', 'iter') and v.items is not None:
            if all(x.k == 'int' and x.p is not None for x in v.items):
                t = Poly.const(0)
                for x in v.items:
                    t = t + x.p
                return INT(t)
            if v.items:
                return join_all(v.items)
        if v.k in ('list', 'tuple', 'iter') and v.elem is not None:
            return v.elem if v.elem.k != 'int' else INT()
        return TOP()

    def b_list(self, pos, kw, node, env):
        if not pos:
            return LIST([])
        v = pos[0]
        items, elem, cnt = self.I.iter_model(v, None)
        if items is not None:
            return LIST(list(items))
        return LIST(elem=elem, length=cnt)

    def b_tuple(self, pos, kw, node, env):
        if not pos:
            return TUPLE([])
        items, elem, cnt = self.I.iter_model(pos[0], None)
        if items is not None:
            return TUPLE(list(items))
        return AV('tuple', elem=elem, p=cnt)

    def b_dict(self, pos, kw, node, env):
        d = DICT(dict(kw))
        if pos:
            v = pos[0]
            if v.k == 'dict':
                d.keys.update(v.keys)
                d.elem = v.elem
        return d

    def b_set(self, pos, kw, node, env):
        if not pos:
            return self.I.make_set([])
        v = pos[0]
        if v.k in ('list', 'tuple', 'iter', 'set') and v.items is not None:
            return self.I.make_set(v.items)
        return AV('set')

    def b_zip(self, pos, kw, node, env):
        models = [self.I.iter_model(p, None) for p in pos]
        if all(m[0] is not None for m in models):
            n = min(len(m[0]) for m in models) if models else 0
            return AV('iter', items=[TUPLE([m[0][i] for m in models])
                                     for i in range(n)])
        els = []
        cnt = None
        for items, elem, c in models:
            if items is not None:
                els.append(join_all(items) if items else TOP())
                c = Poly.const(len(items))
            else:
                els.append(elem if elem is not None else TOP())
            if c is not None:
                cnt = c if cnt is None else (cnt if same(cnt, c)
                                             else pmin(cnt, c))
        return AV('iter', elem=TUPLE(els), p=cnt)

    def b_enumerate(self, pos, kw, node, env):
        start = self.kwarg(pos, kw, 1, 'start')
        s0 = start.c if start is not None and start.has_const() else 0
        items, elem, cnt = self.I.iter_model(pos[0], None)
        if items is not None:
            return AV('iter', items=[TUPLE([INT(i + s0), x])
                                     for i, x in enumerate(items)])
        return AV('iter', elem=TUPLE([INT(Poly.sym(
            ('i', self.I.where(), getattr(node, 'lineno', 0)))),
            elem if elem is not None else TOP()]), p=cnt)

    def b_reversed(self, pos, kw, node, env):
        items, elem, cnt = self.I.iter_model(pos[0], None)
        if items is not None:
            return AV('iter', items=list(reversed(items)))
        return AV('iter', elem=elem, p=cnt)

    def b_sorted(self, pos, kw, node, env):
        items, elem, cnt = self.I.iter_model(pos[0], None)
        if items is not None:
            return LIST(elem=join_all(items) if items else None,
                        length=Poly.const(len(items)))
        return LIST(elem=elem, length=cnt)

    def b_isinstance(self, pos, kw, node, env):
        if len(pos) != 2:
            return BOOL()
        v, t = pos
        types = t.items if t.k == 'tuple' and t.items is not None else [t]
        names = []
        for x in types:
            if x.k == 'builtin':
                names.append(x.ext)
            elif x.k == 'ext':
                names.append(x.ext)
            elif x.k == 'class':
                names.append('class:' + x.cls.qualname)
            else:
                return BOOL()
        if v.k == 'top' or v.maybe_none:
            return BOOL()
        kind_names = {
            'int': {'int', 'numpy.int32', 'numpy.int64', 'numpy.integer'},
            'bool': {'int', 'bool'},
            'float': {'float', 'numpy.float32', 'numpy.float64',
                      'numpy.floating'},
            'str': {'str'},
            'list': {'list'},
            'tuple': {'tuple'},
            'dict': {'dict'},
            'arr': {'numpy.ndarray'},
            'none': set(),
            'func': set(),
            'gen': {'numpy.random.Generator'},
            'obj': set(),
        }
        mine = kind_names.get(v.k)
        if mine is None:
            return BOOL()
        if v.k == 'obj' and v.cls is not None:
            mine = {'class:' + v.cls.qualname}
        # numpy scalars: an 'int' abstract value may be a numpy integer
        if v.k in ('int', 'float') and not v.has_const() and \
                v.note != 'pyint':
            if any(n in ('int', 'float') for n in names) and \
                    not any(n.startswith('numpy.') for n in names):
                # could be numpy scalar type -> isinstance(…, (int, float))
                # is False for np.int64; teneva treats those as arrays
                if v.note == 'npscalar':
                    return BOOL()
        if v.k == 'int' and v.note == 'npint':
            # np.int64 is an np.integer / np.generic, not a Python int
            return BOOL(bool({'numpy.int32', 'numpy.int64', 'numpy.integer',
                              'numpy.generic', 'numpy.number'} & set(names)))
        return BOOL(bool(mine & set(names)))

    def b_print(self, pos, kw, node, env):
        return NONE()

    def _anyall(self, pos, is_any):
        if not pos:
            return BOOL()
        v = pos[0]
        items = None
        if v.k in ('list', 'tuple', 'iter'):
            items, elem, cnt = self.I.iter_model(v, None)
        if items is None:
            return BOOL()
        ts = [self.I.truth(x) for x in items]
        if is_any:
            if any(t is True for t in ts):
                return BOOL(True)
            if all(t is False for t in ts):
                return BOOL(False)
        else:
            if any(t is False for t in ts):
                return BOOL(False)
            if all(t is True for t in ts):
                return BOOL(True)
        return BOOL()

    def b_any(self, pos, kw, node, env):
        return self._anyall(pos, True)

    def b_all(self, pos, kw, node, env):
        return self._anyall(pos, False)

    def b_round(self, pos, kw, node, env):
        return FLOAT()

    def b_type(self, pos, kw, node, env):
        return TOP()

    def b_divmod(self, pos, kw, node, env):
        return TUPLE([INT(), INT()])

    def b_map(self, pos, kw, node, env):
        # map(f, seq) over a sequence of known items: one call per item
        if len(pos) == 2 and pos[1].k in ('list', 'tuple', 'iter') and \
                pos[1].items is not None and len(pos[1].items) <= 16:
            try:
                return AV('iter', items=[
                    self.I.call(pos[0], [x], {}, node, env)
                    for x in pos[1].items])
            except Exception:
                pass
        return AV('iter', elem=TOP())

    def b_filter(self, pos, kw, node, env):
        return AV('iter', elem=TOP())

    def b_open(self, pos, kw, node, env):
        return TOP()

    def b_getattr(self, pos, kw, node, env):
        return TOP()

    def b_pow(self, pos, kw, node, env):
        if len(pos) == 2:
            return self.num_binop('**', pos[0], pos[1], node, env)
        return TOP()

    # ------------------------------------------------------------------
    # methods
    def call_method(self, recv, name, pos, kw, node, env):
        k = recv.k
        if k == 'arr' or (k == 'top' and name in ARR_METHODS):
            return self.arr_method(self.as_arr(recv) if k != 'arr' else recv,
                                   name, pos, kw, node, env)
        if k == 'list':
            return self.list_method(recv, name, pos, kw, node, env)
        if k == 'dict':
            return self.dict_method(recv, name, pos, kw, node, env)
        if k == 'set':
            if recv.items is not None and name == 'pop' and recv.items:
                if self.I.weak == 0 and len(recv.items) == 1:
                    return recv.items.pop()
                r = join_all(list(recv.items))
                recv.items = None
                return r
            if name in ('add', 'update', 'discard', 'remove', 'pop',
                        'clear', 'difference_update',
                        'intersection_update'):
                recv.items = None
            return TOP() if name in ('pop',) else \
                (AV('set') if name in ('union', 'intersection', 'difference',
                                       'copy', 'symmetric_difference')
                 else TOP())
        if k == 'gen' or (name in DRAW_METHODS and k in ('top', 'ext')):
            return self.gen_method(recv, name, pos, kw, node, env)
        if k == 'str':
            if name == 'startswith' and recv.has_const() and pos and \
                    pos[0].has_const():
                return BOOL(recv.c.startswith(pos[0].c))
            if name in ('startswith', 'endswith'):
                return BOOL()
            return STR()
        if k in ('float', 'int'):
            if name == 'item':
                return recv
            if name in ('reshape', 'copy', 'astype'):
                return self.arr_method(self.as_arr(recv), name, pos, kw, node,
                                       env)
        if k == 'tuple' and name in ('index', 'count'):
            return INT()
        if k == 'top':
            # unknown receiver: a draw-like or mutating method on something
            # that may alias an argument
            if name in MUTATORS and recv.org:
                self.I.effect('array-write', recv, node)
            t = TOP()
            return t
        return TOP()

    def order_site(self, name, pos, kw, node):
        """S-order: flatten / ravel / reshape with order 'K' or 'A' enumerate
        the elements in MEMORY order: the result depends on whether the
        caller's array happens to be C- or F-contiguous or a transposed view,
        not on its index order."""
        o = kw.get('order')
        if o is None and name in ('flatten', 'ravel') and pos and \
                pos[0].k == 'str':
            o = pos[0]
        if o is not None and o.has_const() and o.c in ('K', 'A', 'k', 'a'):
            self.I.site('S-order', node, 'violation',
                        '%s(order=%r) enumerates the elements in memory '
                        'order: a Fortran-ordered or transposed argument '
                        'gives another result than a C-ordered one with the '
                        'same entries' % (name, o.c))

    def arr_method(self, a, name, pos, kw, node, env):
        I = self.I
        if name in ('reshape', 'flatten', 'ravel'):
            self.order_site(name, pos, kw, node)
        if name == 'reshape':
            order = kw.get('order')
            o = order.c if order is not None and order.has_const() else 'C'
            if len(pos) == 1:
                sh = pos[0]
            else:
                sh = TUPLE(pos)
            return self.do_reshape(a, sh, o, node)
        if name == 'copy':
            return a.copy(org=frozenset())
        if name == 'astype':
            dt = self.dtype_arg(pos[0] if pos else kw.get('dtype'), None)
            return a.copy(org=frozenset(), dt=dt)
        if name in ('flatten', 'ravel'):
            tot = None
            if a.dims is not None and all(d is not None for d in a.dims):
                tot = ONE
                for d in a.dims:
                    tot = tot * d
            r = a.copy(dims=(tot,), orth=None, lay=None)
            if name == 'flatten':
                r.org = frozenset()
            return r
        if name == 'item':
            if a.dims is not None and all(d is not None for d in a.dims):
                tot = ONE
                for d in a.dims:
                    tot = tot * d
                if tot.as_int() == 1:
                    self.site('S-item', node, 'ok')
                elif definitely_differ(tot, ONE):
                    self.site('S-item', node, 'violation',
                              '.item() on an array of shape %s' % _ds(a.dims))
                else:
                    self.site('S-item', node, 'unknown', repr(tot))
            return I.scalar_of(a)
        if name in ('sum', 'max', 'min', 'prod'):
            r = self.reduce(a, self.kwarg(pos, kw, 0, 'axis'), node)
            r.lg, r.unit, r.deg = a.lg, a.unit, a.deg
            r.nonneg = a.nonneg
            if name == 'sum' and a.dt == 'b' and r.k != 'arr':
                r = INT(a.rel[1]) if isinstance(a.rel, tuple) and \
                    a.rel[0] == 'prefix' else INT(I.fresh('count', node))
            if name == 'sum':
                self._mark_sum(r, a, self.kwarg(pos, kw, 0, 'axis'))
            self.red_kind(r, a, name)
            return r
        if name == 'mean':
            r = self.reduce(a, self.kwarg(pos, kw, 0, 'axis'), node, dt='f')
            if r.k == 'int':
                r = FLOAT(taint=a.taint)
            self.red_kind(r, a, name)
            return r
        if name in ('any', 'all'):
            if a.dt not in ('b', None) and a.idx == 'where':
                self.site('K-empty', node, 'violation',
                          '.%s() on an index array (result of np.where): its '
                          'truth value tests the index values, not emptiness'
                          % name)
            elif a.dt == 'b':
                self.site('K-empty', node, 'ok', 'boolean mask')
            r = self.reduce(a, self.kwarg(pos, kw, 0, 'axis'), node, dt='b')
            return BOOL() if r.k != 'arr' else r
        if name in ('argmax', 'argmin'):
            axv = self.kwarg(pos, kw, 0, 'axis')
            if axv is None or axv.k == 'none':
                return INT()
            return self.reduce(a, axv, node, dt='i')
        if name == 'transpose':
            if len(pos) == 0:
                return self.arr_attr(a, 'T', node)
            axes = pos[0] if len(pos) == 1 else TUPLE(pos)
            return self.do_transpose(a, axes, node)
        if name == 'dot':
            return self.matmul(a, self.as_arr(pos[0]), node) if pos else TOP()
        if name == 'sort':
            I.effect('array-write', a, node)
            return NONE()
        if name == 'fill':
            I.effect('array-write', a, node)
            return NONE()
        if name in ('resize', 'put', 'itemset', 'partition', 'setfield'):
            I.effect('array-write', a, node)
            return NONE()
        if name == 'tolist':
            return LIST(elem=TOP())
        if name == 'squeeze':
            return self.do_squeeze(a, self.kwarg(pos, kw, 0, 'axis'), node)
        if name == 'conj':
            return a.copy()
        if name == 'cumsum':
            return a.copy(org=frozenset())
        return TOP('arr.' + name)

    def list_method(self, lst, name, pos, kw, node, env):
        I = self.I
        if name == 'append':
            I.effect('list-write', lst, node)
            v = pos[0] if pos else TOP()
            if lst.items is not None and I.weak == 0:
                lst.items.append(v)
            else:
                I.list_extend(lst, LIST([v]))
            return NONE()
        if name == 'extend':
            I.effect('list-write', lst, node)
            v = pos[0] if pos else TOP()
            items, elem, cnt = I.iter_model(v, None)
            I.list_extend(lst, LIST(items) if items is not None
                          else LIST(elem=elem))
            return NONE()
        if name == 'insert':
            I.effect('list-write', lst, node)
            if lst.items is not None and pos and pos[0].has_const() and \
                    I.weak == 0:
                lst.items.insert(pos[0].c, pos[1])
            else:
                I.list_extend(lst, LIST([pos[1] if len(pos) > 1 else TOP()]))
            return NONE()
        if name in ('pop', 'remove', 'clear', 'sort', 'reverse'):
            I.effect('list-write', lst, node)
            if name == 'pop':
                if lst.items:
                    r = lst.items[-1]
                    if I.weak == 0 and (not pos):
                        lst.items.pop()
                    else:
                        el = join_all(lst.items)
                        lst.items = None
                        lst.elem = el
                    return r
                return lst.elem if lst.elem is not None else TOP()
            if name in ('sort', 'reverse') and lst.items is not None:
                el = join_all(lst.items) if lst.items else None
                if name == 'reverse' and I.weak == 0:
                    lst.items.reverse()
                else:
                    n = len(lst.items)
                    lst.items = [el] * n if el is not None else []
            return NONE()
        if name == 'copy':
            return LIST(list(lst.items)) if lst.items is not None else \
                LIST(elem=lst.elem)
        if name in ('index', 'count'):
            return INT()
        return TOP()

    def dict_method(self, d, name, pos, kw, node, env):
        I = self.I
        if name == 'update':
            I.effect('dict-write', d, node)
            src = pos[0] if pos else None
            if src is not None and src.k == 'dict':
                for k_, v in src.keys.items():
                    if I.weak > 0 and k_ in d.keys:
                        d.keys[k_] = join(d.keys[k_], v)
                    else:
                        d.keys[k_] = v
                if src.elem is not None:
                    d.elem = src.elem if d.elem is None else join(d.elem,
                                                                   src.elem)
            for k_, v in kw.items():
                d.keys[k_] = v
            return NONE()
        if name == 'get':
            key = pos[0] if pos else None
            dflt = pos[1] if len(pos) > 1 else NONE()
            if key is not None and key.has_const():
                if key.c in d.keys:
                    v = d.keys[key.c]
                    return v
                if d.elem is None and d.label is None:
                    return dflt
                return join(d.elem, dflt) if d.elem is not None else \
                    join(TOP(), dflt)
            return TOP()
        if name == 'keys':
            if d.elem is None:
                return AV('iter', items=[from_const(k_) for k_ in d.keys])
            return AV('iter', elem=TOP())
        if name == 'values':
            if d.elem is None:
                return AV('iter', items=list(d.keys.values()))
            return AV('iter', elem=join_all(list(d.keys.values()) + [d.elem]))
        if name == 'items':
            if d.elem is None:
                return AV('iter', items=[TUPLE([from_const(k_), v])
                                         for k_, v in d.keys.items()])
            return AV('iter', elem=TUPLE([TOP(), TOP()]))
        if name in ('pop', 'setdefault', 'clear', 'popitem'):
            I.effect('dict-write', d, node)
            return TOP()
        if name == 'copy':
            return DICT(dict(d.keys), elem=d.elem)
        return TOP()

    def gen_method(self, g, name, pos, kw, node, env):
        I = self.I
        if name not in DRAW_METHODS:
            return TOP()
        I.draws.append((name, g, node, I.mod(), I.where(), pos, kw))
        pv = g.pv if g.k == 'gen' else None
        if g.k == 'ext':
            pv = 'global'
        if pv in ('seeded', 'param'):
            self.site('R-draw', node, 'ok', 'generator provenance: %s' % pv)
        elif pv == 'global':
            self.site('R-draw', node, 'violation',
                      'draw from a generator that is not derived from the '
                      'seed argument')
        else:
            self.site('R-draw', node, 'unknown', 'receiver provenance unknown')
        size = kw.get('size')
        if name == 'shuffle':
            if pos:
                I.effect('array-write', pos[0], node)
            return NONE()
        if name == 'permutation':
            v = pos[0] if pos else TOP()
            if v.k == 'int':
                return ARR((v.p,), 'i')
            a = self.as_arr(v)
            return a.copy(org=frozenset())
        if name == 'choice':
            a = pos[0] if pos else TOP()
            if size is None and len(pos) > 1:
                size = pos[1]
            pv_ = kw.get('p')
            if pv_ is not None:
                pa = self.as_arr(pv_)
                ok = pa.nonneg and pa.normed
                self.site('N-prob', node, 'ok' if ok else 'unknown',
                          'p= nonneg=%s normalised=%s' % (pa.nonneg, pa.normed))
                if a.k == 'int' and pa.dims is not None and \
                        len(pa.dims) == 1:
                    self.unify(a.p, pa.dims[0], node, 'S-choice',
                               {'n': a.p, 'p': _ds(pa.dims)},
                               what='population and probability vector')
            dt = 'i' if a.k == 'int' or (a.k == 'arr' and a.dt == 'i') else None
            if size is None or size.k == 'none':
                r = INT() if dt == 'i' else TOP()
                return r
            sh = self.shape_arg(size)
            return ARR(sh, dt)
        # normal / uniform / ...
        if size is None:
            if name == 'normal' and len(pos) > 2:
                size = pos[2]
            elif name == 'uniform' and len(pos) > 2:
                size = pos[2]
            elif name in ('random', 'standard_normal') and pos:
                size = pos[0]
        if size is None or size.k == 'none':
            return FLOAT()
        sh = self.shape_arg(size)
        return ARR(sh, 'f')


ARR_METHODS = {'reshape', 'copy', 'astype', 'flatten', 'ravel', 'item', 'sum',
               'max', 'min', 'mean', 'any', 'all', 'argmax', 'argmin',
               'transpose', 'dot', 'sort', 'fill', 'prod', 'tolist',
               'squeeze', 'cumsum'}
MUTATORS = {'sort', 'fill', 'append', 'extend', 'insert', 'pop', 'update',
            'resize', 'clear', 'remove', 'reverse'}
