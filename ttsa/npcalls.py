"""Transfer functions for calls of NumPy / SciPy / opt_einsum / stdlib."""
import ast
from fractions import Fraction

from .poly import Poly, Lin, fn_atom, pmin, pmax, same, definitely_differ, \
    lower_bound, ONE
from .values import AV, TOP, NONE, BOOL, INT, FLOAT, STR, ARR, LIST, TUPLE, \
    DICT, EXT, GEN, NOCONST, from_const, join, join_all, join_dim

SHAPE_PRESERVING = {
    'numpy.abs', 'numpy.sqrt', 'numpy.cos', 'numpy.sin', 'numpy.arccos',
    'numpy.exp', 'numpy.log', 'numpy.log2', 'numpy.floor', 'numpy.ceil',
    'numpy.rint', 'numpy.real', 'numpy.imag', 'numpy.isinf', 'numpy.isnan',
    'numpy.isfinite', 'numpy.cumsum', 'numpy.sort', 'numpy.argsort',
    'numpy.flipud', 'numpy.fliplr', 'numpy.sign', 'numpy.absolute',
    'numpy.negative', 'numpy.square', 'numpy.conj', 'numpy.tanh',
    'numpy.fft.fft', 'numpy.fft.ifft', 'scipy.fftpack.dct',
    'scipy.fftpack.dst', 'numpy.nan_to_num',
}

def is_num(v):
    return v.k in ('int', 'float', 'bool')


_SIG_CACHE = {}
_OPERAND_NAMES = {'a', 'b', 'x', 'y', 'arr', 'ar', 'array', 'm', 'v', 'x1',
                  'x2', 'a1', 'a2', 'M', 'c', 'object', 'A', 'B', 'ary',
                  'condition', 'tup', 'arrays', 'seq', 'a_min', 'a_max'}


def _leading_keywords(name, pos, kw):
    """Arguments of an external routine passed by keyword in the leading
    positional slots (``rq(a=G, mode=..)``) are moved to their positions, so
    that the models can read ``pos[k]``.  The parameter order comes from
    ``inspect.signature`` of the installed callable (no call is made)."""
    if not kw or not (name.startswith('numpy.') or name.startswith('scipy.')):
        return pos, kw
    if name not in _SIG_CACHE:
        params = None
        try:
            import importlib
            import inspect
            modname, _, attr = name.rpartition('.')
            obj = getattr(importlib.import_module(modname), attr)
            params = [p.name for p in inspect.signature(obj).parameters.values()
                      if p.kind in (p.POSITIONAL_ONLY, p.POSITIONAL_OR_KEYWORD)]
        except Exception:
            params = None
        _SIG_CACHE[name] = params
    params = _SIG_CACHE[name]
    if not params:
        return pos, kw
    pos = list(pos)
    kw = dict(kw)
    # only the array operands (options such as order= / axis= / mode= are
    # read by name in the models)
    while len(pos) < len(params) and params[len(pos)] in kw and \
            params[len(pos)] in _OPERAND_NAMES:
        pos.append(kw.pop(params[len(pos)]))
    return pos, kw


UFUNC_BINOPS = {'add': ast.Add, 'subtract': ast.Sub, 'multiply': ast.Mult,
                'true_divide': ast.Div, 'floor_divide': ast.FloorDiv,
                'power': ast.Pow, 'mod': ast.Mod, 'remainder': ast.Mod}
DRAW_METHODS = {'choice', 'normal', 'uniform', 'permutation', 'shuffle',
                'integers', 'random', 'standard_normal', 'randn', 'rand',
                'randint', 'random_sample', 'exponential', 'beta', 'gamma',
                'binomial', 'poisson', 'multinomial', 'bytes', 'permuted',
                'standard_exponential', 'laplace', 'lognormal'}


_MODE_RE = None


def is_mode_extent(p):
    """True when the extent is a product of mode-size symbols of an argument
    (named <arg>.n<k> / n.<k> by the entry specs), i.e. a sum over this axis
    runs over tensor indices rather than over a bond."""
    global _MODE_RE
    import re
    if _MODE_RE is None:
        _MODE_RE = re.compile(r'(^|\.)n\.?\d+$')
    ats = p.atoms()
    return bool(ats) and all(isinstance(a, str) and _MODE_RE.search(a)
                             for a in ats) and p.as_int() is None


class CallsMixin:

    # ------------------------------------------------------------------
    def shape_arg(self, v):
        """A shape argument -> tuple of Poly|None, or None."""
        if v is None:
            return None
        if v.k in ('int', 'bool'):
            return (v.p,)
        if v.k == 'float':
            return (None,)
        if v.k in ('tuple', 'list', 'iter'):
            if v.items is None:
                return None
            out = []
            for x in v.items:
                if x.k in ('int', 'bool'):
                    out.append(x.p)
                elif x.k == 'starred':
                    return None
                else:
                    out.append(None)
            return tuple(out)
        if v.k == 'arr' and v.items is not None:
            return tuple(x.p for x in v.items)
        if v.k == 'arr' and v.dims is not None and len(v.dims) == 1 and \
                v.dims[0] is not None and v.dims[0].as_int() is not None:
            return (None,) * v.dims[0].as_int()
        return None

    def dtype_arg(self, v, default='f'):
        if v is None:
            return default
        if v.k == 'builtin':
            return {'int': 'i', 'float': 'f', 'bool': 'b', 'object': 'o',
                    'complex': 'c'}.get(v.ext, None)
        if v.k == 'dtype':
            return v.ext
        if v.k == 'ext':
            n = v.ext
            if 'int' in n:
                return 'i'
            if 'float' in n:
                return 'f'
            if 'bool' in n:
                return 'b'
        return None

    def as_arr(self, v):
        """View an abstract value as an array (for np functions)."""
        if v.k == 'arr':
            return v
        if v.k in ('int', 'bool'):
            return ARR((), 'i', taint=v.taint)
        if v.k == 'float':
            return ARR((), 'f', doc=v.doc, taint=v.taint, lg=v.lg, unit=v.unit,
                       deg=v.deg)
        if v.k in ('list', 'tuple', 'iter'):
            return self.array_from_seq(v)
        if v.k == 'top':
            return ARR(None, None, org=v.org, taint=v.taint)
        return ARR(None, None)

    def array_from_seq(self, v):
        if v.items is not None and any(x.k == 'top' for x in v.items):
            return ARR(None, None)
        if v.items is not None:
            n = Poly.const(len(v.items))
            if not v.items:
                return ARR((Poly.const(0),), 'f')
            subs = [self.as_arr(x) if x.k not in ('starred',) else ARR(None)
                    for x in v.items]
            d0 = subs[0].dims
            dt = subs[0].dt
            ok = d0 is not None
            for s in subs[1:]:
                if s.dims is None or d0 is None or len(s.dims) != len(d0):
                    ok = False
                    break
                d0 = tuple(join_dim(a, b) for a, b in zip(d0, s.dims))
                if s.dt != dt:
                    dt = 'f' if {s.dt, dt} <= {'i', 'f', 'b'} else None
            r = ARR((n,) + tuple(d0), dt) if ok else ARR(None, dt)
            r.taint = frozenset().union(*[x.taint for x in v.items])
            if all(x.k in ('int', 'bool') for x in v.items) and \
                    len(v.items) <= 64:
                r.items = [x if x.k == 'int' else INT(x.p) for x in v.items]
                r.dt = 'i'
            return r
        el = v.elem
        if el is None:
            return ARR(None)
        s = self.as_arr(el)
        if s.dims is None:
            return ARR(None, s.dt, taint=s.taint)
        return ARR((v.p,) + tuple(s.dims), s.dt, taint=s.taint)

    def kwarg(self, pos, kw, i, name, default=None):
        if name in kw:
            return kw[name]
        if i is not None and i < len(pos):
            return pos[i]
        return default

    def axis_val(self, v):
        if v is None or v.k == 'none':
            return None
        if v.k == 'int' and v.has_const():
            return v.c
        return 'unknown'

    # ------------------------------------------------------------------
    def call_ext(self, name, pos, kw, node, env):
        I = self.I
        short = name.split('.')[-1]
        pos, kw = _leading_keywords(name, pos, kw)
        h = getattr(self, 'x_' + name.replace('.', '_'), None)
        if h is None and name.startswith('numpy.') and name.count('.') == 1:
            h = getattr(self, 'n_' + short, None)
        # SciPy's overwrite_a / overwrite_b let LAPACK destroy the first /
        # second operand: an in-place write to whatever storage it shares
        if name.startswith('scipy.') and short not in ('lstsq',):
            for flag, i_, alt in (('overwrite_a', 0, 'a'),
                                  ('overwrite_b', 1, 'b'),
                                  # transforms (scipy.fft / scipy.fftpack)
                                  ('overwrite_x', 0, 'x')):
                fv = kw.get(flag)
                if fv is not None and I.truth(fv) is not False:
                    raw = kw.get(alt) if alt in kw else (
                        pos[i_] if i_ < len(pos) else None)
                    if raw is not None:
                        I.effect('array-write', raw, node)
                        self.site('A-overwrite', node, 'ok',
                                  '%s operand origins %s' % (
                                      flag, sorted(map(repr, raw.org))),
                                  construct='%s=True' % flag)
        if h is None and name.startswith('numpy.') and name.count('.') == 1 \
                and short in UFUNC_BINOPS and len(pos) >= 2:
            # function form of an arithmetic operator
            def h(pos, kw, node, env, _op=UFUNC_BINOPS[short]):
                a, b = pos[0], pos[1]
                if not is_num(a) or not is_num(b):
                    a = a if a.k == 'arr' or is_num(a) else self.as_arr(a)
                    b = b if b.k == 'arr' or is_num(b) else self.as_arr(b)
                return self.binop(_op(), a, b, node, env=env)
        if h is not None:
            r = h(pos, kw, node, env)
            self.out_write(r, kw, node, env)
            return r
        if name in SHAPE_PRESERVING:
            r = self.elementwise(name, pos, kw, node, env)
            self.out_write(r, kw, node, env)
            return r
        if name.startswith('numpy.random.'):
            return self.global_random(name, pos, kw, node)
        if name in ('time.perf_counter',):
            return FLOAT(note='clock')
        if name == 'itertools.product':
            return AV('iter', elem=AV('tuple', items=[
                self._elem_of(p) for p in pos]))
        if name == 'functools.reduce':
            # fold of a list of known length with a package function
            f_ = pos[0] if pos else None
            seq = pos[1] if len(pos) > 1 else None
            init = pos[2] if len(pos) > 2 else kw.get('initial')
            if f_ is not None and seq is not None and \
                    seq.k in ('list', 'tuple') and seq.items is not None:
                items = list(seq.items)
                if init is None:
                    if not items:
                        return TOP()
                    acc, items = items[0], items[1:]
                else:
                    acc = init
                for it in items:
                    acc = I.call(f_, [acc, it], {}, node, env)
                return acc
            return TOP()
        # unmodelled external call
        I.site('M-unmodelled', node, 'unknown', name, construct=name)
        t = TOP('ext:' + name)
        return t

    def out_write(self, r, kw, node, env):
        """``out=<target>``: the result is stored into the buffer of the
        target expression (same object, new contents)."""
        if 'out' not in kw or not isinstance(node, ast.Call) or env is None:
            return
        if kw['out'].k == 'none' or r is None or r.k != 'arr':
            return
        tn = None
        for k_ in node.keywords:
            if k_.arg == 'out':
                tn = k_.value
        if tn is not None:
            self.I.write_through(tn, r, env, node)

    def _elem_of(self, v):
        items, elem, cnt = self.I.iter_model(v, None)
        if items is not None:
            return join_all(items) if items else TOP()
        return elem if elem is not None else TOP()

    # ------------------------------------------------------------------
    # creation
    def _create(self, pos, kw, node, default_dt='f', uninit=False):
        sh = self.shape_arg(self.kwarg(pos, kw, 0, 'shape'))
        dtv = self.kwarg(pos, kw, 1, 'dtype')
        dt = self.dtype_arg(dtv, default_dt)
        r = ARR(sh, dt)
        r.uninit = uninit
        return r

    def n_zeros(self, pos, kw, node, env):
        r = self._create(pos, kw, node)
        r.nonneg = True
        r.note = 'zeros'
        if r.dt == 'i' and r.dims is not None and len(r.dims) == 1 and \
                r.dims[0] is not None \
                and r.dims[0].as_int() is not None and \
                0 <= r.dims[0].as_int() <= 16:
            # a short integer vector (mode sizes, counters) is kept exactly
            r.items = [INT(0) for _ in range(r.dims[0].as_int())]
        return r

    def n_ones(self, pos, kw, node, env):
        r = self._create(pos, kw, node)
        r.nonneg = True
        r.note = 'nonzero'
        r.src = 'ones'
        r.cnt = (ONE, ONE)
        if r.dt == 'i' and r.dims is not None and len(r.dims) == 1 and \
                r.dims[0] is not None \
                and r.dims[0].as_int() is not None and \
                0 <= r.dims[0].as_int() <= 16:
            r.items = [INT(1) for _ in range(r.dims[0].as_int())]
        return r

    def _like(self, pos, kw, node, uninit=False):
        a = self.as_arr(pos[0]) if pos else ARR(None)
        shv = kw.get('shape')
        dims = a.dims
        if shv is not None and shv.k != 'none':
            sh = self.shape_arg(shv)
            dims = tuple(sh) if sh is not None else None
        dtv = self.kwarg(pos, kw, 1, 'dtype')
        dt = a.dt
        if dtv is not None and dtv.k != 'none':
            dt = self.dtype_arg(dtv, a.dt)
        r = ARR(dims, dt)
        r.uninit = uninit
        return r

    def n_zeros_like(self, pos, kw, node, env):
        r = self._like(pos, kw, node)
        r.nonneg = True
        r.note = 'zeros'
        return r

    def n_ones_like(self, pos, kw, node, env):
        r = self._like(pos, kw, node)
        r.nonneg = True
        r.note = 'nonzero'
        return r

    def n_full_like(self, pos, kw, node, env):
        return self._like(pos[:1], kw, node)

    def n_empty_like(self, pos, kw, node, env):
        r = self._like(pos, kw, node, uninit=True)
        self.I.site('R-empty', node, 'ok', 'np.empty_like site')
        return r

    def n_empty(self, pos, kw, node, env):
        r = self._create(pos, kw, node, uninit=True)
        self.I.site('R-empty', node, 'ok', 'np.empty site')
        return r

    def n_full(self, pos, kw, node, env):
        sh = self.shape_arg(self.kwarg(pos, kw, 0, 'shape'))
        fv = self.kwarg(pos, kw, 1, 'fill_value')
        dtv = self.kwarg(pos, kw, 2, 'dtype')
        if dtv is not None and dtv.k != 'none':
            r = ARR(sh, self.dtype_arg(dtv, 'f'))
        else:
            # without dtype= the array takes the kind of the fill value
            r = ARR(sh, 'f' if fv is None or fv.k != 'int' else 'i')
        if fv is not None:
            r.taint = fv.taint
        return r

    def n_eye(self, pos, kw, node, env):
        n = self.kwarg(pos, kw, 0, 'N')
        m = self.kwarg(pos, kw, 1, 'M')
        dn = n.p if n is not None and n.k == 'int' else None
        dm = dn if (m is None or m.k == 'none') else (
            m.p if m.k == 'int' else None)
        dt = self.dtype_arg(kw.get('dtype'), 'f')
        r = ARR((dn, dm), dt, nonneg=True)
        if (m is None or m.k == 'none') and 'k' not in kw and len(pos) <= 1:
            r.delta = (0, 1)
        return r

    def n_identity(self, pos, kw, node, env):
        n = self.kwarg(pos, kw, 0, 'n')
        dn = n.p if n is not None and n.k == 'int' else None
        return ARR((dn, dn), 'f', nonneg=True, delta=(0, 1))

    def n_arange(self, pos, kw, node, env):
        args = [p for p in pos]
        dt = self.dtype_arg(kw.get('dtype'), None)
        ints = all(a.k in ('int', 'bool') for a in args)
        if dt is None:
            # an argument of unknown kind leaves the kind unknown
            dt = 'i' if ints else (
                'f' if any(a.k == 'float' for a in args) else None)
        if len(args) == 1:
            a = args[0]
            if a.k in ('int', 'bool'):
                return ARR((a.p,), dt, nonneg=True, idx='arange')
            if a.k == 'float':
                return ARR((None,), dt)
            return ARR((None,), dt)
        if len(args) >= 2 and ints and all(a.p is not None for a in args):
            lo, hi = args[0].p, args[1].p
            st = args[2].p.as_int() if len(args) > 2 else 1
            if st is None or st == 0:
                return ARR((None,), dt)
            if st > 0:
                from .npmodel import _ceildiv
                return ARR((_ceildiv(hi - lo, st),), dt,
                           nonneg=(lo.as_int() is not None and lo.as_int() >= 0))
            from .npmodel import _ceildiv
            return ARR((_ceildiv(lo - hi, -st),), dt)
        return ARR((None,), dt)

    def n_linspace(self, pos, kw, node, env):
        n = self.kwarg(pos, kw, 2, 'num')
        dn = n.p if n is not None and n.k == 'int' else (
            Poly.const(50) if n is None else None)
        return ARR((dn,), 'f')

    def n_array(self, pos, kw, node, env, view=False):
        v = pos[0] if pos else kw.get('object', TOP())
        dtv = self.kwarg(pos, kw, 1, 'dtype')
        a = self.as_arr(v)
        r = a.copy()
        dt = self.dtype_arg(dtv, None) if dtv is not None and \
            dtv.k != 'none' else None
        if dt == 'o':
            return ARR(None, 'o')
        if dt is not None:
            if dt == 'i' and a.doc:
                self.site('S-kind', node, 'violation',
                          'the value of parameter %s, documented as float, is '
                          'converted to an integer array: fractional values '
                          'are truncated silently' % a.doc.split(':')[-1])
            r.dt = dt
            r.doc = None
            if dt != 'i' and r.items is not None and dt != 'f':
                r.items = None
        if view and v.k in ('arr', 'top'):
            r.org = v.org            # may be the same buffer
        else:
            r.org = frozenset()
            r.uninit = False
        if v.k != 'arr':
            r.orth = None
        return r

    def n_asarray(self, pos, kw, node, env):
        return self.n_array(pos, kw, node, env, view=True)

    n_asanyarray = n_asarray

    def n_packbits(self, pos, kw, node, env):
        a = self.as_arr(pos[0]) if pos else ARR(None)
        axv = self.kwarg(pos, kw, 1, 'axis')
        ax = self.axis_val(axv)
        if a.dims is None:
            return ARR(None, 'i', note='bytes')
        if ax is None:
            tot = ONE
            for d_ in a.dims:
                tot = tot * d_ if (tot is not None and d_ is not None) \
                    else None
            from .npmodel import _ceildiv
            return ARR((None if tot is None else _ceildiv(tot, 8),), 'i',
                       note='bytes', idx=0)
        if ax == 'unknown' or not (-len(a.dims) <= ax < len(a.dims)):
            return ARR(None, 'i', note='bytes')
        ax %= len(a.dims)
        from .npmodel import _ceildiv
        dims = list(a.dims)
        dims[ax] = None if dims[ax] is None else _ceildiv(dims[ax], 8)
        # note 'bytes': each entry holds 8 bits; idx = the packed axis
        return ARR(tuple(dims), 'i', note='bytes', idx=ax)

    def n_atleast_2d(self, pos, kw, node, env):
        a = self.as_arr(pos[0]) if pos else ARR(None)
        if a.dims is None:
            return ARR(None, a.dt, org=a.org, taint=a.taint)
        if len(a.dims) >= 2:
            return a
        dims = (ONE, ONE) if len(a.dims) == 0 else (ONE, a.dims[0])
        r = a.copy(dims=dims, lay=None, delta=None, orth=None)
        if a.items is not None:
            r.items = None
        return r

    def n_atleast_1d(self, pos, kw, node, env):
        a = self.as_arr(pos[0]) if pos else ARR(None)
        if a.dims is not None and len(a.dims) == 0:
            return a.copy(dims=(ONE,))
        return a

    def n_copy(self, pos, kw, node, env):
        v = pos[0] if pos else TOP()
        a = self.as_arr(v)
        return a.copy(org=frozenset())

    # ------------------------------------------------------------------
    # shape manipulation
    def do_reshape(self, a, shape_v, order, node):
        """Reshape abstract array ``a`` to ``shape_v`` (AV) -> AV."""
        a = self.as_arr(a)
        sh = self.shape_arg(shape_v)
        if sh is None:
            self.site('S-reshape', node, 'unknown', 'target shape not typed')
            return ARR(None, a.dt, org=a.org, taint=a.taint, lg=a.lg,
                       unit=a.unit, deg=a.deg)
        total = None
        if a.dims is not None and all(d is not None for d in a.dims):
            total = ONE
            for d in a.dims:
                total = total * d
        new = list(sh)
        neg = [i for i, d in enumerate(new)
               if d is not None and d.as_int() == -1]
        status, detail = 'ok', ''
        if len(neg) > 1:
            self.site('S-reshape', node, 'violation', 'more than one -1')
            return ARR(None, a.dt)
        known = ONE
        all_known = True
        for i, d in enumerate(new):
            if i in neg:
                continue
            if d is None:
                all_known = False
            else:
                known = known * d
        if neg:
            if total is not None and all_known:
                q = total.div_exact(known)
                if q is None:
                    if (total.all_free() and known.all_free()):
                        status = 'violation'
                        detail = ('size %r is not divisible by %r'
                                  % (total, known))
                        new[neg[0]] = None
                    else:
                        new[neg[0]] = fn_atom('floordiv', total, known)
                        status = 'unknown'
                else:
                    new[neg[0]] = q
            else:
                new[neg[0]] = None
                status = 'unknown'
        else:
            if total is not None and all_known:
                if same(total, known):
                    pass
                elif definitely_differ(total, known):
                    status = 'violation'
                    detail = 'cannot reshape %s (size %r) into %s (size %r)' % (
                        _ds(a.dims), total, _ds(new), known)
                else:
                    status = 'unknown'
            else:
                status = 'unknown'
        self.site('S-reshape', node, status, detail,
                  {'from': _ds(a.dims), 'to': _ds(new), 'order': order})
        r = ARR(tuple(new), a.dt)
        r.nonlin = a.nonlin
        r.lo = self.lo_of(a)
        r.org = a.org
        r.taint = a.taint
        r.lg = a.lg
        r.unit = a.unit
        r.deg = a.deg
        r.uninit = a.uninit
        r.nonneg = a.nonneg
        r.orth = self.orth_reshape(a, new)
        if a.idx == 'arange' and a.dims is not None and len(a.dims) == 1 and \
                sum(1 for d_ in new if d_ is None or d_.as_int() != 1) <= 1:
            r.idx = 'arange'        # the same index range as a column / row
        if r.orth is not None and len(a.dims) == 1 and r.src is None:
            r.src = a.src           # the same spectrum, as a column / row
        r.lay = self.lay_reshape(a, new, order, node)
        r.delta = self.delta_reshape(a, new, order)
        r.cnt = a.cnt
        if a.note == 'input':
            r.note = 'input'        # reshaped raw caller data is raw data
        return r

    def delta_reshape(self, a, new, order):
        """The identity pattern survives a reshape that only inserts / drops
        axes of extent 1; a reshape whose non-unit extents definitely differ
        from the source's scrambles the paired axes ('broken')."""
        if not isinstance(a.delta, tuple) or a.dims is None or \
                any(d is None for d in a.dims) or \
                any(d is None for d in new):
            return None
        old_nz = [(k, d) for k, d in enumerate(a.dims) if d.as_int() != 1]
        new_nz = [(k, d) for k, d in enumerate(new) if d.as_int() != 1]
        if len(old_nz) == len(new_nz) and \
                all(same(x[1], y[1]) for x, y in zip(old_nz, new_nz)):
            mp = {x[0]: y[0] for x, y in zip(old_nz, new_nz)}
            if a.delta[0] in mp and a.delta[1] in mp:
                return (mp[a.delta[0]], mp[a.delta[1]])
            return None
        if len(old_nz) == len(new_nz) and \
                any(definitely_differ(x[1], y[1])
                    for x, y in zip(old_nz, new_nz)):
            return 'broken'
        return None

    def orth_reshape(self, a, new):
        """ORTH survives a reshape that keeps the orthonormal axis: a matrix
        [m, k] with orthonormal columns reshaped to [.., .., k] is recorded
        as 'cols3' (left-orthogonal core), rows analogously."""
        if a.orth is None or a.dims is None:
            return None
        if a.orth == 'cols' and len(a.dims) == 2 and len(new) == 3 and \
                new[2] is not None and a.dims[1] is not None and \
                same(new[2], a.dims[1]):
            return 'cols3'
        if a.orth == 'rows' and len(a.dims) == 2 and len(new) == 3 and \
                new[0] is not None and a.dims[0] is not None and \
                same(new[0], a.dims[0]):
            return 'rows3'
        if a.orth == 'cols3' and len(a.dims) == 3 and len(new) == 2 and \
                new[1] is not None and a.dims[2] is not None and \
                same(new[1], a.dims[2]):
            return 'cols'
        if a.orth == 'rows3' and len(a.dims) == 3 and len(new) == 2 and \
                new[0] is not None and a.dims[0] is not None and \
                same(new[0], a.dims[0]):
            return 'rows'
        if a.orth in ('weighted', 'half', 'weighted3', 'half3'):
            base = a.orth.rstrip('3')
            return base + '3' if len(new) == 3 else base
        if len(a.dims) == 1 and a.orth in ('sigma', 'halfvec', 'eig', 'sing',
                                           'invsing') and len(new) == 2 and \
                any(x is not None and x.as_int() == 1 for x in new):
            return a.orth           # the same vector as a column / row
        return None

    def lay_reshape(self, a, new, order, node):
        from .layout import reshape_layout
        return reshape_layout(self, a, new, order, node)

    def n_reshape(self, pos, kw, node, env):
        a = pos[0] if pos else TOP()
        sh = self.kwarg(pos, kw, 1, 'newshape') or kw.get('shape')
        order = kw.get('order')
        self.order_site('reshape', [], kw, node)
        o = order.c if order is not None and order.has_const() else 'C'
        return self.do_reshape(a, sh, o, node)

    def n_transpose(self, pos, kw, node, env):
        a = self.as_arr(pos[0]) if pos else ARR(None)
        axes = self.kwarg(pos, kw, 1, 'axes')
        return self.do_transpose(a, axes, node)

    def do_transpose(self, a, axes, node):
        if a.dims is None:
            return a.copy(orth=None)
        if axes is None or axes.k == 'none':
            return self.arr_attr(a, 'T', node)
        perm = None
        if axes.k in ('list', 'tuple') and axes.items is not None and \
                all(x.k == 'int' and x.has_const() for x in axes.items):
            perm = [x.c for x in axes.items]
        if perm is None:
            return a.copy(dims=tuple([None] * len(a.dims)), orth=None,
                          lay=None)
        if sorted(perm) != list(range(len(a.dims))):
            self.site('S-transpose', node, 'violation',
                      'axes %r do not match an array of %d axes'
                      % (perm, len(a.dims)))
            return ARR(None, a.dt)
        self.site('S-transpose', node, 'ok')
        lay = tuple(a.lay[i] for i in perm) if a.lay is not None else None
        return a.copy(dims=tuple(a.dims[i] for i in perm), orth=None, lay=lay)

    def n_squeeze(self, pos, kw, node, env):
        a = self.as_arr(pos[0]) if pos else ARR(None)
        axv = self.kwarg(pos, kw, 1, 'axis')
        return self.do_squeeze(a, axv, node)

    def do_squeeze(self, a, axv, node):
        if a.dims is None:
            return a.copy(orth=None)
        if axv is not None and axv.k != 'none':
            ax = self.axis_val(axv)
            if isinstance(ax, int) and -len(a.dims) <= ax < len(a.dims):
                d = list(a.dims)
                del d[ax]
                return a.copy(dims=tuple(d), orth=None, lay=None)
            return a.copy(dims=None, orth=None, lay=None)
        keep = []
        amb = []
        for d in a.dims:
            if d is None:
                return a.copy(dims=None, orth=None, lay=None)
            c = d.as_int()
            if c == 1:
                continue
            if c is None:
                lb = lower_bound(d, self.I.opts.get('lower_bounds'))
                if d.all_free() and (lb is None or lb < 2):
                    amb.append(d)
            keep.append(d)
        if amb:
            self.site('S-squeeze', node, 'violation',
                      'squeeze() without axis on %s: the axis of size %r is '
                      'dropped as well whenever it equals 1, so the number of '
                      'axes of the result depends on the sizes'
                      % (_ds(a.dims), amb[0]))
        else:
            self.site('S-squeeze', node, 'ok')
        return a.copy(dims=tuple(keep), orth=None, lay=None)

    def n_expand_dims(self, pos, kw, node, env):
        # np.expand_dims(a, k)  ==  a[:, ..(k times).., None, ...]
        a = self.as_arr(pos[0]) if pos else ARR(None)
        axv = self.kwarg(pos, kw, 1, 'axis')
        if a.dims is None or axv is None or not (axv.k == 'int' and
                                                  axv.has_const()):
            return a.copy(dims=None, orth=None, lay=None)
        nd = len(a.dims) + 1
        ax = axv.c if axv.c >= 0 else axv.c + nd
        if not 0 <= ax < nd:
            return ARR(None, a.dt)
        full = lambda: AV('slice', items=[None, None, None])
        comps = [full() for _ in range(ax)] + [NONE()] + \
            [full() for _ in range(nd - 1 - ax)]
        return self.index(a, TUPLE(comps), node, load=True)

    def n_fromiter(self, pos, kw, node, env):
        # np.fromiter(iterable, dtype, count): a vector of the items
        it = pos[0] if pos else None
        dt = self.dtype_arg(self.kwarg(pos, kw, 1, 'dtype'), None)
        cnt = self.kwarg(pos, kw, 2, 'count')
        items, elem, n = self.I.iter_model(it, None) if it is not None \
            else (None, None, None)
        if items is not None:
            r = ARR((Poly.const(len(items)),), dt)
            if dt == 'i' and len(items) <= 16 and \
                    all(x.k == 'int' for x in items):
                r.items = list(items)
            return r
        if cnt is not None and cnt.k == 'int' and cnt.p is not None and \
                not (cnt.has_const() and cnt.c < 0):
            return ARR((cnt.p,), dt)
        return ARR((n,), dt)

    def n_size(self, pos, kw, node, env):
        # np.size(a): number of elements (of a list: its length, nested
        # lists are not looked into here)
        v = pos[0] if pos else TOP()
        if len(pos) > 1 or 'axis' in kw:
            return INT()
        if v.k in ('list', 'tuple') and v.items is not None and \
                all(x.k in ('int', 'float', 'bool') for x in v.items):
            return INT(len(v.items))
        if v.k == 'arr':
            return self.arr_attr(v, 'size', node)
        return INT()

    def n_swapaxes(self, pos, kw, node, env):
        a = self.as_arr(pos[0])
        if a.dims is None or len(pos) < 3 or not all(
                p.k == 'int' and p.has_const() for p in pos[1:3]):
            return a.copy(dims=None, orth=None)
        i, j = pos[1].c, pos[2].c
        d = list(a.dims)
        try:
            d[i], d[j] = d[j], d[i]
        except IndexError:
            self.site('S-transpose', node, 'violation', 'axis out of range')
            return ARR(None, a.dt)
        return a.copy(dims=tuple(d), orth=None, lay=None)

    # ------------------------------------------------------------------
    # contractions
    def n_dot(self, pos, kw, node, env):
        a, b = self.as_arr(pos[0]), self.as_arr(pos[1])
        if a.dims is not None and b.dims is not None and \
                (len(a.dims) == 0 or len(b.dims) == 0):
            return self.arr_binop('*', a, b, node, env)
        return self.matmul(a, b, node)

    n_matmul = n_dot

    def n_outer(self, pos, kw, node, env):
        a, b = self.as_arr(pos[0]), self.as_arr(pos[1])

        def sz(x):
            if x.dims is None or any(d is None for d in x.dims):
                return None
            p = ONE
            for d in x.dims:
                p = p * d
            return p
        r = ARR((sz(a), sz(b)), 'f')
        r.taint = a.taint | b.taint
        return r

    def n_tensordot(self, pos, kw, node, env):
        a, b = self.as_arr(pos[0]), self.as_arr(pos[1])
        axes = self.kwarg(pos, kw, 2, 'axes')
        r = ARR(None, 'f')
        r.taint = a.taint | b.taint
        if a.dims is None or b.dims is None:
            self.site('S-tensordot', node, 'unknown', 'operand not typed')
            return r
        if axes is None:
            n = 2
        elif axes.k == 'int' and axes.has_const():
            n = axes.c
        elif axes.k in ('tuple', 'list') and axes.items is not None and \
                len(axes.items) == 2:
            def lst(x):
                if x.k == 'int' and x.has_const():
                    return [x.c]
                if x.k in ('list', 'tuple') and x.items is not None and \
                        all(y.k == 'int' and y.has_const() for y in x.items):
                    return [y.c for y in x.items]
                return None
            la, lb = lst(axes.items[0]), lst(axes.items[1])
            if la is None or lb is None or len(la) != len(lb):
                self.site('S-tensordot', node, 'unknown', 'axes not literal')
                return r
            try:
                for i, j in zip(la, lb):
                    self.unify(a.dims[i], b.dims[j], node, 'S-tensordot',
                               {'lhs': _ds(a.dims), 'rhs': _ds(b.dims)})
                la_n = [i % len(a.dims) for i in la]
                lb_n = [j % len(b.dims) for j in lb]
            except IndexError:
                self.site('S-tensordot', node, 'violation',
                          'axis out of range')
                return r
            dims = [d for i, d in enumerate(a.dims) if i not in la_n] + \
                   [d for j, d in enumerate(b.dims) if j not in lb_n]
            r.dims = tuple(dims)
            if not dims:
                return FLOAT(taint=r.taint)
            return r
        else:
            self.site('S-tensordot', node, 'unknown', 'axes not literal')
            return r
        if n > len(a.dims) or n > len(b.dims):
            self.site('S-tensordot', node, 'violation',
                      'cannot contract %d axes of %s and %s'
                      % (n, _ds(a.dims), _ds(b.dims)))
            return r
        for i in range(n):
            self.unify(a.dims[len(a.dims) - n + i], b.dims[i], node,
                       'S-tensordot', {'lhs': _ds(a.dims), 'rhs': _ds(b.dims)})
        r.dims = tuple(a.dims[:len(a.dims) - n]) + tuple(b.dims[n:])
        if a.lg is not None and b.lg is not None:
            r.lg = a.lg + b.lg
        if a.lay is not None or b.lay is not None:
            la = a.lay if a.lay is not None else (None,) * len(a.dims)
            lb = b.lay if b.lay is not None else (None,) * len(b.dims)
            r.lay = tuple(la[:len(a.dims) - n]) + tuple(lb[n:])
        return r

    def n_einsum(self, pos, kw, node, env):
        return self.einsum(pos, kw, node, env)

    def x_opt_einsum_contract(self, pos, kw, node, env):
        return self.einsum(pos, kw, node, env)

    def einsum(self, pos, kw, node, env):
        if not pos or not (pos[0].k == 'str' and pos[0].has_const()):
            self.site('S-einsum', node, 'unknown', 'subscripts not literal')
            return ARR(None, 'f')
        spec = pos[0].c.replace(' ', '')
        ops = [self.as_arr(p) for p in pos[1:]]
        taint = frozenset().union(*[o.taint for o in ops]) if ops else \
            frozenset()
        if '->' in spec:
            lhs, out = spec.split('->')
        else:
            lhs, out = spec, None
        terms = lhs.split(',')
        if len(terms) != len(ops):
            self.site('S-einsum', node, 'violation',
                      '%d subscripts for %d operands' % (len(terms), len(ops)))
            return ARR(None, 'f')
        if any(o.dims is not None and len(o.dims) == 3 for o in ops):
            # typestates of the contracted TT cores (read by the O-pivot rules)
            self.site('O-contract', node, 'ok', '', facts={
                'orth': [o.orth for o in ops],
                'ndim': [len(o.dims) if o.dims is not None else None
                         for o in ops],
                'note': [o.note for o in ops]})
        letters = {}
        ell = None
        status = 'ok'
        detail = ''
        order_seen = []
        for t, o in zip(terms, ops):
            if o.dims is None:
                status = 'unknown' if status == 'ok' else status
                continue
            if '...' in t:
                pre, post = t.split('...')
                nfix = len(pre) + len(post)
                if nfix > len(o.dims):
                    status, detail = 'violation', \
                        'operand %s has too few axes for "%s"' % (_ds(o.dims), t)
                    continue
                mid = o.dims[len(pre):len(o.dims) - len(post)]
                if ell is None:
                    ell = tuple(mid)
                else:
                    b = self.broadcast(ell, tuple(mid), None)
                    ell = b if b is not None else ell
                pairs = list(zip(pre, o.dims[:len(pre)])) + \
                    list(zip(post, o.dims[len(o.dims) - len(post):]))
            else:
                if len(t) != len(o.dims):
                    status, detail = 'violation', \
                        'operand %s does not match subscripts "%s"' % (
                            _ds(o.dims), t)
                    continue
                pairs = list(zip(t, o.dims))
            for ch, d in pairs:
                if ch not in letters:
                    letters[ch] = d
                    order_seen.append(ch)
                else:
                    e = letters[ch]
                    if e is None:
                        letters[ch] = d
                    elif d is None:
                        pass
                    elif same(e, d) or d.as_int() == 1:
                        pass
                    elif e.as_int() == 1:
                        letters[ch] = d
                    elif definitely_differ(e, d):
                        status = 'violation'
                        detail = 'index "%s" has sizes %r and %r' % (ch, e, d)
                    else:
                        if status == 'ok':
                            status = 'unknown'
                            detail = 'index "%s": %r ?= %r' % (ch, e, d)
        if out is None:
            cnt = {}
            for t in terms:
                for ch in t.replace('...', ''):
                    cnt[ch] = cnt.get(ch, 0) + 1
            out = ('...' if ell is not None else '') + ''.join(
                sorted(ch for ch, c in cnt.items() if c == 1))
        dims = []
        if '...' in out:
            pre, post = out.split('...')
            dims = [letters.get(ch) for ch in pre] + list(ell or ()) + \
                [letters.get(ch) for ch in post]
        else:
            dims = [letters.get(ch) for ch in out]
        for ch in out.replace('...', ''):
            if ch not in letters and status != 'violation' and \
                    all(o.dims is not None for o in ops):
                status, detail = 'violation', \
                    'output index "%s" not in the inputs' % ch
        facts = {'spec': spec}
        for i, o in enumerate(ops):
            facts['op%d' % i] = _ds(o.dims)
        self.site('S-einsum', node, status, detail, facts)
        r = ARR(tuple(dims), 'f') if dims else FLOAT()
        r.taint = taint
        if any(o.nonlin for o in ops):
            self.site('L-lin', node, 'violation',
                      'an operand of this contraction is a non-linear '
                      'function of the cores (clipped / absolute value / '
                      'power): partial sums no longer telescope')
            if r.k == 'arr':
                r.nonlin = True
        else:
            self.site('L-lin', node, 'ok')
        if ops and all(o.cnt is not None for o in ops) and r.k == 'arr':
            num, den = ONE, ONE
            for o in ops:
                num, den = num * o.cnt[0], den * o.cnt[1]
            known = True
            for ch, dd in letters.items():
                if ch in out:
                    continue
                if dd is None:
                    known = False
                elif is_mode_extent(dd):
                    num = num * dd
            if known:
                r.cnt = (num, den)
        lgs = [o.lg for o in ops]
        if ops and all(l is not None for l in lgs):
            tot = lgs[0]
            for l in lgs[1:]:
                tot = tot + l
            r.lg = tot
        outv = kw.get('out')
        if outv is not None and outv.k == 'arr':
            self.I.effect('array-write', outv, node)
            if outv.dims is not None and r.k == 'arr':
                st = 'ok'
                dt = ''
                if len(outv.dims) != len(dims):
                    st, dt = 'violation', 'out= operand %s does not match ' \
                        'the result %s' % (_ds(outv.dims), _ds(dims))
                else:
                    for x, y in zip(outv.dims, dims):
                        if x is None or y is None:
                            st = 'unknown' if st == 'ok' else st
                        elif same(x, y):
                            pass
                        elif definitely_differ(x, y):
                            st, dt = 'violation', 'out= operand %s does not ' \
                                'match the result %s' % (_ds(outv.dims),
                                                         _ds(dims))
                        else:
                            st = 'unknown' if st == 'ok' else st
                self.site('S-einsum-out', node, st, dt,
                          {'out': _ds(outv.dims), 'result': _ds(dims)})
            return outv
        return r

    def n_kron(self, pos, kw, node, env):
        a, b = self.as_arr(pos[0]), self.as_arr(pos[1])
        if a.dims is None or b.dims is None:
            return ARR(None, promote_dt(a, b))
        n = max(len(a.dims), len(b.dims))
        da = (ONE,) * (n - len(a.dims)) + tuple(a.dims)
        db = (ONE,) * (n - len(b.dims)) + tuple(b.dims)
        dims = tuple(None if x is None or y is None else x * y
                     for x, y in zip(da, db))
        r = ARR(dims, promote_dt(a, b))
        from .layout import kron_layout
        r.lay = kron_layout(self, a, b, da, db)
        r.nonneg = a.nonneg and b.nonneg
        # identity pattern replicated by an all-ones factor
        for x, y, dx, dy in ((a, b, da, db), (b, a, db, da)):
            if isinstance(y.delta, tuple) and x.src == 'ones':
                off = n - len(y.dims)
                i, j = y.delta[0] + off, y.delta[1] + off
                if dx[i] is not None and dx[j] is not None and \
                        dx[i].as_int() == 1 and dx[j].as_int() == 1:
                    r.delta = (i, j)
        return r

    # ------------------------------------------------------------------
    # concatenation
    def _concat(self, seq, axis, node, name):
        if seq.k not in ('list', 'tuple', 'iter') or seq.items is None:
            if seq.k in ('list', 'tuple', 'iter') and seq.elem is not None:
                el = self.as_arr(seq.elem)
                if el.dims is not None:
                    d = list(el.dims)
                    if axis == 'v':
                        if len(d) == 1:
                            d = [None] + d
                        else:
                            d[0] = None
                    elif axis == 'h':
                        d[0 if len(d) == 1 else 1] = None
                    elif isinstance(axis, int) and -len(d) <= axis < len(d):
                        d[axis] = None
                    else:
                        return ARR(None, el.dt)
                    return ARR(tuple(d), el.dt, taint=el.taint)
            self.site('S-concat', node, 'unknown', 'operands not typed')
            return ARR(None)
        arrs = [self.as_arr(x) for x in seq.items]
        taint = frozenset().union(*[x.taint for x in arrs]) if arrs else \
            frozenset()
        if arrs and all(x.items is not None and x.dims is not None and
                        len(x.dims) == 1 for x in arrs) and \
                axis in (0, 'h', -1):
            its = []
            for x in arrs:
                its.extend(x.items)
            r = ARR((Poly.const(len(its)),), 'i')
            r.items = its
            return r
        if any(x.dims is None for x in arrs) or not arrs:
            self.site('S-concat', node, 'unknown', 'operand not typed')
            return ARR(None, taint=taint)
        if axis == 'v':
            arrs = [x if len(x.dims) >= 2 else
                    x.copy(dims=(ONE,) + tuple(x.dims)) for x in arrs]
            ax = 0
        elif axis == 'h':
            ax = 0 if len(arrs[0].dims) == 1 else 1
        else:
            ax = axis
        nd = len(arrs[0].dims)
        status, detail = 'ok', ''
        if any(len(x.dims) != nd for x in arrs):
            self.site('S-concat', node, 'violation',
                      'operands have different numbers of axes: %s'
                      % ', '.join(_ds(x.dims) for x in arrs))
            return ARR(None, taint=taint)
        if not (-nd <= ax < nd):
            self.site('S-concat', node, 'violation',
                      'axis %d out of range for %d axes' % (ax, nd))
            return ARR(None, taint=taint)
        ax %= nd
        dims = []
        for i in range(nd):
            col = [x.dims[i] for x in arrs]
            if i == ax:
                if any(c is None for c in col):
                    dims.append(None)
                else:
                    s = col[0]
                    for c in col[1:]:
                        s = s + c
                    dims.append(s)
            else:
                ref = col[0]
                for c in col[1:]:
                    if ref is None:
                        ref = c
                        continue
                    if c is None:
                        status = 'unknown' if status == 'ok' else status
                    elif same(ref, c):
                        pass
                    elif definitely_differ(ref, c):
                        status = 'violation'
                        detail = ('axis %d has sizes %r and %r (concatenating '
                                  'along axis %d)' % (i, ref, c, ax))
                    else:
                        status = 'unknown' if status == 'ok' else status
                dims.append(ref)
        self.site('S-concat', node, status, detail,
                  {'ops': ', '.join(_ds(x.dims) for x in arrs), 'axis': ax})
        dt = arrs[0].dt
        for x in arrs[1:]:
            if x.dt != dt:
                dt = 'f' if {x.dt, dt} <= {'i', 'f', 'b'} else None
        r = ARR(tuple(dims), dt, taint=taint)
        from .layout import concat_layout, layouts_conflict, _fac
        r.lay = concat_layout(self, arrs, ax)
        for i in range(nd):
            if i == ax:
                continue
            facs = [(_fac(x, i) if x.lay is not None else None) for x in arrs]
            known = [f for f in facs if f is not None and len(f) > 1]
            for f in known[1:]:
                if layouts_conflict(known[0], f):
                    self.site('S-layout', node, 'violation',
                              'blocks stacked side by side enumerate axis %d '
                              'in different orders: %s vs %s (fastest factor '
                              'first)' % (i, list(known[0]), list(f)))
                    break
            else:
                if len(known) >= 2:
                    self.site('S-layout', node, 'ok')
        r.nonneg = all(x.nonneg for x in arrs)
        lgs = [x.lg for x in arrs if x.note != 'zeros']   # zero blocks: any scale
        if lgs and all(l is not None for l in lgs) and \
                all(l == lgs[0] for l in lgs):
            r.lg = lgs[0]
        return r

    def n_concatenate(self, pos, kw, node, env):
        seq = pos[0] if pos else TOP()
        axv = self.kwarg(pos, kw, 1, 'axis')
        ax = 0 if axv is None else self.axis_val(axv)
        if ax == 'unknown' or ax is None:
            return ARR(None)
        return self._concat(seq, ax, node, 'concatenate')

    def n_hstack(self, pos, kw, node, env):
        return self._concat(pos[0] if pos else TOP(), 'h', node, 'hstack')

    def n_vstack(self, pos, kw, node, env):
        r = self._concat(pos[0] if pos else TOP(), 'v', node, 'vstack')
        seq = pos[0] if pos else None
        if r.k == 'arr' and seq is not None and seq.items and \
                len(seq.items) > 1 and r.note is None:
            r.note = 'stacked'      # rows of several blocks: may repeat
        return r

    def n_dstack(self, pos, kw, node, env):
        seq = pos[0] if pos else TOP()
        if seq.k in ('list', 'tuple') and seq.items is not None and \
                all(x.k == 'arr' and x.dims is not None and len(x.dims) == 3
                    for x in seq.items):
            return self._concat(seq, 2, node, 'dstack')
        self.site('S-concat', node, 'unknown', 'dstack of non 3-d operands')
        return ARR(None)

    def n_stack(self, pos, kw, node, env):
        """np.stack(seq, axis=k): a NEW axis of length len(seq) at position
        k in front of / between the axes of the (equally shaped) items."""
        seq = pos[0] if pos else TOP()
        axv = self.kwarg(pos, kw, 1, 'axis')
        ax = 0 if axv is None else self.axis_val(axv)
        items, elem, cnt = self.I.iter_model(seq, None) \
            if seq.k in ('list', 'tuple', 'iter') else (None, None, None)
        if items is not None and items:
            arrs = [self.as_arr(x) for x in items]
            el = arrs[0]
            n_new = Poly.const(len(items))
            if any(x.dims is None for x in arrs) or any(
                    len(x.dims) != len(el.dims) for x in arrs):
                return ARR(None, el.dt)
            dims = []
            for i in range(len(el.dims)):
                col = [x.dims[i] for x in arrs]
                dims.append(col[0] if all(
                    c is not None and col[0] is not None and same(c, col[0])
                    for c in col) else None)
        elif elem is not None:
            el = self.as_arr(elem)
            if el.dims is None:
                return ARR(None, el.dt)
            dims = list(el.dims)
            n_new = cnt
        else:
            return ARR(None)
        if not isinstance(ax, int) or not (-len(dims) - 1 <= ax <= len(dims)):
            return ARR(tuple([None] * (len(dims) + 1)), el.dt)
        if ax < 0:
            ax += len(dims) + 1
        dims.insert(ax, n_new)
        return ARR(tuple(dims), el.dt, taint=el.taint)

    # ------------------------------------------------------------------
    # reductions
    def reduce(self, a, axis_v, node, keep_dt=True, dt=None):
        a = self.as_arr(a)
        ax = self.axis_val(axis_v)
        if ax is None:
            r = FLOAT(taint=a.taint) if (dt or a.dt) != 'i' else INT()
            if a.dt == 'b' and dt is None:
                r = INT()
            r.taint = a.taint
            return r
        if ax == 'unknown' or a.dims is None:
            return ARR(None, dt or a.dt, taint=a.taint)
        nd = len(a.dims)
        if not (-nd <= ax < nd):
            self.site('S-axis', node, 'violation',
                      'axis %d out of range for %s' % (ax, _ds(a.dims)))
            return ARR(None, dt or a.dt)
        self.site('S-axis', node, 'ok')
        ax %= nd
        dims = tuple(d for i, d in enumerate(a.dims) if i != ax)
        if len(dims) == 1 and dims[0] is not None and \
                dims[0].as_int() is not None and dims[0].as_int() <= 8 and \
                (dt or a.dt) == 'i' and a.org:
            # per-column reduction of a caller's integer array (e.g. the
            # largest index of every mode): independent quantities
            tag = sorted(map(repr, a.org))[0]
            r = ARR(dims, 'i')
            fname = getattr(getattr(node, 'func', None), 'attr', 'red')
            r.items = [INT(Poly.sym('%s(%s)[%d]' % (fname, tag, k)))
                       for k in range(dims[0].as_int())]
            return r
        lay = None
        if a.lay is not None:
            lay = tuple(l for i, l in enumerate(a.lay) if i != ax)
        r = ARR(dims, dt or a.dt, taint=a.taint, lay=lay)
        if not dims:
            return FLOAT(taint=a.taint) if (dt or a.dt) != 'i' else INT()
        return r

    def red_kind(self, r, aa, fname):
        """What a full reduction measures: the largest modulus only for a
        max over |x|."""
        if r.k == 'arr' or not fname:
            return
        if fname in ('max', 'amax'):
            r.red = 'maxmod' if aa.note == 'abs' else (
                'max-signed' if aa.note in (None, 'input') and
                not aa.nonneg else None)
        elif fname in ('min', 'amin', 'mean', 'sum', 'median', 'prod'):
            r.red = fname

    def _red(self, pos, kw, node, env, **k):
        a = pos[0] if pos else TOP()
        fname0 = ''
        if isinstance(node, ast.Call):
            fname0 = getattr(node.func, 'attr', '') or \
                getattr(node.func, 'id', '')
        if fname0 == 'prod' and a.k == 'arr' and a.dt == 'i' and \
                a.dims is not None and len(a.dims) == 1 and (
                    (a.items and any(not x.has_const() for x in a.items)) or
                    a.items is None):
            # product of a VECTOR of sizes (not the .shape tuple of an actual
            # array): the number of elements of a tensor kept in TT format
            self.site('S-bigprod', node, 'violation',
                      'a product over a vector of mode sizes is formed in '
                      'integer arithmetic: for the high-dimensional tensors '
                      'the TT format is made for it exceeds 2**63 and wraps '
                      'silently (use float / logarithms, or per-core factors)')
        if a.k == 'arr' and a.items is not None and \
                self.kwarg(pos, kw, 1, 'axis') is None:
            fname = ''
            if isinstance(node, ast.Call):
                fname = getattr(node.func, 'attr', '') or \
                    getattr(node.func, 'id', '')
            ps = [x.p for x in a.items]
            if all(p is not None for p in ps) and ps:
                if fname == 'sum':
                    t = Poly.const(0)
                    for p in ps:
                        t = t + p
                    return INT(t)
                if fname == 'prod':
                    t = ONE
                    for p in ps:
                        t = t * p
                    return INT(t)
                if fname in ('max', 'amax'):
                    t = ps[0]
                    for p in ps[1:]:
                        t = pmax(t, p)
                    return INT(t)
                if fname in ('min', 'amin'):
                    t = ps[0]
                    for p in ps[1:]:
                        t = pmin(t, p)
                    return INT(t)
            return INT()
        r = self.reduce(a, self.kwarg(pos, kw, 1, 'axis'), node, **k)
        aa = self.as_arr(a)
        r.lg = aa.lg
        r.unit = aa.unit
        r.deg = aa.deg
        r.nonneg = aa.nonneg
        if r.k == 'arr':
            r.nonlin = aa.nonlin
        fname_ = getattr(getattr(node, 'func', None), 'attr', '') or \
            getattr(getattr(node, 'func', None), 'id', '')
        self.red_kind(r, aa, fname_)
        ax_ = self.axis_val(self.kwarg(pos, kw, 1, 'axis'))
        if fname_ == 'sum' and aa.cnt is not None and aa.dims is not None \
                and isinstance(ax_, int) and -len(aa.dims) <= ax_ < len(aa.dims) \
                and aa.dims[ax_] is not None:
            r.cnt = (aa.cnt[0] * aa.dims[ax_], aa.cnt[1]) \
                if is_mode_extent(aa.dims[ax_]) else aa.cnt
        return r

    def _mark_sum(self, r, a, axis_v):
        if (axis_v is None or axis_v.k == 'none') and r.k != 'arr':
            r.note = 'sum'
            r.src = a
        return r

    def n_sum(self, pos, kw, node, env):
        a = pos[0] if pos else TOP()
        if a.k in ('list', 'tuple') and a.items is not None and \
                all(x.k == 'int' for x in a.items):
            ps = [x.p for x in a.items]
            if all(p is not None for p in ps):
                tot = Poly.const(0)
                for p in ps:
                    tot = tot + p
                return INT(tot)
            return INT()
        if a.k == 'arr' and a.dt == 'b' and isinstance(a.rel, tuple) and \
                a.rel[0] == 'prefix' and \
                self.kwarg(pos, kw, 1, 'axis') is None:
            return INT(a.rel[1], nonneg=True)
        return self._mark_sum(self._red(pos, kw, node, env), a,
                              self.kwarg(pos, kw, 1, 'axis'))

    n_max = n_min = n_amax = n_amin = n_prod = _red

    def n_mean(self, pos, kw, node, env):
        r = self._red(pos, kw, node, env, dt='f')
        if r.k == 'int':
            r = FLOAT(taint=r.taint)
        return r

    def n_any(self, pos, kw, node, env):
        r = self.reduce(pos[0], self.kwarg(pos, kw, 1, 'axis'), node, dt='b')
        return BOOL() if r.k != 'arr' else r

    n_all = n_any

    def n_argmax(self, pos, kw, node, env):
        a = self.as_arr(pos[0])
        axv = self.kwarg(pos, kw, 1, 'axis')
        if axv is None or axv.k == 'none':
            return INT()
        r = self.reduce(a, axv, node, dt='i')
        return r

    n_argmin = n_argmax

    def x_numpy_linalg_norm(self, pos, kw, node, env):
        a = self.as_arr(pos[0])
        axv = self.kwarg(pos, kw, 2, 'axis')
        r = self.reduce(a, axv, node, dt='f')
        if r.k == 'int':
            r = FLOAT()
        r.taint = a.taint
        r.nonneg = True
        r.unit = a.unit if a.unit is not None else Fraction(1)
        r.lg = a.lg
        r.deg = a.deg
        if axv is None or axv.k == 'none':
            r.note = 'norm'
            r.src = a
            ordv = self.kwarg(pos, kw, 1, 'ord')
            if r.k != 'arr' and (ordv is None or ordv.k == 'none'):
                r.red = 'norm'      # the Frobenius / 2-norm
        return r

    # ------------------------------------------------------------------
    def elementwise(self, name, pos, kw, node, env):
        v = pos[0] if pos else TOP()
        short = name.split('.')[-1]
        if short == 'square' and v.k in ('arr', 'int', 'float'):
            # np.square(x) is x ** 2 (units, ledger, typestates, U-square)
            return self.binop(ast.Pow(), v, INT(2), node, env=env)
        if v.k in ('int', 'float', 'bool'):
            r = FLOAT(taint=v.taint)
            if short == 'sign':
                r.deg = {}
                r.lg = Lin(0)
                return r
            if short in ('floor', 'ceil', 'rint'):
                r = FLOAT(taint=v.taint)
                if v.k == 'int':
                    r.p = v.p
            if short in ('abs', 'absolute'):
                r = v.copy(nonneg=True)
                if v.has_const():
                    r = from_const(abs(v.c))
                    r.unit, r.lg, r.deg = v.unit, v.lg, v.deg
            if short == 'sqrt':
                r.nonneg = True
                self.sqrt_site(v, node, env, r)
                if v.lg is not None:
                    r.lg = v.lg.scale(Fraction(1, 2))
                if v.unit is not None:
                    r.unit = v.unit / 2
                if v.deg is not None:
                    r.deg = {k: x / 2 for k, x in v.deg.items()}
                if v.k == 'int' and v.p is not None:
                    lb = lower_bound(v.p, self.I.opts.get('lower_bounds'))
                    if lb is not None and lb > 0:
                        r.note = 'nonzero'
                if v.has_const() and v.c >= 0:
                    import math
                    r.c = math.sqrt(v.c)
                    if v.c > 0:
                        r.note = 'nonzero'
            if short in ('log', 'log2'):
                self.log_site(v, node, env)
                if v.has_const() and v.c > 0:
                    import math
                    r.c = math.log2(v.c) if short == 'log2' else math.log(v.c)
                if short == 'log2':
                    r.note = 'log2'
                    r.src = v
                    if v.k == 'int' and v.p is not None:
                        r.p = fn_atom('log2', v.p)
            if short in ('isinf', 'isnan', 'isfinite'):
                return BOOL()
            return r
        a = self.as_arr(v)
        r = a.copy(org=frozenset(), orth=None, uninit=False)
        if short not in ('real', 'abs', 'absolute'):
            r.items = None
        if short == 'sign':
            r.orth = 'signvec'      # entries in {-1, 0, +1}
            r.lg = Lin(0)
            r.deg = {}
        if short in ('argsort',):
            r.dt = 'i'
            r.idx = 'perm'
            if a.lay is not None and len(a.lay) == 1 and a.lay[0] is not None:
                r.src = ('rowsof', tuple(a.lay[0]))
        elif short in ('isinf', 'isnan', 'isfinite'):
            r.dt = 'b'
        elif short in ('abs', 'absolute', 'square'):
            r.nonneg = True
            r.nonlin = True
            if short != 'square':
                r.note = 'abs'
                r.rel = ('absof', v if v.k == 'arr' else a)
        elif short == 'sqrt':
            r.dt = 'f'
            if a.lg is not None:
                r.lg = a.lg.scale(Fraction(1, 2))
            if a.unit is not None:
                r.unit = Fraction(a.unit) / 2
            if a.orth == 'sigma':
                r.orth = 'halfvec'
            elif a.orth == 'eig':
                r.orth = 'sing'
                r.src = a.src
                # eigenvalues of a Gram matrix are >= 0 only up to rounding
                if a.nonneg:
                    self.site('G-sqrt', node, 'ok', 'eigenvalues clamped at 0')
                else:
                    self.site('G-sqrt', node, 'violation',
                              'square root of the eigenvalues of a Gram '
                              'matrix that were not clamped at 0 first: for '
                              'rank-deficient input the zero eigenvalues come '
                              'out slightly negative and turn into NaN')
            r.nonneg = True
            r.nonlin = True
        elif short in ('cos', 'sin', 'arccos', 'exp', 'log', 'log2'):
            r.dt = 'f'
            r.lg = None
            r.unit = None
            if short in ('log', 'log2'):
                self.log_site(a, node, env)
        elif short == 'cumsum':
            r.orth = None
            if a.dt == 'f' and a.nonneg:
                # prefix sums of non-negative terms (see G-cancel)
                r.src = ('cumsum', id(r))
                r.nonneg = True
                # running sums taken from the END of the original vector?
                r.rel = ('cumsum-rev',) if isinstance(a.rel, tuple) and \
                    a.rel[0] in ('rev', 'sq-rev') else ('cumsum-fwd',)
            if a.items is not None and all(x.p is not None for x in a.items):
                acc = Poly.const(0)
                its = []
                for x in a.items:
                    acc = acc + x.p
                    its.append(INT(acc))
                r.items = its
        elif short in ('real', 'imag', 'flipud', 'fliplr', 'sort'):
            pass
        elif short in ('fft', 'ifft'):
            r.dt = 'c'
        if short in ('dct', 'dst'):
            axv = kw.get('axis')
            ax = self.axis_val(axv) if axv is not None else -1
            if a.dims is not None and isinstance(ax, int) and \
                    not (-len(a.dims) <= ax < len(a.dims)):
                self.site('S-axis', node, 'violation',
                          'axis %d out of range for %s' % (ax, _ds(a.dims)))
            else:
                self.site('S-axis', node, 'ok')
            r.dt = 'f'
        return r

    def sqrt_site(self, v, node, env, r):
        """G: sqrt of a computed scalar that may be (slightly) negative."""
        if v.has_const() or v.nonneg or v.k in ('int', 'bool'):
            return
        if v.k == 'int' and v.p is not None:
            return
        from . import model as _m
        arg = node.args[0] if isinstance(node, ast.Call) and node.args else None
        safe = False
        if arg is not None and env is not None:
            src = _m.norm_src(self.I.mod(), arg)
            from .npmodel import _guards
            for fact, pol in env.get('$facts', ()):
                if _guards(fact, pol, src):
                    safe = True
        if arg is not None and not isinstance(arg, ast.Name):
            return          # only plain variables (results of contractions)
        if safe:
            self.site('G-sqrt', node, 'ok', 'guarded by a positivity test')
        else:
            self.site('G-sqrt', node, 'unknown', 'argument may be negative')
            r.taint = r.taint | frozenset(['%s:%s sqrt(%s)' % (
                self.I.where(), getattr(node, 'lineno', 0),
                getattr(arg, 'id', '?'))])

    def log_site(self, v, node, env):
        safe = False
        why = 'argument not known positive'
        from . import model as _m
        arg = node.args[0] if isinstance(node, ast.Call) and node.args else None
        if v.has_const() and isinstance(v.c, (int, float)) and v.c > 0:
            safe, why = True, 'positive literal'
        elif v.k == 'int' and v.p is not None:
            lb = lower_bound(v.p, self.I.opts.get('lower_bounds'))
            if lb is not None and lb > 0:
                safe, why = True, 'size-positive'
        if not safe and arg is not None and env is not None:
            src = _m.norm_src(self.I.mod(), arg)
            from .npmodel import _guards
            for fact, pol in env.get('$facts', ()):
                if _guards(fact, pol, src):
                    safe, why = True, 'guarded by (%s) is %s' % (fact, pol)
                    break
        self.site('G-log', node, 'ok' if safe else 'unknown', why)
        red = getattr(v, 'red', None)
        self.site('P-maxmod', node, 'ok' if red == 'maxmod' else
                  ('violation' if red else 'unknown'),
                  'the exponent is taken from %s' % (red or 'an untracked value'))

    def n_divide(self, pos, kw, node, env):
        a, b = pos[0], pos[1]
        r = self.arr_binop('/', self.as_arr(a) if a.k != 'arr' and
                           not a.k in ('int', 'float', 'bool') else a,
                           b, None, env)
        wh = kw.get('where')
        outv = kw.get('out')
        if a.has_const() and b.k == 'arr' and b.orth in ('sing', 'sigma'):
            r.orth = 'invsing'
            r.src = b.src
        if wh is not None and outv is not None:
            # division only where the mask holds, `out` elsewhere: guarded
            r.taint = a.taint | b.taint | outv.taint
            self.site('G-div', node, 'ok', 'np.divide(..., out=, where=): '
                      'masked division', construct='np.divide(where=)')
        else:
            out = r
            self.division(out, a, b, node, env)
        return r

    def n_minimum(self, pos, kw, node, env):
        a, b = self.as_arr(pos[0]), self.as_arr(pos[1])
        dims = self.broadcast(a.dims, b.dims, node)
        r = ARR(dims, promote_dt(a, b), taint=a.taint | b.taint)
        r.nonlin = True
        for x in pos[:2]:
            if x.has_const() and isinstance(x.c, (int, float)) and x.c >= 0:
                r.nonneg = True
        return r

    def n_maximum(self, pos, kw, node, env):
        r = self.n_minimum(pos, kw, node, env)
        # max(spectrum, 0): the clamped eigenvalues
        for x, y in ((pos[0], pos[1]), (pos[1], pos[0])):
            if x.k == 'arr' and x.orth == 'eig' and y.has_const() and \
                    isinstance(y.c, (int, float)) and y.c == 0:
                r.orth = 'eig'
                r.src = x.src
                r.lg, r.unit, r.deg = x.lg, x.unit, x.deg
        return r

    def n_clip(self, pos, kw, node, env):
        a = self.as_arr(pos[0])
        r = a.copy(org=frozenset(), orth=None, nonlin=True)
        lo = self.kwarg(pos, kw, 1, 'a_min')
        if lo is None:
            lo = kw.get('min')
        if lo is not None and lo.has_const() and \
                isinstance(lo.c, (int, float)) and lo.c >= 0:
            r.nonneg = True
        elif lo is None or lo.k == 'none':
            r.nonneg = bool(a.nonneg)
        else:
            r.nonneg = False
        return r

    def n_where(self, pos, kw, node, env):
        if len(pos) == 1:
            a = self.as_arr(pos[0])
            nd = len(a.dims) if a.dims is not None else 1
            if isinstance(a.rel, tuple) and a.rel[0] == 'prefix' and nd == 1:
                # positions of a True-prefix: 0, 1, ..., D - 1
                D = a.rel[1]
                return TUPLE([ARR((D,), 'i', idx='where',
                                  rel=('arange', D), nonneg=True)])
            n = self.I.fresh('where', node)
            return TUPLE([ARR((n,), 'i', idx='where') for _ in range(nd)])
        a = self.as_arr(pos[0])
        if isinstance(a.rel, tuple) and a.rel[0] == 'negmask' and \
                pos[1].has_const() and pos[1].c == 0 and \
                pos[2] is a.rel[1]:
            # where(x < 0, 0, x): x clamped at zero (as np.maximum(x, 0))
            x = pos[2]
            return x.copy(org=frozenset(), nonneg=True,
                          orth=x.orth if x.orth == 'eig' else None)
        a, b, c = (self.as_arr(p) for p in pos[:3])
        d = self.broadcast(a.dims, b.dims, node)
        d = self.broadcast(d, c.dims, node)
        return ARR(d, promote_dt(b, c), taint=b.taint | c.taint)

    def n_flatnonzero(self, pos, kw, node, env):
        a = self.as_arr(pos[0]) if pos else ARR(None)
        if isinstance(a.rel, tuple) and a.rel[0] == 'prefix':
            D = a.rel[1]
            return ARR((D,), 'i', idx='where', rel=('arange', D),
                       nonneg=True)
        return ARR((self.I.fresh('where', node),), 'i', idx='where')

    def n_count_nonzero(self, pos, kw, node, env):
        a = self.as_arr(pos[0]) if pos else ARR(None)
        if self.kwarg(pos, kw, 1, 'axis') is not None:
            return self.reduce(a, self.kwarg(pos, kw, 1, 'axis'), node,
                               dt='i')
        if isinstance(a.rel, tuple) and a.rel[0] == 'prefix':
            r = INT(a.rel[1])
        else:
            r = INT(self.I.fresh('count', node))
        r.nonneg = True
        return r

    def n_unique(self, pos, kw, node, env):
        a = self.as_arr(pos[0])
        axv = kw.get('axis')
        n = self.I.fresh('uniq', node)
        if axv is not None and a.dims is not None and len(a.dims) == 2:
            return ARR((n, a.dims[1]), a.dt, note='distinct')
        return ARR((n,), a.dt, note='distinct')

    def n_repeat(self, pos, kw, node, env):
        a = self.as_arr(pos[0])
        rep = self.kwarg(pos, kw, 1, 'repeats')
        axv = self.kwarg(pos, kw, 2, 'axis')
        ax = self.axis_val(axv)
        rp = rep.p if rep is not None and rep.k == 'int' else None
        if a.dims is None:
            return ARR(None, a.dt)
        if ax is None:
            tot = ONE
            for d in a.dims:
                if d is None:
                    tot = None
                    break
                tot = tot * d
            return ARR((None if tot is None or rp is None else tot * rp,),
                       a.dt, nonneg=a.nonneg)
        if ax == 'unknown' or not (-len(a.dims) <= ax < len(a.dims)):
            return ARR(None, a.dt)
        d = list(a.dims)
        d[ax] = None if d[ax] is None or rp is None else d[ax] * rp
        r = ARR(tuple(d), a.dt, nonneg=a.nonneg, lo=self.lo_of(a))
        if isinstance(a.delta, tuple) and ax % len(d) not in a.delta:
            r.delta = a.delta
        # layout: every element is repeated rp times in a row -> the repeat
        # counter runs fastest on that axis (as kron(a, ones(rp)))
        from .layout import _fac
        axn = ax % len(d)
        fa = _fac(a, axn)
        if rp is not None and fa is not None and all(
                x is not None for x in a.dims):
            lay = [(_fac(a, i) if a.lay is not None and a.lay[i] is not None
                    else None) for i in range(len(d))]
            lay[axn] = ((rp,) if rp.as_int() != 1 else ()) + tuple(fa)
            r.lay = tuple(lay)
        return r

    def n_tile(self, pos, kw, node, env):
        a = self.as_arr(pos[0])
        reps = self.shape_arg(pos[1]) if len(pos) > 1 else None
        if a.dims is None or reps is None:
            return ARR(None, a.dt)
        n = max(len(a.dims), len(reps))
        da = (ONE,) * (n - len(a.dims)) + tuple(a.dims)
        rp = (ONE,) * (n - len(reps)) + tuple(reps)
        r = ARR(tuple(None if x is None or y is None else x * y
                      for x, y in zip(da, rp)), a.dt, deg=a.deg,
                nonlin=a.nonlin)
        if isinstance(a.delta, tuple):
            off = n - len(a.dims)
            i, j = a.delta[0] + off, a.delta[1] + off
            if rp[i] is not None and rp[j] is not None and \
                    rp[i].as_int() == 1 and rp[j].as_int() == 1:
                r.delta = (i, j)
        # layout: whole copies are laid one after the other -> the index of a
        # runs fastest, the copy counter slowest (as kron(ones(rp), a))
        from .layout import _fac
        if all(x is not None for x in da) and all(x is not None for x in rp):
            off = n - len(a.dims)
            lay = []
            known = False
            for i in range(n):
                fa = _fac(a, i - off) if i >= off else ()
                if fa is None:
                    lay.append(None)
                    continue
                if rp[i].as_int() == 1:
                    lay.append(tuple(fa) if (a.lay is not None and i >= off
                                             and a.lay[i - off] is not None)
                               else None)
                else:
                    lay.append(tuple(fa) + (rp[i],))
                    known = True
            if known:
                r.lay = tuple(lay)
        return r

    def n_diag(self, pos, kw, node, env):
        a = self.as_arr(pos[0])
        if a.dims is None:
            return ARR(None, a.dt)
        if len(a.dims) == 1:
            r = ARR((a.dims[0], a.dims[0]), a.dt, taint=a.taint)
            r.orth = {'sigma': 'sigma', 'halfvec': 'half'}.get(a.orth)
            r.unit = a.unit
            r.lg = a.lg
            r.deg = a.deg
            return r
        if len(a.dims) == 2:
            return ARR((pmin(a.dims[0], a.dims[1]) if a.dims[0] is not None
                        and a.dims[1] is not None else None,), a.dt,
                       org=a.org, taint=a.taint, deg=a.deg, unit=a.unit,
                       lg=a.lg)
        return ARR(None, a.dt)

    def n_searchsorted(self, pos, kw, node, env):
        v = self.as_arr(pos[1]) if len(pos) > 1 else ARR(None)
        if v.dims is not None and len(v.dims) == 0:
            return INT()
        return ARR(v.dims, 'i')

    def n_interp(self, pos, kw, node, env):
        x = self.as_arr(pos[0])
        return ARR(x.dims, 'f')

    def n_divmod(self, pos, kw, node, env):
        a = pos[0] if pos else TOP()
        b = pos[1] if len(pos) > 1 else TOP()
        if a.k in ('int', 'bool') and b.k in ('int', 'bool'):
            q = INT()
            r = INT()
            r.nonneg = True
            return TUPLE([q, r])
        if a.k == 'arr' or b.k == 'arr':
            da = a.dims if a.k == 'arr' else ()
            db = b.dims if b.k == 'arr' else ()
            dims = self.broadcast(da, db, None) \
                if da is not None and db is not None else None
            dt = 'i' if (a.dt if a.k == 'arr' else 'i') == 'i' and \
                (b.dt if b.k == 'arr' else 'i') == 'i' and \
                a.k != 'float' and b.k != 'float' else 'f'
            return TUPLE([ARR(dims, dt), ARR(dims, dt)])
        return TUPLE([TOP(), TOP()])

    def n_meshgrid(self, pos, kw, node, env):
        arrs = [self.as_arr(p) for p in pos if p.k != 'starred']
        if len(arrs) != len(pos):
            return LIST(elem=ARR(None, 'i'))
        dims = []
        for a in arrs:
            if a.dims is None:
                dims.append(None)
            else:
                t = ONE
                for d in a.dims:
                    t = None if (t is None or d is None) else t * d
                dims.append(t)
        idx = kw.get('indexing')
        if not (idx is not None and idx.has_const() and idx.c == 'ij') and \
                len(dims) >= 2:
            dims[0], dims[1] = dims[1], dims[0]
        return LIST([ARR(tuple(dims), arrs[i].dt) for i in range(len(arrs))])

    def n_ravel_multi_index(self, pos, kw, node, env):
        mi = pos[0] if pos else TOP()
        a = self.as_arr(mi)
        dimsv = self.kwarg(pos, kw, 1, 'dims')
        order = kw.get('order')
        self.site('S-ravel', node, 'ok', '',
                  {'order': order.c if order is not None and order.has_const()
                   else 'C'})
        if a.dims is not None and len(a.dims) >= 1:
            sh = self.shape_arg(dimsv)
            if sh is not None and a.dims[0] is not None and \
                    a.dims[0].as_int() is not None and \
                    a.dims[0].as_int() != len(sh):
                self.site('S-ravel', node, 'violation',
                          'multi-index has %r rows for %d dims'
                          % (a.dims[0], len(sh)))
            return ARR(a.dims[1:], 'i') if len(a.dims) > 1 else INT()
        return ARR(None, 'i')

    def n_unravel_index(self, pos, kw, node, env):
        a = self.as_arr(pos[0])
        sh = self.shape_arg(self.kwarg(pos, kw, 1, 'shape'))
        if sh is None:
            return AV('tuple', elem=ARR(a.dims, 'i'))
        return TUPLE([ARR(a.dims, 'i') if a.dims is None or len(a.dims) > 0
                      else INT() for _ in sh])

    def n_polyder(self, pos, kw, node, env):
        return ARR((None,), 'f')

    def n_isinf(self, pos, kw, node, env):
        return self.elementwise('numpy.isinf', pos, kw, node, env)

    # ------------------------------------------------------------------
    # linear algebra
    def x_numpy_linalg_qr(self, pos, kw, node, env):
        a = self.as_arr(pos[0])
        mode = kw.get('mode')
        if a.dims is None or len(a.dims) != 2:
            if a.dims is not None:
                self.site('S-ndim', node, 'violation',
                          'qr needs a matrix, got %s' % _ds(a.dims))
            return TUPLE([ARR(None, 'f'), ARR(None, 'f')])
        self.site('S-ndim', node, 'ok')
        m, n = a.dims
        k = pmin(m, n) if m is not None and n is not None else None
        q = ARR((m, k), 'f', orth='cols', taint=a.taint,
                lg=Lin(0) if a.lg is not None else None)
        r = ARR((k, n), 'f', orth='weighted', taint=a.taint, lg=a.lg,
                unit=a.unit)
        return TUPLE([q, r])

    def x_scipy_linalg_rq(self, pos, kw, node, env):
        a = self.as_arr(pos[0])
        if a.dims is None or len(a.dims) != 2:
            if a.dims is not None:
                self.site('S-ndim', node, 'violation',
                          'rq needs a matrix, got %s' % _ds(a.dims))
            return TUPLE([ARR(None, 'f'), ARR(None, 'f')])
        self.site('S-ndim', node, 'ok')
        m, n = a.dims
        mode = kw.get('mode')
        econ = mode is not None and mode.has_const() and mode.c == 'economic'
        k = pmin(m, n) if m is not None and n is not None else None
        if econ:
            r = ARR((m, k), 'f', orth='weighted', taint=a.taint, lg=a.lg)
            q = ARR((k, n), 'f', orth='rows', taint=a.taint,
                    lg=Lin(0) if a.lg is not None else None)
        else:
            r = ARR((m, n), 'f', orth='weighted', taint=a.taint, lg=a.lg)
            q = ARR((n, n), 'f', orth='rows', taint=a.taint)
        return TUPLE([r, q])

    def x_numpy_linalg_svd(self, pos, kw, node, env):
        a = self.as_arr(pos[0])
        if a.dims is None or len(a.dims) != 2:
            if a.dims is not None:
                self.site('S-ndim', node, 'violation',
                          'svd needs a matrix, got %s' % _ds(a.dims))
            return TUPLE([ARR(None, 'f'), ARR((None,), 'f'), ARR(None, 'f')])
        self.site('S-ndim', node, 'ok')
        m, n = a.dims
        fm = kw.get('full_matrices')
        full = not (fm is not None and fm.has_const() and fm.c is False)
        k = pmin(m, n) if m is not None and n is not None else None
        z = Lin(0) if a.lg is not None else None
        u = ARR((m, m if full else k), 'f', orth='cols', taint=a.taint, lg=z)
        s = ARR((k,), 'f', orth='sigma', taint=a.taint, nonneg=True,
                unit=Fraction(1) if a.unit is None else a.unit, lg=a.lg)
        v = ARR((n if full else k, n), 'f', orth='rows', taint=a.taint, lg=z)
        return TUPLE([u, s, v])

    def x_numpy_linalg_eigh(self, pos, kw, node, env):
        a = self.as_arr(pos[0])
        if a.dims is None or len(a.dims) != 2:
            return TUPLE([ARR((None,), 'f'), ARR(None, 'f')])
        self.unify(a.dims[0], a.dims[1], node, 'S-square', {},
                   what='matrix passed to eigh')
        n = a.dims[0]
        w = ARR((n,), 'f', taint=a.taint, orth='eig',
                unit=a.unit if a.unit is not None else None, lg=a.lg)
        w.src = a.src
        u = ARR((n, n), 'f', orth='cols', taint=a.taint,
                lg=Lin(0) if a.lg is not None else None)
        u.src = a.src
        if a.src is not None and a.src[0] == 'gram':
            self.site('O-gram', node, 'ok', 'eigh of a Gram matrix (%s)'
                      % a.src[1])
        return TUPLE([w, u])

    def x_scipy_linalg_lu(self, pos, kw, node, env):
        a = self.as_arr(pos[0])
        if a.dims is None or len(a.dims) != 2:
            return TUPLE([ARR(None, 'f')] * 3)
        m, n = a.dims
        k = pmin(m, n) if m is not None and n is not None else None
        # P and L are dimensionless (unit pivots), U carries the scale of A
        u_ = ARR((k, n), 'f')
        u_.unit = a.unit if a.unit is not None else Fraction(1)
        return TUPLE([ARR((m, m), 'f'), ARR((m, k), 'f'), u_])

    def x_scipy_linalg_solve_triangular(self, pos, kw, node, env):
        a, b = self.as_arr(pos[0]), self.as_arr(pos[1])
        if a.dims is not None and len(a.dims) == 2 and b.dims is not None \
                and len(b.dims) >= 1:
            self.unify(a.dims[0], a.dims[1], node, 'S-square', {},
                       what='triangular matrix')
            self.unify(a.dims[0], b.dims[0], node, 'S-solve',
                       {'A': _ds(a.dims), 'b': _ds(b.dims)},
                       what='rows of the system')
        return ARR(b.dims, 'f', taint=a.taint | b.taint)

    def x_numpy_linalg_solve(self, pos, kw, node, env):
        a, b = self.as_arr(pos[0]), self.as_arr(pos[1])
        if a.dims is not None and len(a.dims) == 2 and b.dims is not None \
                and len(b.dims) >= 1:
            self.unify(a.dims[0], a.dims[1], node, 'S-square', {},
                       what='matrix passed to solve')
            self.unify(a.dims[1], b.dims[0], node, 'S-solve',
                       {'A': _ds(a.dims), 'b': _ds(b.dims)},
                       what='rows of the system')
        return ARR(b.dims, 'f', taint=a.taint | b.taint)

    def _lstsq(self, pos, kw, node, env, scipy):
        a = self.as_arr(pos[0]) if pos else ARR(None)
        b = self.as_arr(pos[1]) if len(pos) > 1 else ARR(None)
        I = self.I
        # degrees of the two operands in the named scalars / marked arrays
        # (read by the U-weight rule: a weighted solve carries the weights in
        # both operands)
        self.site('U-operands', node, 'ok', '', facts={
            'deg': [None if (x.degq or x.deg_alt) else dict(x.deg or {})
                    for x in (a, b)]})
        for flag, operand, raw in (('overwrite_a', a, pos[0] if pos else None),
                                   ('overwrite_b', b,
                                    pos[1] if len(pos) > 1 else None)):
            fv = kw.get(flag)
            if fv is not None and (I.truth(fv) is not False):
                if raw is not None:
                    I.effect('array-write', raw, node)
                    self.site('A-overwrite', node, 'ok',
                              '%s operand origins %s' % (
                                  flag, sorted(map(repr, raw.org))),
                              construct='%s=True' % flag)
        if a.dims is not None:
            if len(a.dims) != 2:
                self.site('S-ndim', node, 'violation',
                          'lstsq needs a 2-D left-hand side, got %d axes %s'
                          % (len(a.dims), _ds(a.dims)))
                return TUPLE([ARR(None, 'f'), ARR(None, 'f'), INT(),
                              ARR((None,), 'f')])
            self.site('S-ndim', node, 'ok')
        else:
            self.site('S-ndim', node, 'unknown', 'lhs not typed')
            return TUPLE([ARR(None, 'f'), ARR(None, 'f'), INT(),
                          ARR((None,), 'f')])
        sol = ARR(None, 'f', taint=a.taint | b.taint)
        if b.dims is not None and len(b.dims) in (1, 2):
            self.unify(a.dims[0], b.dims[0], node, 'S-solve',
                       {'A': _ds(a.dims), 'b': _ds(b.dims)},
                       what='rows of the least-squares system')
            sol.dims = (a.dims[1],) + tuple(b.dims[1:])
        elif b.dims is not None:
            self.site('S-ndim', node, 'violation',
                      'lstsq right-hand side has %d axes' % len(b.dims))
        return TUPLE([sol, ARR(None, 'f'), INT(), ARR((None,), 'f')])

    def x_numpy_linalg_lstsq(self, pos, kw, node, env):
        return self._lstsq(pos, kw, node, env, False)

    def x_scipy_linalg_lstsq(self, pos, kw, node, env):
        return self._lstsq(pos, kw, node, env, True)

    def x_scipy_linalg_toeplitz(self, pos, kw, node, env):
        a = self.as_arr(pos[0])
        n = a.dims[0] if a.dims else None
        return ARR((n, n), 'f')

    # ------------------------------------------------------------------
    # randomness
    def x_numpy_random_default_rng(self, pos, kw, node, env):
        seed = pos[0] if pos else kw.get('seed')
        where = self.I.where()
        ok = where == 'utils._rand'
        self.site('R-rng-ctor', node, 'ok' if ok else 'violation',
                  '' if ok else 'numpy.random.default_rng constructed outside '
                  'utils._rand')
        pv = 'seeded'
        if seed is not None and seed.pv is not None:
            pv = seed.pv if seed.pv != 'seedarg' else 'seeded'
        return GEN(pv)

    def global_random(self, name, pos, kw, node):
        self.site('R-global', node, 'violation',
                  'draw from the process-wide NumPy generator (%s)' % name,
                  construct=name)
        return ARR(None, 'f')


def promote_dt(a, b):
    order = {'b': 0, 'i': 1, 'f': 2, 'c': 3, 'o': 4, None: 5}
    if a.dt is None or b.dt is None:
        return None
    return a.dt if order[a.dt] >= order[b.dt] else b.dt


def _ds(dims):
    if dims is None:
        return '?'
    return '[' + ', '.join('?' if d is None else repr(d) for d in dims) + ']'
