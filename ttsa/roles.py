"""Name-independent identification of local variables by their definition.

Rules never rely on how a local variable is spelt: they ask for the variable
that plays a *role* (bound to element k of ``<param>.shape``, unpacked from
position k of a call of a given callee, ...) and get the actual name used by
the current source.  A wholesale rename of locals leaves every rule intact.
"""
import ast

_CACHE = {}


def _assigns(fn_node):
    for node in ast.walk(fn_node):
        if isinstance(node, ast.Assign) and len(node.targets) == 1:
            yield node.targets[0], node.value, node
        elif isinstance(node, ast.AnnAssign) and node.value is not None:
            yield node.target, node.value, node


def shape_names(fn, param=0):
    """Names bound by ``a, b, ... = <param>.shape`` (tuple of names or None).
    ``param`` is a position or a parameter name."""
    pname = fn.params[param] if isinstance(param, int) else param
    for tgt, val, _ in _assigns(fn.node):
        if isinstance(val, ast.Attribute) and val.attr == 'shape' and \
                isinstance(val.value, ast.Name) and val.value.id == pname and \
                isinstance(tgt, ast.Tuple) and \
                all(isinstance(e, ast.Name) for e in tgt.elts):
            return tuple(e.id for e in tgt.elts)
    return None


def shape_name(fn, param, k):
    """Name bound to element k of <param>.shape (tuple unpack or subscript)."""
    key = (id(fn.node), 'shape', param, k)
    if key in _CACHE:
        return _CACHE[key]
    res = None
    names = shape_names(fn, param)
    if names is not None and -len(names) <= k < len(names):
        res = names[k]
    else:
        pname = fn.params[param] if isinstance(param, int) else param
        for tgt, val, _ in _assigns(fn.node):
            if isinstance(tgt, ast.Name) and isinstance(val, ast.Subscript) \
                    and isinstance(val.value, ast.Attribute) and \
                    val.value.attr == 'shape' and \
                    isinstance(val.value.value, ast.Name) and \
                    val.value.value.id == pname and \
                    isinstance(val.slice, ast.Constant) and \
                    val.slice.value == k:
                res = tgt.id
    _CACHE[key] = res
    return res


def resolve(fn, role):
    """role: a plain name (parameter / global) or ('shape', param, k)."""
    if isinstance(role, str):
        return role
    if isinstance(role, tuple) and role and role[0] == 'shape':
        return shape_name(fn, role[1], role[2])
    return None


def unpacked_from_call(prog, fn, callee_suffix, pos=None):
    """Names bound by ``a, b, .. = <call of callee>`` (all such assignments).
    With ``pos`` the single name at that position of the first match."""
    out = []
    for tgt, val, node in _assigns(fn.node):
        if isinstance(val, ast.Call) and \
                (prog.dotted(val.func) or '').endswith(callee_suffix):
            if isinstance(tgt, ast.Tuple) and \
                    all(isinstance(e, ast.Name) for e in tgt.elts):
                out.append(tuple(e.id for e in tgt.elts))
            elif isinstance(tgt, ast.Name):
                out.append((tgt.id,))
    if pos is None:
        return out
    for names in out:
        if -len(names) <= pos < len(names):
            return names[pos]
    return None


def names_in(node, exclude=()):
    return {x.id for x in ast.walk(node) if isinstance(x, ast.Name)
            and x.id not in exclude}


def assigned_value(fn_node, name):
    """All values assigned to the plain name inside the function."""
    return [val for tgt, val, _ in _assigns(fn_node)
            if isinstance(tgt, ast.Name) and tgt.id == name]


def same_expr(a, b):
    return ast.dump(a) == ast.dump(b)


def callee_of(prog, mod, call):
    """The teneva Function a call resolves to (or None)."""
    d = prog.dotted(call.func)
    r = prog.resolve_dotted(mod, d, ()) if d else None
    if r and r[0] == 'teneva' and hasattr(r[1], 'params'):
        return r[1]
    return None


def arg(prog, mod, call, name, pos=None):
    """The expression passed for parameter ``name`` of the callee, whether it
    is given positionally or by keyword.  ``pos`` is the fallback position
    when the callee cannot be resolved."""
    for k in call.keywords:
        if k.arg == name:
            return k.value
    fn = callee_of(prog, mod, call)
    if fn is not None:
        params = list(fn.params)
        if fn.cls is not None and params and params[0] == 'self':
            params = params[1:]
        if name in params:
            pos = params.index(name)
        else:
            pos = None
    if pos is not None and pos < len(call.args) and \
            not any(isinstance(a, ast.Starred) for a in call.args[:pos + 1]):
        return call.args[pos]
    return None


def arg_names(prog, mod, call):
    """{parameter name: expression} for every argument of a resolved call."""
    out = {}
    fn = callee_of(prog, mod, call)
    params = []
    if fn is not None:
        params = list(fn.params)
        if fn.cls is not None and params and params[0] == 'self':
            params = params[1:]
    for i, a in enumerate(call.args):
        if isinstance(a, ast.Starred):
            break
        out[params[i] if i < len(params) else i] = a
    for k in call.keywords:
        if k.arg is not None:
            out[k.arg] = k.value
    return out


def single_assignments(fn_node):
    """{name: value} for local names bound exactly once, by a plain
    ``name = <expr>`` statement (candidates for inlining)."""
    count, val = {}, {}
    for node in ast.walk(fn_node):
        if isinstance(node, ast.Name) and isinstance(node.ctx, ast.Store):
            count[node.id] = count.get(node.id, 0) + 1
        elif isinstance(node, ast.arg):
            count[node.arg] = count.get(node.arg, 0) + 2     # never inline
    for tgt, v, _ in _assigns(fn_node):
        if isinstance(tgt, ast.Name):
            val[tgt.id] = v
    return {n: v for n, v in val.items() if count.get(n) == 1}


def scalarish(e):
    """A defining expression that is a plain scalar / boolean computation
    (comparisons, arithmetic, subscripts, attributes, len / int / abs ...):
    safe to read in place of its temporary.  Array constructions,
    comprehensions and other calls (the user's objective!) are not."""
    for x in ast.walk(e):
        if isinstance(x, (ast.ListComp, ast.GeneratorExp, ast.DictComp,
                          ast.SetComp, ast.Lambda, ast.List, ast.Dict,
                          ast.Set, ast.Await, ast.Yield, ast.YieldFrom,
                          ast.JoinedStr)):
            return False
        if isinstance(x, ast.Call):
            f = x.func
            nm = f.id if isinstance(f, ast.Name) else (
                f.attr if isinstance(f, ast.Attribute) else None)
            if nm not in ('len', 'int', 'float', 'bool', 'abs', 'min', 'max',
                          'isinstance', 'isinf', 'isnan', 'isfinite', 'sqrt',
                          'log2', 'floor', 'get'):
                return False
    return True


def inline(fn_node, expr, depth=4, only=None):
    """The expression with single-assignment temporaries replaced by their
    defining expressions (``t = g(a); f(t)`` reads as ``f(g(a))``); ``only``
    restricts which defining expressions may be substituted."""
    import copy
    table = single_assignments(fn_node)
    if only is not None:
        table = {k: v for k, v in table.items() if only(v)}

    class R(ast.NodeTransformer):
        def __init__(self, d):
            self.d = d

        def visit_Name(self, n):
            if isinstance(n.ctx, ast.Load) and n.id in table and self.d > 0:
                v = copy.deepcopy(table[n.id])
                return R(self.d - 1).visit(v)
            return n
    return R(depth).visit(copy.deepcopy(expr))


def matvec(prog, node):
    """(M, v) when ``node`` is a matrix-vector / matrix-matrix product in any
    spelling: ``M.dot(v)``, ``M @ v``, ``np.dot(M, v)``, ``np.matmul(M, v)``."""
    if isinstance(node, ast.BinOp) and isinstance(node.op, ast.MatMult):
        return node.left, node.right
    if isinstance(node, ast.Call):
        f = prog.dotted(node.func) or ''
        if f in ('numpy.dot', 'numpy.matmul') and len(node.args) == 2:
            return node.args[0], node.args[1]
        if isinstance(node.func, ast.Attribute) and \
                node.func.attr == 'dot' and len(node.args) == 1 and \
                not f.startswith('numpy.'):
            return node.func.value, node.args[0]
    return None


def origins(fn_node, params):
    """{local name: set of parameter names it may be derived from}: a flow
    insensitive def-use closure over assignments, loop targets, enumerate /
    zip and comprehensions.  A name re-bound from a call that takes the name
    itself among its arguments (``a, b, n = prep(a, b, n, d)``) keeps its own
    identity (the normalising-helper idiom)."""
    org = {p: {p} for p in params}
    edges = []          # (target name, [source names], keeps_identity)

    def names(e):
        return [n.id for n in ast.walk(e) if isinstance(n, ast.Name)]

    def bind(t, v):
        if isinstance(t, ast.Name):
            edges.append((t.id, names(v)))
        elif isinstance(t, (ast.Tuple, ast.List)):
            if isinstance(v, (ast.Tuple, ast.List)) and \
                    len(v.elts) == len(t.elts):
                for a, b in zip(t.elts, v.elts):
                    bind(a, b)
            elif isinstance(v, ast.Call) and \
                    isinstance(v.func, ast.Name) and \
                    v.func.id in ('zip', 'enumerate'):
                args = list(v.args)
                if v.func.id == 'enumerate':
                    if len(t.elts) == 2 and args:
                        bind(t.elts[1], args[0])
                    return
                if len(args) == len(t.elts):
                    for a, b in zip(t.elts, args):
                        bind(a, b)
                    return
                for a in t.elts:
                    bind(a, v)
            elif isinstance(v, ast.Call):
                argn = names(v)
                for a in t.elts:
                    if isinstance(a, ast.Name) and a.id in argn:
                        edges.append((a.id, [a.id]))
                    else:
                        bind(a, v)
            else:
                for a in t.elts:
                    bind(a, v)
        elif isinstance(t, ast.Starred):
            bind(t.value, v)
    for node in ast.walk(fn_node):
        if isinstance(node, ast.Assign):
            for t in node.targets:
                bind(t, node.value)
        elif isinstance(node, ast.AugAssign):
            bind(node.target, node.value)
        elif isinstance(node, ast.AnnAssign) and node.value is not None:
            bind(node.target, node.value)
        elif isinstance(node, (ast.For, ast.comprehension)):
            bind(node.target, node.iter)
        elif isinstance(node, ast.NamedExpr):
            bind(node.target, node.value)
    changed = True
    while changed:
        changed = False
        for t, srcs in edges:
            cur = org.setdefault(t, set())
            add = set()
            for s in srcs:
                add |= org.get(s, set())
            if not add <= cur:
                cur |= add
                changed = True
    return org


# ---------------------------------------------------------------------------
# Predicate helpers.  A test that calls a small side-effect free helper of the
# package (``if _reached(info, 'e', e):``) reads as the helper's own condition:
# the body -- early ``if c: return K`` guards, single-assignment temporaries
# and a final ``return <expr>`` -- is turned into ONE expression with the
# arguments substituted for the parameters.
def _body_expr(stmts, env):
    """Expression computed by the statement list, or None when the body is
    outside the fragment."""
    import copy

    def subst(e):
        class R(ast.NodeTransformer):
            def visit_Name(self, n):
                if isinstance(n.ctx, ast.Load) and n.id in env:
                    return copy.deepcopy(env[n.id])
                return n
        return R().visit(copy.deepcopy(e))
    stmts = [s for s in stmts if not (isinstance(s, ast.Expr) and
                                      isinstance(s.value, ast.Constant))]
    if not stmts:
        return None
    st = stmts[0]
    if isinstance(st, ast.Return):
        if st.value is None:
            return ast.Constant(value=None)
        v = subst(st.value)
        if isinstance(v, ast.Call) and isinstance(v.func, ast.Name) and \
                v.func.id == 'bool' and len(v.args) == 1:
            v = v.args[0]
        return v
    if isinstance(st, ast.Assign) and len(st.targets) == 1 and \
            isinstance(st.targets[0], ast.Name):
        env2 = dict(env)
        env2[st.targets[0].id] = subst(st.value)
        return _body_expr(stmts[1:], env2)
    if isinstance(st, ast.If):
        a = _body_expr(st.body, env)
        b = _body_expr((st.orelse or []) + stmts[1:], env) \
            if not st.orelse or True else None
        if a is None or b is None:
            return None
        t = subst(st.test)
        # boolean constants fold into and / or / not
        if isinstance(a, ast.Constant) and a.value is False:
            return ast.BoolOp(op=ast.And(), values=[
                ast.UnaryOp(op=ast.Not(), operand=t), b])
        if isinstance(a, ast.Constant) and a.value is True:
            return ast.BoolOp(op=ast.Or(), values=[t, b])
        if isinstance(b, ast.Constant) and b.value is False:
            return ast.BoolOp(op=ast.And(), values=[t, a])
        if isinstance(b, ast.Constant) and b.value is True:
            return ast.BoolOp(op=ast.Or(), values=[
                ast.UnaryOp(op=ast.Not(), operand=t), a])
        return ast.IfExp(test=t, body=a, orelse=b)
    return None


def expand_predicates(prog, mod, expr, depth=2):
    """``expr`` with calls of small package helpers replaced by the expression
    they compute (see above); calls that do not fit are left alone."""
    import copy
    if depth <= 0 or expr is None:
        return expr

    class X(ast.NodeTransformer):
        def visit_Call(self, n):
            self.generic_visit(n)
            fn = None
            try:
                fn = callee_of(prog, mod, n)
            except Exception:
                fn = None
            if fn is None or isinstance(fn.node, ast.Lambda) or \
                    fn.cls is not None:
                return n
            if any(isinstance(x, (ast.For, ast.While, ast.With, ast.Try,
                                  ast.Yield, ast.AugAssign))
                   for x in ast.walk(fn.node)):
                return n
            if any(isinstance(a, ast.Starred) for a in n.args) or \
                    any(k.arg is None for k in n.keywords):
                return n
            env = {}
            params = list(fn.params)
            for p, a in zip(params, n.args):
                env[p] = a
            for k in n.keywords:
                env[k.arg] = k.value
            dfl = fn.defaults()
            for p in fn.all_params:
                if p not in env:
                    if p in dfl:
                        env[p] = dfl[p]
                    else:
                        return n
            e = _body_expr(fn.node.body, env)
            if e is None:
                return n
            e = expand_predicates(prog, fn.module, e, depth - 1)
            ast.copy_location(e, n)
            for sub in ast.walk(e):
                if not hasattr(sub, 'lineno'):
                    ast.copy_location(sub, n)
            return e
    return X().visit(copy.deepcopy(expr))
