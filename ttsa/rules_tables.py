"""F-table (thorough): bounded constant folding of integer permutation tables
with the checker's own tiny evaluator (arange / reshape / hstack only).

svd_matrix builds a permutation of the 2q binary axes that pairs row bit k
with column bit k; full_matrix must apply the inverse permutation.  Both
vectors are folded for q = 1..6 and required to be mutually inverse."""
import ast
import itertools

from . import model, paths


class IArr:
    """Tiny integer nd-array: flat list in C order + shape."""

    def __init__(self, data, shape):
        self.data = list(data)
        self.shape = tuple(shape)

    def reshape(self, shape, order='C'):
        shape = list(shape)
        n = len(self.data)
        if -1 in shape:
            k = 1
            for s in shape:
                if s != -1:
                    k *= s
            shape[shape.index(-1)] = n // k
        if order == 'C':
            return IArr(self.data, shape)
        # Fortran order: read elements in F order, write in F order
        flat_f = self.ravel_f()
        return IArr.from_f(flat_f, shape)

    def ravel_f(self):
        idx = itertools.product(*[range(s) for s in reversed(self.shape)])
        out = []
        for rev in idx:
            ix = tuple(reversed(rev))
            out.append(self.get(ix))
        return out

    def get(self, ix):
        off = 0
        for i, s in zip(ix, self.shape):
            off = off * s + i
        return self.data[off]

    @staticmethod
    def from_f(flat_f, shape):
        n = 1
        for s in shape:
            n *= s
        data = [0] * n
        it = itertools.product(*[range(s) for s in reversed(shape)])
        for v, rev in zip(flat_f, it):
            ix = tuple(reversed(rev))
            off = 0
            for i, s in zip(ix, shape):
                off = off * s + i
            data[off] = v
        return IArr(data, shape)


def _ev(node, env):
    if isinstance(node, ast.Constant):
        return node.value
    if isinstance(node, ast.Name):
        return env[node.id]
    if isinstance(node, ast.UnaryOp) and isinstance(node.op, ast.USub):
        return -_ev(node.operand, env)
    if isinstance(node, ast.BinOp):
        l, r = _ev(node.left, env), _ev(node.right, env)
        if isinstance(node.op, ast.Mult):
            return l * r
        if isinstance(node.op, ast.Add):
            return l + r
        if isinstance(node.op, ast.Sub):
            return l - r
        raise ValueError('op')
    if isinstance(node, ast.Tuple):
        return tuple(_ev(e, env) for e in node.elts)
    if isinstance(node, ast.Call):
        f = node.func
        if isinstance(f, ast.Attribute) and f.attr == 'arange':
            a = [_ev(x, env) for x in node.args]
            return IArr(range(*a), (len(range(*a)),))
        if isinstance(f, ast.Attribute) and f.attr == 'hstack':
            parts = _ev(node.args[0], env)
            rows = parts[0].shape[0]
            data = []
            for i in range(rows):
                for p in parts:
                    w = p.shape[1]
                    data.extend(p.data[i * w:(i + 1) * w])
            return IArr(data, (rows, sum(p.shape[1] for p in parts)))
        if isinstance(f, ast.Attribute) and f.attr == 'reshape':
            base = _ev(f.value, env)
            args = [_ev(x, env) for x in node.args]
            if len(args) == 1 and isinstance(args[0], (tuple, list)):
                args = list(args[0])
            order = 'C'
            for k in node.keywords:
                if k.arg == 'order':
                    order = _ev(k.value, env)
            return base.reshape(args, order)
    raise ValueError(type(node).__name__)


def _assigned(fn, name):
    for node in ast.walk(fn.node):
        if isinstance(node, ast.Assign) and \
                isinstance(node.targets[0], ast.Name) and \
                node.targets[0].id == name:
            return node.value
    return None


def check_interleave(prog, rep, rule='F-table'):
    f1 = prog.func('svd.svd_matrix')
    f2 = prog.func('transformation.full_matrix')
    bad = None
    n = 0
    for q in range(1, 7):
        try:
            env = {'q': q}
            env['ind1'] = _ev(_assigned(f1, 'ind1'), env)
            env['ind2'] = _ev(_assigned(f1, 'ind2'), env)
            p1 = _ev(_assigned(f1, 'prm'), env).data
            p2 = _ev(_assigned(f2, 'prm'), {'q': q}).data
        except Exception as e:
            rep.unknown(rule, 'svd.svd_matrix/transformation.full_matrix',
                        'permutation vectors', 'not in the supported '
                        'fragment: %r' % (e,))
            return
        n += 1
        # transposing by p1 then by p2 must restore the axis order
        comp = [p1[j] for j in p2]
        if sorted(p1) != list(range(2 * q)) or comp != list(range(2 * q)):
            bad = (q, p1, p2)
            break
        # p1 interleaves row bit k with column bit k
        if p1 != [x for k in range(q) for x in (k, q + k)]:
            bad = (q, p1, p2)
            break
    rep.add(rule, 'svd.svd_matrix/transformation.full_matrix',
            'bit interleaving permutation and its inverse, q = 1..%d' % n,
            'ok' if bad is None else 'violation',
            '' if bad is None else 'for q=%d svd_matrix permutes the binary '
            'axes by %s and full_matrix by %s: not mutually inverse / not the '
            'row-bit, column-bit interleaving' % bad)
    # both reshape with Fortran order
    for fn, nm in ((f1, 'svd.svd_matrix'), (f2, 'transformation.full_matrix')):
        orders = []
        for node in ast.walk(fn.node):
            if isinstance(node, ast.Call) and \
                    isinstance(node.func, ast.Attribute) and \
                    node.func.attr == 'reshape':
                for k in node.keywords:
                    if k.arg == 'order':
                        orders.append(paths.src(fn.module, k.value))
        rep.add(rule + '-order', nm, 'reshape orders %s' % orders,
                'ok' if orders and all(o in ("'F'", 'order') for o in orders)
                else 'violation', 'binary digits must be split / merged in '
                'Fortran order on both sides')
