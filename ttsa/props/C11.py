"""C11 — degenerate inputs give well-formed finite tensors (structural)."""
import ast

from .. import model, paths, specs
from .common import sweep, check_tt_returns, decided_split, pre, S_RULES, \
    modes_from, tt_skeleton
from ..engine import tt_wellformed
from ..poly import Poly

# TT-returning functions: expected mode sizes (prefix of the size symbols) or
# None (only neighbour consistency / boundary ranks are checked)
TT_FUNCS = {
    'transformation.truncate': 'Y.n',
    'transformation.orthogonalize': 'Y.n',
    'transformation.orthogonalize_left': 'Y.n',
    'transformation.orthogonalize_right': 'Y.n',
    'svd.svd': 'Y_full.n',
    'act_two.add': 'n', 'act_two.sub': 'n', 'act_two.mul': 'n',
    'act_many.add_many': 'n',
    'cross.cross': 'Y0.n', 'als.als': 'Y0.n',
    'func.func_int': 'Y.n',
    'tensors.const': 'n.', 'tensors.delta': 'n.', 'tensors.poly': 'n.',
    'tensors.rand': 'n.', 'tensors.rand_norm': 'n.', 'tensors.rand_stab': 'n.',
    'tensors.rand_custom': 'n.',
    'act_two.outer': None, 'act_many.outer_many': None,
    'anova.anova': None, 'anova_func.anova_func': None,
    'act_one.tt_to_qtt': None, 'act_one.qtt_to_tt': None,
    'svd.svd_matrix': None, 'func.func_gets': None,
    'func.func_int_general': 'n', 'als_func.als_func': None,
}
WEAK = {'svd.svd_incomplete', 'cross_act.cross_act'}   # skeleton only
SCALAR_FUNCS = ['act_one.norm', 'act_one.sum', 'act_one.mean',
                'act_two.mul_scalar', 'props.erank', 'act_two.accuracy']

# denominators accepted although data derived: (function, construct) -> why
ACCEPTED_DEN = {
    ('act_two.accuracy', '/ np.linalg.norm(Y2)'):
        'dense convenience path of accuracy(): documented as the plain '
        'linalg.norm ratio of two numpy arrays (no TT-tensor involved)',
}


def _taints(v, acc, seen=None):
    seen = seen if seen is not None else set()
    if v is None or id(v) in seen:
        return acc
    seen.add(id(v))
    acc |= set(v.taint)
    for x in (v.items or []):
        _taints(x, acc, seen)
    return acc


def check(an, rep, tier):
    prog = an.prog
    rep.explanation = decided_split(
        'S-ret every routine that returns a TT-tensor returns a well-formed '
        'one (3-axis float cores, boundary ranks 1, matching neighbour ranks, '
        'expected mode sizes) for unconstrained symbolic sizes — hence also '
        'for rank 1, d = 2, mode size 1 and ranks larger than a core can '
        'carry — and every documented flag literal; S-floor the truncated '
        'factorisations keep max(1, .) as the rank floor; G-ret no division / '
        'reciprocal / log whose denominator is data derived and not guarded '
        '(dominating test on the same value, masked np.divide, literal, '
        'size-positive) flows into a returned tensor or into norm / sum / '
        'mean / mul_scalar / erank / accuracy; P-sentinel accuracy returns '
        '-1 on the degenerate branch, which dominates the quotient; V-show '
        'the library\'s own validator vis.show checks the same structure.',
        'overflow / underflow, finiteness of LAPACK factorisations on finite '
        'input, NaN coming from the user\'s data.')
    rep.assumptions = pre('PRE-TT', 'PRE-D', 'PRE-N2', 'PRE-DOC')
    rep.trusted = ['NumPy model', 'accepted-denominator table in props/C11.py']
    ds = (2, 3) if tier == 'quick' else (2, 3, 4, 5)
    lb = {}
    for k in range(5):
        for p in ('A.n', 'Y.n'):
            lb['%s%d' % (p, k)] = 2
    lb['mnew'] = 2
    cheb = {'func.func_int', 'func.func_gets', 'func.func_int_general'}
    all_runs = []
    for q, pref in sorted(TT_FUNCS.items()):
        vs = specs.variants(q)
        if vs is None:
            rep.error('no entry spec for %s' % q)
            continue
        for vi in range(len(vs)):
            for d in ds:
                opts = {'lower_bounds': lb} if q in cheb else None
                r = an.run(q, vi, d, opts)
                all_runs.append(r)
                modes = None
                if pref is not None and not (
                        q == 'func.func_gets' and 'm' in r.variant):
                    modes = [Poly.sym('%s%d' % (pref, k)) for k in range(d)]
                for j, rv in enumerate(r.returns):
                    if rv.k in ('int', 'float'):
                        continue        # number op number
                    if rv.k == 'tuple' and rv.items and \
                            rv.items[0].k == 'list':
                        rv = rv.items[0]       # (Z, p) with use_stab
                    st, detail = tt_wellformed(rv, modes)
                    rep.add('S-ret', q, 'return path %d of %s' % (j, r.tag()),
                            st, detail)
    for q in sorted(WEAK):
        for vi in range(len(specs.variants(q))):
            for d in ds:
                r = an.run(q, vi, d)
                all_runs.append(r)
                for j, rv in enumerate(r.returns):
                    st, detail = tt_skeleton(rv, d)
                    rep.add('S-ret-skel', q, 'return path %d of %s'
                            % (j, r.tag()), st, detail)
    scal_runs = []
    for q in SCALAR_FUNCS:
        for vi in range(len(specs.variants(q))):
            for d in ds:
                scal_runs.append(an.run(q, vi, d))
    # --- G-ret
    seen_ok = set()
    for r in all_runs + scal_runs:
        acc = set()
        for rv in r.returns:
            _taints(rv, acc)
        for t in sorted(acc):
            where, _, rest = t.partition(':')
            line, _, construct = rest.partition(' ')
            construct = construct.strip()
            if (where, construct) in ACCEPTED_DEN:
                rep.ok('G-ret', where, construct,
                       detail='accepted: ' + ACCEPTED_DEN[(where, construct)])
                continue
            rep.violation('G-ret', where, construct,
                          'the result of %s depends on a division whose '
                          'denominator is data derived and not guarded against '
                          'zero: NaN / inf for degenerate input (first seen '
                          'in %s)' % (r.qualname, r.tag()),
                          line=int(line) if line.isdigit() else None,
                          file=prog.modules[where.split('.')[0]].path)
        for s in r.I.sites:
            if s.rule in ('G-div', 'G-log') and s.status == 'ok':
                rep.ok(s.rule, s.where, s.construct, detail=s.detail)
            if s.rule == 'G-sqrt' and s.status in ('ok', 'violation') and \
                    s.where in ('svd.matrix_svd', 'svd.matrix_skeleton'):
                rep.add('G-sqrt', s.where, s.construct, s.status, s.detail,
                        line=getattr(s.node, 'lineno', None),
                        file=s.mod.path if s.mod else None)
            if s.rule == 'K-empty':
                # an emptiness test that cannot fire lets the mean of an empty
                # selection (NaN) into the cores
                rep.add('K-empty', s.where, s.construct, s.status, s.detail,
                        line=getattr(s.node, 'lineno', None),
                        file=s.mod.path if s.mod else None)
    # --- S-floor: rank floor in both truncated factorisations, decided on
    # the VALUE of the truncated bond (see rules_formula.check_rank_value)
    from .. import rules_formula as _RF
    for q in ('svd.matrix_svd', 'svd.matrix_skeleton'):
        _RF.check_rank_value(an, rep, q, rule='F-rank')
    # --- P-sentinel, on the abstract runs of accuracy() for TT arguments:
    # the quotient of the two stabilised norms is computed only behind a test
    # that excludes a tiny |denominator|, and the degenerate case returns the
    # documented sentinel -1 (found by value, not by statement shape)
    fn = prog.func('act_two.accuracy')
    mod = fn.module
    for r in scal_runs:
        if r.qualname != 'act_two.accuracy' or not any(
                c_[0] == 'act_one.norm' for c_ in r.I.call_log):
            continue                # dense convenience path
        sent = any(rv.has_const() and rv.c == -1 for rv in r.returns)
        divs = [s for s in r.I.sites if s.rule == 'G-div' and
                s.where == 'act_two.accuracy' and
                (s.where, s.construct) not in ACCEPTED_DEN]
        bad = [s for s in divs if s.status != 'ok']
        if bad:
            st_, det_ = 'violation', 'the quotient %s is not dominated by ' \
                'the test that sends a tiny |denominator| to the sentinel ' \
                '-1' % bad[0].construct
        elif divs and sent:
            st_, det_ = 'ok', ''
        elif divs:
            st_, det_ = 'unknown', 'the quotient is guarded but no return ' \
                'path yields the sentinel -1'
        else:
            st_, det_ = 'unknown', 'quotient of the two norms not found'
        rep.add('P-sentinel', 'act_two.accuracy', 'return -1 when |z2| tiny '
                '(%s)' % r.tag(), st_, det_, line=fn.node.lineno,
                file=mod.path)
    # accuracy_on_data: "if I_data or y_data is not provided the function
    # returns -1" -- by abstract execution of the three None patterns
    from .. import interp as _interp
    fd = prog.func('data.accuracy_on_data')
    for what, extra in (('I_data and y_data missing',
                         {'I_data': ('lit', None), 'y_data': ('lit', None)}),
                        ('y_data missing',
                         {'I_data': 'I[m,d]', 'y_data': ('lit', None)}),
                        ('I_data missing',
                         {'I_data': ('lit', None), 'y_data': 'f[m]'})):
        v_ = dict(Y='tt')
        v_.update(extra)
        I_ = _interp.Interp(prog, {'split': dict(specs.DEFAULT_SPLIT),
                                   'summary': dict(specs.DEFAULT_SUMMARY)})
        try:
            I_.run_function(fd, specs.build_args(v_, 2))
        except Exception as e_:     # an abstract run must never look decided
            rep.unknown('P-sentinel', 'data.accuracy_on_data', what, repr(e_))
            continue
        rets_ = I_.entry_returns
        good = bool(rets_) and all(x.has_const() and x.c == -1
                                   for x in rets_) and not I_.raises
        bad_ = any(not (x.has_const() and x.c == -1) and x.k != 'top'
                   for x in rets_) or (not rets_ and I_.raises)
        rep.add('P-sentinel', 'data.accuracy_on_data', 'returns -1 with %s'
                % what, 'ok' if good else ('violation' if bad_ else
                                           'unknown'),
                '' if good else 'with %s the documented sentinel -1 is not '
                'what every path returns (returns %r, raises %r)'
                % (what, rets_, I_.raises), line=fd.node.lineno,
                file=fd.module.path)
    # --- V-show
    fn = prog.func('vis.show')
    txt = model.norm_src(fn.module, fn.node)
    need = ['len(G.shape) != 3', 'G.shape[0] != r[-1]', 'r[-1] != 1']
    miss = [n for n in need if n.replace(' ', '') not in txt.replace(' ', '')]
    rep.add('V-show', 'vis.show', 'validator: 3-D cores, matching bonds, '
            'last rank 1', 'ok' if not miss else 'unknown',
            '' if not miss else 'validator changed: %s' % miss)
    # the verdict of the validator, by abstract execution on literal shapes:
    # a well-formed train is accepted, each kind of malformation is rejected
    from ..values import ARR as _ARRv, LIST as _LISTv
    from .common import dom3 as _dom3v

    def _cores(shapes):
        return _LISTv([_ARRv(tuple(Poly.const(x) for x in s_), 'f')
                       for s_ in shapes])
    for what, shapes, bad in (
            ('a well-formed train', [(1, 3, 2), (2, 4, 3), (3, 2, 1)], False),
            ('a well-formed pair', [(1, 3, 2), (2, 4, 1)], False),
            ('right boundary rank 3', [(1, 3, 2), (2, 4, 3)], True),
            ('left boundary rank 2', [(2, 3, 2), (2, 4, 1)], True),
            ('bond mismatch 2 / 3', [(1, 3, 2), (3, 4, 1)], True),
            ('a 2-axis core', [(1, 3, 2), (2, 4)], True)):
        I_ = _interp.Interp(prog, {})
        try:
            I_.run_function(fn, {'Y': _cores(shapes)})
        except Exception as e_:
            rep.unknown('V-show', 'vis.show', what, repr(e_))
            continue
        st_v, d_v = _dom3v(I_.raises, I_.entry_returns, bad)
        rep.add('V-show', 'vis.show', '%s is %s' % (
            what, 'rejected' if bad else 'accepted'), st_v,
            '' if st_v == 'ok' else 'the validator\'s verdict on %s (core '
            'shapes %s) is wrong: %s' % (what, shapes, d_v),
            line=fn.node.lineno, file=fn.module.path)
    rep.floor('S-ret', 80, 'TT results typed')
    rep.floor('G-div', 8, 'guarded divisions')
    rep.floor('S-floor', 2, 'rank floors')
