"""C03 — TT-SVD bound, capped ranks, matrix variant (structural clauses)."""
import ast

from .. import model, paths, rules_formula as F
from .common import sweep, decided_split, pre, S_RULES, modes_from
from ..engine import tt_wellformed
from ..poly import Poly


def check(an, rep, tier):
    prog = an.prog
    rep.explanation = decided_split(
        'O-sweep in the left-to-right sweep of svd() the factor reshaped '
        'into each finished core has orthonormal columns and the remainder '
        'carries the weights; O-summary matrix_skeleton returns '
        '(weighted, rows) / (cols, weighted) / (half, half) for give_to = '
        'l / r / m and matrix_svd returns an orthonormal-row right factor on '
        'both Gram sides; O-gram the three m-vs-n selectors agree; U-cmp tail '
        'energies are compared with e^2 in one unit (absolute e; with rel=True '
        'both sides dimensionless); F-rank rank = max(1, min(cap, len - '
        'dropped)); S-* the unfolding reshapes of svd / svd_matrix are '
        'consistent and S-ret the result is well formed with the input mode '
        'sizes; F-table (thorough) the bit-interleaving permutations of '
        'svd_matrix and full_matrix are mutually inverse for q <= 6.',
        'the error bound and quasi-optimality numerically, exact-rank '
        'reproduction, best-approximation property of the factor products.')
    rep.assumptions = pre('PRE-D', 'PRE-DOC')
    rep.trusted = ['orthogonality axioms of numpy.linalg.svd / eigh']
    ds = (2, 3) if tier == 'quick' else (2, 3, 4, 5)
    wh = {'utils._reshape', 'svd.svd', 'svd.svd_matrix', 'svd.matrix_svd', 'svd.matrix_skeleton',
          'transformation.full_matrix', 'transformation.full'}
    runs = sweep(an, rep, ['svd.svd', 'svd.svd_matrix', 'svd.matrix_skeleton',
                           'svd.matrix_svd', 'transformation.full_matrix'], ds,
                 rules=S_RULES + ['U-cmp', 'U-abs', 'O-gram', 'G-cancel', 'G-sqrt'],
                 wheres=wh)
    want = {"'l'": ('weighted', 'rows'), "'r'": ('cols', 'weighted'),
            "'m'": ('half', 'half')}
    for r in runs:
        q = r.qualname
        if q == 'svd.svd':
            for j, rv in enumerate(r.returns):
                st, detail = tt_wellformed(rv, modes_from('Y_full.n')(r))
                rep.add('S-ret', q, 'return path %d of %s' % (j, r.tag()),
                        st, detail)
                if rv.k == 'list' and rv.items:
                    states = [c.orth for c in rv.items]
                    ok = all(s == 'cols3' for s in states[:-1])
                    bad = [k for k, s in enumerate(states[:-1])
                           if s in ('weighted3', 'half3', 'rows3')]
                    rep.add('O-sweep', q, 'finished cores after the '
                            'left-to-right sweep (d=%d)' % r.d,
                            'ok' if ok else ('violation' if bad else
                                             'unknown'),
                            '' if ok else 'core states %s: every finished '
                            'core of TT-SVD must have orthonormal columns '
                            '(the error bound sqrt(d-1) e needs it) and the '
                            'weights must travel with the remainder; cores %s '
                            'keep %s' % (states, bad,
                                         [states[k] for k in bad]))
        elif q == 'svd.matrix_skeleton' and r.d == ds[0]:
            g = r.variant.get('give_to', ('lit', 'm'))
            key = repr(g[1])
            for rv in r.returns:
                if rv.k == 'tuple' and len(rv.items) == 2:
                    got = (rv.items[0].orth, rv.items[1].orth)
                    rep.add('O-summary', q, 'give_to=%s' % key,
                            'ok' if got == want[key] else 'violation',
                            '' if got == want[key] else 'factors are %s, the '
                            'documented distribution of the singular values '
                            'is %s' % (got, want[key]))
        elif q == 'svd.matrix_svd' and r.d == ds[0]:
            for j, rv in enumerate(r.returns):
                if rv.k == 'tuple' and len(rv.items) == 2:
                    got = rv.items[1].orth
                    rep.add('O-summary', q, 'right factor, case %d (%s)'
                            % (j, r.tag()),
                            'ok' if got == 'rows' else
                            ('violation' if got in ('weighted', 'half',
                                                    'cols') else 'unknown'),
                            '' if got == 'rows' else 'right factor state %s'
                            % got)
    # --- P-forward: the accuracy of every truncated factorisation of the
    # sweep is the per-unfolding accuracy e the caller asked for (the same
    # object in the abstract run, or the same literal when it is the default)
    for r in runs:
        if r.qualname not in ('svd.svd', 'svd.svd_matrix'):
            continue
        entry = [a for (q_, a, _res) in r.I.call_log if q_ == r.qualname]
        if not entry or not isinstance(entry[-1], dict) or \
                'e' not in entry[-1]:
            continue
        e0 = entry[-1]['e']
        for (q_, a, _res), meta in zip(r.I.call_log, r.I.call_meta):
            if q_ not in ('svd.matrix_skeleton', 'svd.matrix_svd') or \
                    not isinstance(a, dict) or 'e' not in a:
                continue
            caller = meta.get('caller') or ''
            if not (caller == r.qualname or
                    caller.startswith(r.qualname + '.') or
                    caller.startswith(r.qualname.split('.')[0] + '._')):
                continue
            e1 = a['e']
            if e1 is e0 or (e0.has_const() and e1.has_const() and
                            e0.c == e1.c):
                st_, det_ = 'ok', ''
            elif e0.has_const() and e1.has_const():
                st_, det_ = 'violation', \
                    'the caller asks for the per-unfolding accuracy %r, ' \
                    'the factorisation of an unfolding is run with %r' \
                    % (e0.c, e1.c)
            else:
                st_, det_ = 'unknown', 'the accuracy handed on is not the ' \
                    'caller\'s object'
            rep.add('P-forward', r.qualname, '%s receives the caller\'s e '
                    '(%s)' % (q_, r.tag()), st_, det_)
    _rel_norm(prog, rep)
    F.check_selectors(prog, rep)
    F.check_rank_value(an, rep, 'svd.matrix_svd')
    F.check_rank_value(an, rep, 'svd.matrix_skeleton')
    # (cheap: also in the quick tier)
    from .. import rules_tables
    rules_tables.check_interleave(prog, rep)
    rep.floor('O-sweep', 2, 'TT-SVD typestates')
    rep.floor('O-summary', 5, 'factor summaries')
    rep.floor('O-gram', 2, 'selectors')
    rep.floor('F-rank', 2, 'rank formulas')
    rep.floor('P-forward', 4, 'forwarded accuracy')
    rep.floor('P-rel-norm', 1, 'relative tail measure')
    rep.floor('S-ret', 4, 'results')
    rep.floor('S-reshape', 3, 'unfolding reshapes')


def _rel_norm(prog, rep):
    """rel=True measures the tail energy relative to the LARGEST singular
    value: every division executed only under ``rel`` must divide by element 0
    (or the max) of the singular-value vector.  Any other divisor is a
    violation; no such division at all means the anchor vanished (floor)."""
    from .. import paths
    fsk = prog.func('svd.matrix_skeleton')
    # the name(s) bound to the singular values of the SVD call
    svals = set()
    for node in ast.walk(fsk.node):
        if isinstance(node, ast.Assign) and isinstance(node.value, ast.Call) \
                and (prog.dotted(node.value.func) or '').endswith('linalg.svd') \
                and isinstance(node.targets[0], ast.Tuple) \
                and len(node.targets[0].elts) == 3 \
                and isinstance(node.targets[0].elts[1], ast.Name):
            svals.add(node.targets[0].elts[1].id)

    def is_largest(den):
        if isinstance(den, ast.Subscript) and isinstance(den.value, ast.Name) \
                and den.value.id in svals and \
                isinstance(den.slice, ast.Constant) and den.slice.value == 0:
            return True
        if isinstance(den, ast.Call):
            f = prog.dotted(den.func) or ''
            if f in ('numpy.max', 'numpy.amax', 'max') and den.args and \
                    isinstance(den.args[0], ast.Name) and \
                    den.args[0].id in svals:
                return True
            if isinstance(den.func, ast.Attribute) and \
                    den.func.attr == 'max' and \
                    isinstance(den.func.value, ast.Name) and \
                    den.func.value.id in svals and not den.args:
                return True
        return False

    for node in ast.walk(fsk.node):
        den = None
        if isinstance(node, ast.BinOp) and isinstance(node.op, ast.Div):
            den = node.right
        elif isinstance(node, ast.AugAssign) and isinstance(node.op, ast.Div):
            den = node.value
        if den is None:
            continue
        gs = paths.guards_of(fsk.node, node)
        under_rel = any(pol and isinstance(t, ast.Name) and t.id == 'rel'
                        for t, pol in gs)
        if not under_rel:
            continue
        good = is_largest(den)
        rep.add('P-rel-norm', 'svd.matrix_skeleton',
                'rel=True: singular values divided by the largest one',
                'ok' if good else 'violation',
                '' if good else 'with rel=True the tail energy must be '
                'measured relative to the largest singular value; the divisor '
                'here is %s' % ast.unparse(den),
                line=node.lineno, file=fsk.module.path)
