"""C19 — explicit constructors (structural clauses)."""
import ast
from fractions import Fraction

from .. import model, paths, specs, rules_formula as F, rules_rng
from .common import sweep, decided_split, pre, S_RULES, modes_from
from ..engine import tt_wellformed
from ..poly import Poly, same
from ..values import INT


def check(an, rep, tier):
    prog = an.prog
    rep.explanation = decided_split(
        'U-deg const and delta carry the value v with total degree 1 over the '
        'cores on both branches of the |v| > 1e-16 test (d-th root on each '
        'core + sign on one; tiny v on one core); vector_delta / matrix_delta '
        'store v into exactly one core and 1 elsewhere; T-pattern the cores '
        'of poly are [1, g], [[1, g], [0, 1]], [g*scale; scale], i.e. the '
        'running sum is propagated and closed to scale * sum (symbolic 2x2 '
        'check); S-ret / S-reshape every constructor returns a well-formed '
        'tensor of the requested shape and rank profile (scalar and '
        'per-bond ranks), the flat random vector is cut into pieces of '
        'exactly n_i r_i r_{i+1} entries; P-domain / F-bits the QTT index '
        'helpers reject positions outside [-2^q, 2^q), map negatives by +2^q '
        'and emit q little-endian digits (constant-folded for q <= 3); '
        'P-zero the zero entry of const is stored only under its guard; '
        'R-draw the random constructors draw from teneva._rand(seed).',
        'distribution of the random entries, "stays of order one".')
    rep.assumptions = pre('PRE-D', 'PRE-DOC', 'PRE-NUM')
    rep.trusted = ['NumPy model']
    ds = (2, 3) if tier == 'quick' else (2, 3, 4, 5)
    ctors = ['tensors.const', 'tensors.delta', 'tensors.poly', 'tensors.rand',
             'tensors.rand_custom', 'tensors.rand_norm', 'tensors.rand_stab',
             'vectors.vector_delta', 'matrices.matrix_delta']
    wh = set(ctors) | {'tensors.rand.f', 'tensors.rand_norm.f',
                       'tensors.poly._get', 'utils._vector_index_prepare',
                       'utils._vector_index_expand', 'grid.grid_prep_opt'}
    runs = sweep(an, rep, ctors, ds, wheres=wh)
    for r in runs:
        q = r.qualname
        if q.startswith('tensors.'):
            for j, rv in enumerate(r.returns):
                st, detail = tt_wellformed(rv, modes_from('n.')(r))
                if st == 'ok' and q in ('tensors.rand', 'tensors.rand_norm',
                                        'tensors.rand_stab',
                                        'tensors.rand_custom'):
                    rk = r.variant.get('r')
                    for k, c in enumerate(rv.items[:-1]):
                        want = Poly.sym('r') if rk == 'int:r' else \
                            Poly.sym('r.r%d' % (k + 1))
                        from .common import cmp3_free
                        # the requested ranks and the mode sizes are free
                        # inputs: a bond that is the requested rank only for
                        # some orderings of them is not the requested rank
                        c3 = cmp3_free(c.dims[2], want)
                        if c3 != 'ok' and st != 'violation':
                            st, detail = c3, \
                                'bond %d is %r, requested %r' % (
                                    k + 1, c.dims[2], want)
                if st == 'ok' and q in ('tensors.const', 'tensors.delta',
                                        'tensors.poly'):
                    want = 1 if q != 'tensors.poly' else 2
                    for k, c in enumerate(rv.items[:-1]):
                        from .common import cmp3
                        c3 = cmp3(c.dims[2], Poly.const(want))
                        if c3 != 'ok' and st != 'violation':
                            st, detail = c3, 'bond %d is %r, ' \
                                'expected %d' % (k + 1, c.dims[2], want)
                rep.add('S-ret', q, 'return path %d of %s' % (j, r.tag()), st,
                        detail)
            if q in ('tensors.const', 'tensors.delta') and \
                    'I_zero' not in r.variant:
                for j, rv in enumerate(r.returns):
                    if rv.k != 'list':
                        continue
                    degs = [(c.deg or {}).get('v', Fraction(0))
                            if c.deg is not None else None for c in rv.items]
                    alts = [c.deg_alt for c in rv.items]
                    if any(x is None for x in degs) and all(
                            (c.deg is not None) or c.deg_alt
                            for c in rv.items):
                        # some cores were filled on a path that depends on an
                        # undecided test of the data: the alternatives of one
                        # test are taken together
                        n_alt = max(len(a_) for a_ in alts if a_)
                        tots = []
                        for k_ in range(n_alt):
                            t_ = Fraction(0)
                            for c in rv.items:
                                if c.deg is not None:
                                    t_ += c.deg.get('v', Fraction(0))
                                else:
                                    a_ = c.deg_alt[min(k_, len(c.deg_alt) - 1)]
                                    t_ += a_.get('v', Fraction(0))
                            tots.append(t_)
                        bad = [t_ for t_ in tots if t_ != 1]
                        # NOT a violation: the alternatives come from a test
                        # the analysis cannot decide, and a branch taken only
                        # for a special value (v == 0) legitimately has another
                        # degree.  It stays undecided; the per-function floor
                        # below then reports that the degree is no longer
                        # established (exit 2).
                        rep.add('U-deg', q, 'degree of v over the cores, return '
                                'path %d at d=%d' % (j, r.d),
                                'unknown' if bad else 'ok',
                                '' if not bad else 'depending on a test of '
                                'the data that is not decided by the '
                                'magnitude case the value enters the cores '
                                'with total degree %s' %
                                sorted(set(map(str, tots))))
                        continue
                    if any(x is None for x in degs):
                        rep.unknown('U-deg', q, 'degree of v, path %d at d=%d'
                                    % (j, r.d), 'not typed: %s' % degs)
                        continue
                    tot = sum(degs)
                    rep.add('U-deg', q, 'degree of v over the cores, return '
                            'path %d at d=%d' % (j, r.d),
                            'ok' if tot == 1 else 'violation',
                            '' if tot == 1 else 'the value enters the cores '
                            'with total degree %s (per core %s): the tensor '
                            'would equal v**%s times a constant' % (tot, degs,
                                                                    tot))
        elif q in ('vectors.vector_delta', 'matrices.matrix_delta'):
            rv = r.result
            ok = rv.k == 'list' and rv.items is not None and \
                len(rv.items) == 3 and all(
                    c.k == 'arr' and c.dims is not None and
                    len(c.dims) == (3 if q.startswith('vectors') else 4)
                    for c in rv.items)
            rep.add('S-ret', q, 'q=3 cores for %s' % r.tag(),
                    'ok' if ok else 'violation', '' if ok else repr(rv))
    F.check_poly_pattern(prog, rep)
    # --- every store into a 4-axis core of matrix_delta addresses the two
    # inner axes with the same pair of digit vectors in the same order (the
    # store of v into the last core is a sibling of the stores of 1)
    fmd = prog.func('matrices.matrix_delta')
    orders = []
    for node in ast.walk(fmd.node):
        if isinstance(node, ast.Assign) and \
                isinstance(node.targets[0], ast.Subscript) and \
                isinstance(node.targets[0].slice, ast.Tuple) and \
                len(node.targets[0].slice.elts) == 4:
            mid = node.targets[0].slice.elts[1:3]
            roots = []
            for m_ in mid:
                r_ = m_
                while isinstance(r_, ast.Subscript):
                    r_ = r_.value
                roots.append(r_.id if isinstance(r_, ast.Name) else None)
            if None not in roots and roots[0] != roots[1]:
                orders.append((tuple(roots), node))
    if len(orders) >= 2:
        ref = orders[0][0]
        for o_, node in orders[1:]:
            same_set = set(o_) == set(ref)
            rep.add('T-pattern', 'matrices.matrix_delta', 'inner axes of the '
                    'core stores are addressed alike (line %d)' % node.lineno,
                    'ok' if o_ == ref else ('violation' if same_set
                                            else 'unknown'),
                    '' if o_ == ref else 'this store addresses the two inner '
                    'axes as %s, the other stores as %s: the entry lands in '
                    'the transposed slot of the core' % (o_, ref),
                    line=node.lineno, file=fmd.module.path)
    # --- one-core rule for the QTT deltas
    for q in ('vectors.vector_delta', 'matrices.matrix_delta'):
        fn = prog.func(q)
        mod = fn.module
        vstores = []
        others = []
        for node in ast.walk(fn.node):
            if isinstance(node, ast.Assign) and \
                    isinstance(node.targets[0], ast.Subscript):
                if isinstance(node.value, ast.Name) and node.value.id == 'v':
                    vstores.append(node)
                elif isinstance(node.value, ast.Constant):
                    others.append(node)
        from ..rules_formula import returned_name
        res = returned_name(fn.node)

        def into_last_core(t):
            # <result>[-1][...] = v
            b = t.value if isinstance(t, ast.Subscript) else None
            return isinstance(b, ast.Subscript) and \
                isinstance(b.value, ast.Name) and b.value.id == res and \
                isinstance(b.slice, ast.UnaryOp) and \
                isinstance(b.slice.op, ast.USub) and \
                isinstance(b.slice.operand, ast.Constant) and \
                b.slice.operand.value == 1
        ok = len(vstores) == 1 and all(o.value.value == 1. for o in others) \
            and into_last_core(vstores[0].targets[0])
        # found-but-wrong: v stored into several cores / into another slot /
        # a literal other than 1 in the other cores; no recognisable store at
        # all is decided by the degree facet below
        bad = (len(vstores) > 1) or any(
            isinstance(o.value.value, (int, float)) and
            not isinstance(o.value.value, bool) and
            o.value.value not in (0, 1) for o in others)
        rep.add('U-deg', q, 'v stored into exactly one (the last) core, 1 '
                'elsewhere', 'ok' if ok else ('violation' if bad else
                                              'unknown'),
                '' if ok else 'stores of v: %s ; other literals: %s'
                % ([paths.src(mod, s) for s in vstores],
                   [paths.src(mod, s) for s in others]))
    # the same as a value fact: the value enters the cores with total degree 1
    for r in runs:
        if r.qualname not in ('vectors.vector_delta',
                              'matrices.matrix_delta'):
            continue
        rv = r.result
        if rv.k != 'list' or not rv.items:
            continue
        if any(c.degq or c.deg_alt for c in rv.items):
            rep.unknown('U-deg', r.qualname, 'degree of v over the cores (%s)'
                        % r.tag(), 'degree of a core not established')
            continue
        degs = [(c.deg or {}).get('v', Fraction(0)) for c in rv.items]
        tot = sum(degs)
        one = sum(1 for x in degs if x != 0) == 1
        rep.add('U-deg', r.qualname, 'degree of v over the cores (%s)'
                % r.tag(), 'ok' if tot == 1 and one else 'violation',
                '' if tot == 1 and one else 'the value enters the cores with '
                'degrees %s: it must enter exactly one core, once'
                % [str(x) for x in degs])
    # --- negative positions count from the end: the delta constructors must
    # place v by indexing (or after normalising the position), never through a
    # by-value comparison of the position with arange(n)
    for r in runs:
        if r.qualname not in ('tensors.delta', 'vectors.vector_delta',
                              'matrices.matrix_delta'):
            continue
        for s_ in r.I.sites:
            if s_.rule == 'K-negidx':
                rep.violation('K-negidx', s_.where, s_.construct,
                              s_.detail + ' (the delta constructors document '
                              'negative positions as counted from the end)',
                              line=getattr(s_.node, 'lineno', None),
                              file=s_.mod.path if s_.mod else None)
        rep.ok('K-negidx', r.qualname, 'position placed by indexing') \
            if not any(s_.rule == 'K-negidx' for s_ in r.I.sites) else None
    # --- index helpers, constant folded for q <= 3
    from .. import interp
    fn_p = prog.func('utils._vector_index_prepare')
    fn_e = prog.func('utils._vector_index_expand')
    bad = []
    undecided = []
    n_cases = 0
    for qq in (1, 2, 3):
        N = 1 << qq
        for i in range(-N - 1, N + 1):
            n_cases += 1
            I = interp.Interp(prog, {})
            res = I.run_function(fn_p, {'q': INT(qq), 'i': INT(i)})
            raised = bool(I.raises) and not I.entry_returns
            if I.raises and I.entry_returns:
                undecided.append((qq, i))
                continue
            if i >= N or i < -N:
                if not raised:
                    bad.append('prepare(q=%d, i=%d) is not rejected' % (qq, i))
                continue
            want = i if i >= 0 else N + i
            if not raised and not (res.k == 'int' and res.has_const()):
                undecided.append((qq, i))       # value not folded
                continue
            if raised or res.c != want:
                bad.append('prepare(q=%d, i=%d) -> %r, expected %d'
                           % (qq, i, res, want))
                continue
            I2 = interp.Interp(prog, {})
            r2 = I2.run_function(fn_e, {'q': INT(qq), 'i': INT(want)})
            bits = [(want >> k) & 1 for k in range(qq)]
            got = [x.c for x in r2.items] if r2.k == 'list' and \
                r2.items is not None and all(x.has_const()
                                             for x in r2.items) else None
            if got is None:
                undecided.append((qq, want))
            elif got != bits:
                bad.append('expand(q=%d, i=%d) -> %r, expected %s'
                           % (qq, want, got, bits))
    rep.add('F-bits', 'utils._vector_index_prepare/_expand',
            '%d (q, i) cases, q <= 3' % n_cases,
            'violation' if bad else ('unknown' if undecided else 'ok'),
            '; '.join(bad[:3]) if bad else (
                'not folded to constants for %s' % undecided[:4]
                if undecided else ''))
    # --- P-zero
    fn = prog.func('tensors.const')
    mod = fn.module
    z = [n for n in ast.walk(fn.node) if isinstance(n, ast.Assign) and
         isinstance(n.value, ast.Constant) and n.value.value == 0. and
         isinstance(n.targets[0], ast.Subscript)]
    ok = bool(z)
    prot = 'i_non_zero'                     # documented parameter
    for s_ in z:
        tgt = s_.targets[0]
        # <cores>[k][0, E, 0] = 0 : E is the zeroed position of core k
        E = kx = None
        if isinstance(tgt.slice, ast.Tuple) and len(tgt.slice.elts) == 3 and \
                isinstance(tgt.value, ast.Subscript):
            E, kx = tgt.slice.elts[1], tgt.value.slice
        good = False
        if E is not None:
            dE = ast.dump(E)
            want_prot = ast.dump(ast.Subscript(
                value=ast.Name(id=prot, ctx=ast.Load()), slice=kx,
                ctx=ast.Load()))

            def atomise(node):
                # N = (i_non_zero is None), D = (E != i_non_zero[k])
                if isinstance(node, ast.Compare) and len(node.ops) == 1:
                    l, r, op = node.left, node.comparators[0], \
                        type(node.ops[0])
                    if op in (ast.Is, ast.IsNot) and \
                            isinstance(l, ast.Name) and l.id == prot and \
                            isinstance(r, ast.Constant) and r.value is None:
                        return ('N', op is ast.Is)
                    pair = {ast.dump(l), ast.dump(r)}
                    if pair == {dE, want_prot} and op in (ast.Eq, ast.NotEq):
                        return ('D', op is ast.NotEq)
                return None
            from .. import rules_proto as _P
            gs_ = _P.norm_guards(prog, fn, s_)
            good = bool(paths.entails(gs_, atomise,
                                      lambda a: a['N'] or a['D']))
        ok = ok and good
    # the guard is GONE when nothing in the function compares a position with
    # the protected index any more; a guard that exists but is not recognised
    # (moved into a closure, a for / else search) is not decided here
    still_compared = any(
        isinstance(n_, ast.Compare) and any(
            isinstance(x_, ast.Name) and x_.id == prot
            for x_ in ast.walk(n_)) and
        any(isinstance(o_, (ast.Eq, ast.NotEq)) for o_ in n_.ops)
        for n_ in ast.walk(fn.node))
    rep.add('P-zero', 'tensors.const', 'zero entry stored only where the '
            'zero index differs from the protected index',
            'ok' if ok else ('unknown' if (still_compared or not z)
                             else 'violation'),
            '' if ok else 'the store of the zero entry is no longer guarded '
            'by "i_non_zero is None or i_zero[k] != i_non_zero[k]"')
    raises = [n for n in ast.walk(fn.node) if isinstance(n, ast.Raise)]
    rep.add('P-domain', 'tensors.const', 'conflicting requests raise',
            'ok' if raises else 'violation',
            '' if raises else 'the ValueError for an unseparable zero index '
            'is gone')
    # --- randomness
    for mod_, fn_, call in rules_rng.draw_sites(prog):
        if mod_.name != 'tensors':
            continue
        pv, txt = rules_rng.local_provenance(prog, mod_, fn_, call)
        rep.add('R-draw-local', fn_.qualname, model.norm_src(mod_, call.func),
                'ok' if pv in ('seeded', 'param') else 'violation',
                'receiver %s (%s)' % (txt, pv))
    rep.floor('S-ret', 20, 'constructor results')
    for q_ in ('tensors.const', 'tensors.delta'):
        have = rep.count(rule='U-deg', status='ok', where=q_) + \
            rep.count(rule='U-deg', status='violation', where=q_)
        if have < len(ds):
            rep.error('%s: the degree of v is established on %d return paths '
                      'only (%d expected: one per d)'
                      % (q_, have, len(ds)))
    rep.floor('U-deg', 6, 'value degrees')
    rep.floor('T-pattern', 3, 'poly cores')
    rep.floor('S-reshape', 1, 'random core cuts')
    rep.floor('F-bits', 1, 'index helpers')
    rep.floor('K-negidx', 3, 'negative positions of the delta constructors')
    rep.floor('R-draw-local', 3, 'random constructors')
