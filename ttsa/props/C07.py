"""C07 — TT-ALS (structural clauses)."""
import ast

from .. import model, paths, rules_proto as P
from .common import sweep, check_tt_returns, decided_split, pre, S_RULES, \
    modes_from
from ..poly import Poly, same


def _names(node):
    return {x.id for x in ast.walk(node) if isinstance(x, ast.Name)}


def _solve_via(prog, rep, qual, core_var='Q'):
    """Every store into the core being optimised takes its value from the
    result of _lstsq called with the caller's lamb and a slice of w."""
    fn = prog.func(qual)
    mod = fn.module
    n = 0
    for node in ast.walk(fn.node):
        for t, v in paths.stores_in(node):
            if not (isinstance(t, ast.Subscript) and
                    isinstance(t.value, ast.Name) and t.value.id == core_var):
                continue
            n += 1
            construct = paths.src(mod, node)
            used = _names(v)
            # nearest preceding assignment of a used name from _lstsq(...)
            ok = False
            why = 'value does not come from _lstsq'
            blk = getattr(node, '_parent', None)
            body = None
            for name, b in paths._blocks(blk) if blk is not None else []:
                if node in b:
                    body = b
            prev = body[:body.index(node)] if body else []
            for st in reversed(prev):
                if isinstance(st, ast.Assign) and isinstance(st.value, ast.Call) \
                        and (prog.dotted(st.value.func) or '').endswith('_lstsq'):
                    tgts = set()
                    for tt in st.targets:
                        tgts |= _names(tt)
                    if not (tgts & used):
                        continue
                    kws = {k.arg: k.value for k in st.value.keywords}
                    lam_ok = 'lamb' in kws and 'lamb' in _names(kws['lamb'])
                    w_ok = 'w' in kws and 'w' in _names(kws['w'])
                    ok = lam_ok and w_ok
                    why = 'ok' if ok else '_lstsq is called without lamb= / w= '\
                        'forwarded (lamb %s, w %s)' % (lam_ok, w_ok)
                    break
            rep.add('P-solve-via', qual, construct, 'ok' if ok else 'violation',
                    '' if ok else 'a slice of the core is updated by a value '
                    'that bypasses the regularised, weighted least-squares '
                    'helper: %s' % why, line=node.lineno, file=mod.path)
    return n


def _lstsq_weights(prog, rep, qual='als._lstsq'):
    fn = prog.func(qual)
    mod = fn.module
    found = 0
    for node in ast.walk(fn.node):
        if isinstance(node, ast.If) and isinstance(node.test, ast.Compare) and \
                isinstance(node.test.left, ast.Name) and \
                node.test.left.id == 'w' and \
                isinstance(node.test.ops[0], ast.IsNot):
            found += 1
            assigns = {}
            for st in node.body:
                if isinstance(st, ast.Assign) and \
                        isinstance(st.targets[0], ast.Name):
                    assigns[st.targets[0].id] = st.value
            # every assigned quantity of the weighted branch depends on w
            dep = set()
            changed = True
            while changed:
                changed = False
                for k, v in assigns.items():
                    if k not in dep and (('w' in _names(v)) or
                                         (_names(v) & dep)):
                        dep.add(k)
                        changed = True
            other = {}
            for st in node.orelse:
                if isinstance(st, ast.Assign) and \
                        isinstance(st.targets[0], ast.Name):
                    other[st.targets[0].id] = st.value
            need = set(other) & set(assigns) if other else \
                set(assigns) - {'AW'}
            miss = sorted(k for k in need if k not in dep)
            rep.add('U-weight', qual, paths.src(mod, node.test) + ' branch: ' +
                    ', '.join(sorted(assigns)),
                    'ok' if not miss else 'violation',
                    '' if not miss else 'in the weighted branch %s does not '
                    'depend on w' % miss, line=node.lineno, file=mod.path)
    if found < 2:
        rep.error('%s: expected two weighted branches, found %d' % (qual, found))
    # ridge term
    ok = False
    for node in ast.walk(fn.node):
        if isinstance(node, ast.Call) and \
                (prog.dotted(node.func) or '').endswith('lstsq') and node.args:
            a0 = node.args[0]
            if isinstance(a0, ast.BinOp) and isinstance(a0.op, ast.Add) and \
                    'lamb' in _names(a0) and 'AtA' in _names(a0):
                ok = True
    rep.add('U-ridge', qual, 'AtA + lamb * I', 'ok' if ok else 'violation',
            '' if ok else 'the normal equations are no longer regularised by '
            'lamb * identity')


def check(an, rep, tier):
    prog = an.prog
    rep.explanation = decided_split(
        'K-empty the test that skips a slice is applied to something whose '
        'truth value means "no samples" (not to an index array); S-* the '
        'interface updates (einsum + out= operand), the normal equations and '
        'the core reshape are dimension consistent for symbolic ranks / sample '
        'count in both half-sweeps (als, als_func); S-ret constant-rank mode '
        'returns the shape and ranks of the initial tensor; P-solve-via every '
        'slice update goes through _lstsq with lamb and w forwarded; U-weight '
        'w enters both AtA and Aty; U-ridge the system is AtA + lamb I; '
        'P-validate missing slices are rejected unless allow_skip_cores; '
        'P-stop-* sweep counter, callback and stop protocol (shared with '
        'C06); O-sweep the adaptive mode passes the weights toward the core '
        'visited next.',
        'monotone descent, per-core optimality values, restart equivalence, '
        'sample-order independence.')
    rep.assumptions = pre('PRE-TT', 'PRE-D', 'PRE-IDX', 'PRE-DOC')
    rep.trusted = ['NumPy model', 'stop-writer table']
    ds = (2, 3) if tier == 'quick' else (2, 3, 4)
    wh = {'als.als', 'als._lstsq', 'als._optimize_core',
          'als._optimize_core_adaptive', 'als_func.als_func',
          'als_func._optimize_core'}
    runs = sweep(an, rep, ['als.als', 'als_func.als_func'], ds,
                 rules=S_RULES + ['K-empty'], wheres=wh)
    const_rank = [r for r in runs if r.qualname == 'als.als' and
                  'r' not in r.variant]
    for r in const_rank:
        for j, rv in enumerate(r.returns):
            from ..engine import tt_wellformed
            st, detail = tt_wellformed(rv, modes_from('Y0.n')(r))
            if st == 'ok':
                # ranks equal to those of Y0
                for k, c in enumerate(rv.items[:-1]):
                    if not same(c.dims[2], Poly.sym('Y0.r%d' % (k + 1))):
                        st, detail = 'violation', 'bond %d is %r, Y0 has %s' % (
                            k + 1, c.dims[2], 'Y0.r%d' % (k + 1))
            rep.add('S-ret', 'als.als', 'return path %d of %s' % (j, r.tag()),
                    st, detail)
    _solve_via(prog, rep, 'als._optimize_core')
    _solve_via(prog, rep, 'als._optimize_core_adaptive')
    _lstsq_weights(prog, rep)
    # --- P-validate
    fn = prog.func('als.als')
    mod = fn.module
    ok = False
    for node in ast.walk(fn.node):
        if isinstance(node, ast.Raise):
            gs = paths.guards_of(fn.node, node)
            t = [(paths.src(mod, g), pol) for g, pol in gs]
            if any('allow_skip_cores' in s and pol for s, pol in t) and \
                    any('unique' in s and '.shape[1]' in s and pol
                        for s, pol in t):
                wl = [n for n in ast.walk(fn.node) if isinstance(n, ast.While)]
                if wl and node.lineno < wl[0].lineno:
                    ok = True
    rep.add('P-validate', 'als.als', 'slice coverage check',
            'ok' if ok else 'violation',
            '' if ok else 'missing-slice data is no longer rejected (under '
            'not allow_skip_cores, before the first sweep)')
    P.check_stop_writers(prog, rep, functions={'als.als', 'utils._info_appr',
                                                'als_func.als_func'})
    P.check_sweep_epilogue(prog, rep, 'als.als')
    P.check_sweep_epilogue(prog, rep, 'als_func.als_func')
    # --- O-sweep (adaptive): give_to follows the direction
    fn = prog.func('als._optimize_core_adaptive')
    for node in ast.walk(fn.node):
        if isinstance(node, ast.Call) and \
                (prog.dotted(node.func) or '').endswith('matrix_skeleton'):
            kws = {k.arg: k.value for k in node.keywords}
            g = kws.get('give_to')
            ok = isinstance(g, ast.IfExp) and \
                isinstance(g.test, ast.Name) and g.test.id == 'ltr' and \
                isinstance(g.body, ast.Constant) and g.body.value == 'r' and \
                isinstance(g.orelse, ast.Constant) and g.orelse.value == 'l'
            rep.add('O-sweep', 'als._optimize_core_adaptive',
                    paths.src(fn.module, node)[:80],
                    'ok' if ok else 'violation',
                    '' if ok else 'the weights of the two-core split must go '
                    'to the core visited next (give_to="r" when ltr else "l")',
                    line=node.lineno, file=fn.module.path)
    from .. import rules_proto as _RP
    _callers = {f.qualname for f in prog.all_functions()
                if f.module.name in ('als', 'als_func')}
    _RP.check_param_forwarding(prog, rep, callers=_callers)
    rep.floor('K-empty', 1, 'emptiness tests')
    rep.floor('S-einsum-out', 3, 'interface updates')
    rep.floor('S-ret', 4, 'constant-rank results')
    rep.floor('P-solve-via', 3, 'core slice updates')
    rep.floor('U-weight', 2, 'weighted branches')
    rep.floor('P-stop-writers', 4, 'stop writers')
