"""C07 — TT-ALS (structural clauses)."""
import ast

from .. import model, paths, rules_proto as P
from .common import sweep, check_tt_returns, decided_split, pre, S_RULES, \
    modes_from
from ..poly import Poly, same


def _names(node):
    return {x.id for x in ast.walk(node) if isinstance(x, ast.Name)}


def _enclosing(node, kinds):
    cur = getattr(node, '_parent', None)
    while cur is not None and not isinstance(cur, kinds):
        cur = getattr(cur, '_parent', None)
    return cur


def _solve_via(prog, rep, qual):
    """Every slice store inside a loop that solves a least-squares problem
    takes its value from the result of _lstsq called with the caller's lamb
    and a slice of w.  The loop and the stores are found from the _lstsq call
    sites (no variable names involved)."""
    fn = prog.func(qual)
    mod = fn.module
    n = 0
    loops = []
    for node in ast.walk(fn.node):
        if isinstance(node, ast.Assign) and isinstance(node.value, ast.Call) \
                and (prog.dotted(node.value.func) or '').endswith('_lstsq'):
            lp = _enclosing(node, (ast.For, ast.While))
            if lp is not None and lp not in loops:
                loops.append(lp)
    seen = set()
    for lp in loops:
        for node in ast.walk(lp):
            for t, v in paths.stores_in(node):
                if not (isinstance(t, ast.Subscript) and
                        isinstance(t.value, ast.Name)) or id(node) in seen:
                    continue
                seen.add(id(node))
                n += 1
                construct = paths.src(mod, node)
                used = _names(v)
                ok = False
                why = 'value does not come from _lstsq'
                blk = getattr(node, '_parent', None)
                body = None
                for name, b in paths._blocks(blk) if blk is not None else []:
                    if node in b:
                        body = b
                prev = body[:body.index(node)] if body else []
                for st in reversed(prev):
                    if isinstance(st, ast.Assign) and \
                            isinstance(st.value, ast.Call) and \
                            (prog.dotted(st.value.func) or ''
                             ).endswith('_lstsq'):
                        tgts = set()
                        for tt in st.targets:
                            tgts |= _names(tt)
                        if not (tgts & used):
                            continue
                        kws = {k.arg: k.value for k in st.value.keywords}
                        lam_ok = 'lamb' in kws and \
                            'lamb' in _names(kws['lamb'])
                        w_ok = 'w' in kws and 'w' in _names(kws['w'])
                        ok = lam_ok and w_ok
                        why = 'ok' if ok else '_lstsq is called without ' \
                            'lamb= / w= forwarded (lamb %s, w %s)' % (
                                lam_ok, w_ok)
                        break
                rep.add('P-solve-via', qual, construct,
                        'ok' if ok else 'violation',
                        '' if ok else 'a slice of the core is updated by a '
                        'value that bypasses the regularised, weighted '
                        'least-squares helper: %s' % why, line=node.lineno,
                        file=mod.path)
    return n


def _weighted_branches(fn_node, wname='w'):
    """(if-node, weighted statements, unweighted statements) for every test of
    ``w is not None`` / ``w is None`` / ``not (...)`` in either arm order."""
    for node in ast.walk(fn_node):
        if not isinstance(node, ast.If):
            continue
        t, flip = node.test, False
        while isinstance(t, ast.UnaryOp) and isinstance(t.op, ast.Not):
            t, flip = t.operand, not flip
        if not (isinstance(t, ast.Compare) and len(t.ops) == 1 and
                isinstance(t.left, ast.Name) and t.left.id == wname and
                isinstance(t.comparators[0], ast.Constant) and
                t.comparators[0].value is None):
            continue
        if isinstance(t.ops[0], ast.Is):
            flip = not flip
        elif not isinstance(t.ops[0], ast.IsNot):
            continue
        yield (node, node.orelse, node.body) if flip else \
            (node, node.body, node.orelse)


def _lstsq_weights(prog, rep, qual='als._lstsq'):
    fn = prog.func(qual)
    mod = fn.module
    found = 0
    for k_, (node, wbody, ubody) in enumerate(_weighted_branches(fn.node)):
        found += 1
        assigns = {}
        for st in wbody:
            if isinstance(st, ast.Assign) and \
                    isinstance(st.targets[0], ast.Name):
                assigns[st.targets[0].id] = st.value
        # every assigned quantity of the weighted branch depends on w
        dep = set()
        changed = True
        while changed:
            changed = False
            for k, v in assigns.items():
                if k not in dep and (('w' in _names(v)) or
                                     (_names(v) & dep)):
                    dep.add(k)
                    changed = True
        other = {}
        for st in ubody:
            if isinstance(st, ast.Assign) and \
                    isinstance(st.targets[0], ast.Name):
                other[st.targets[0].id] = st.value
        # quantities that leave the branch: those the other arm also defines,
        # or (when it defines none) those not consumed inside the branch
        if other:
            need = set(other) & set(assigns)
        else:
            inner = set()
            for v in assigns.values():
                inner |= _names(v) & set(assigns)
            need = {k for k in assigns if k not in inner or
                    k in fn.all_params}
        miss = sorted(k for k in need if k not in dep)
        rep.add('U-weight', qual, 'weighted branch #%d of _lstsq: every '
                'quantity that leaves it depends on w' % (k_ + 1),
                'ok' if not miss else 'violation',
                '' if not miss else 'in the weighted branch %s does not '
                'depend on w' % miss, line=node.lineno, file=mod.path)
    if found < 2:
        rep.unknown('U-weight', qual, 'weighted branches of _lstsq',
                    'found %d test(s) of the weight argument' % found)
    # --- the same as a VALUE fact: with a weight vector marked as a scalar of
    # degree 1, both operands handed to the LAPACK solve carry degree 1 in it
    # (normal equations A^T W A x = A^T W y, or  W A x = W y), with and
    # without regularisation; an operand that is KNOWN not to depend on the
    # weights is the violation
    from .. import interp as _interp
    from ..values import ARR as _ARR, FLOAT as _FLOAT, NONE as _NONE
    from ..poly import Poly as _Poly
    from fractions import Fraction as _Fr
    for lam_name, lam in (('lamb given', _FLOAT()), ('lamb=None', _NONE())):
        I_ = _interp.Interp(prog, {})
        m_, k_ = _Poly.sym('m'), _Poly.sym('k')
        w_ = _ARR((m_,), 'f')
        w_.deg = {'w': _Fr(1)}
        I_.run_function(fn, {'A': _ARR((m_, k_), 'f'), 'y': _ARR((m_,), 'f'),
                             'lamb': lam, 'w': w_})
        sites = [s for s in I_.sites if s.rule == 'U-operands']
        for s in sites:
            degs = s.facts['deg']
            if any(d is None for d in degs):
                st2, det2 = 'unknown', 'degree of an operand not established'
            elif all(d.get('w') == 1 for d in degs):
                st2, det2 = 'ok', ''
            else:
                st2, det2 = 'violation', 'with a weight vector the operands ' \
                    'of the solve have degrees %s in the weights: both the ' \
                    'matrix and the right-hand side must carry them once' % (
                        [str(d.get('w', 0)) for d in degs],)
            rep.add('U-weight', qual, 'operands of the solve carry the '
                    'weights (%s, line %d)' % (lam_name, s.node.lineno),
                    st2, det2, line=s.node.lineno, file=mod.path)
    # ridge term:  lstsq(<normal matrix> + lamb * identity, ...)
    st_, detail = 'unknown', 'regularised solve not found'
    for node in ast.walk(fn.node):
        if isinstance(node, ast.Call) and \
                (prog.dotted(node.func) or '').endswith('lstsq') and \
                node.args and _enclosing(node, ast.If) is not None:
            a0 = node.args[0]
            gs = paths.guards_of(fn.node, node)
            under_lamb = paths.holds(gs, 'lamb', ast.IsNot, 'None')
            if not under_lamb:
                continue
            reg = isinstance(a0, ast.BinOp) and isinstance(a0.op, ast.Add) \
                and any('lamb' in _names(x) and any(
                    isinstance(c, ast.Call) and
                    (prog.dotted(c.func) or '').split('.')[-1] in
                    ('identity', 'eye') for c in ast.walk(x))
                    for x in (a0.left, a0.right))
            st_ = 'ok' if reg else 'violation'
            detail = '' if reg else 'the normal equations are no longer ' \
                'regularised by lamb * identity'
    rep.add('U-ridge', qual, 'normal matrix + lamb * I', st_, detail)


def check(an, rep, tier):
    prog = an.prog
    rep.explanation = decided_split(
        'K-empty the test that skips a slice is applied to something whose '
        'truth value means "no samples" (not to an index array); S-* the '
        'interface updates (einsum + out= operand), the normal equations and '
        'the core reshape are dimension consistent for symbolic ranks / sample '
        'count in both half-sweeps (als, als_func); S-ret constant-rank mode '
        'returns the shape and ranks of the initial tensor; P-solve-via every '
        'slice update goes through _lstsq with lamb and w forwarded; U-weight '
        'w enters both AtA and Aty; U-ridge the system is AtA + lamb I; '
        'P-validate missing slices are rejected unless allow_skip_cores; '
        'P-stop-* sweep counter, callback and stop protocol (shared with '
        'C06); O-sweep the adaptive mode passes the weights toward the core '
        'visited next.',
        'monotone descent, per-core optimality values, restart equivalence, '
        'sample-order independence.')
    rep.assumptions = pre('PRE-TT', 'PRE-D', 'PRE-IDX', 'PRE-DOC')
    rep.trusted = ['NumPy model', 'stop-writer table']
    ds = (2, 3) if tier == 'quick' else (2, 3, 4, 5)
    wh = {'als.als', 'als._lstsq', 'als._optimize_core',
          'als._optimize_core_adaptive', 'als_func.als_func',
          'als_func._optimize_core'}
    runs = sweep(an, rep, ['als.als', 'als_func.als_func'], ds,
                 rules=S_RULES + ['K-empty'], wheres=wh)
    const_rank = [r for r in runs if r.qualname == 'als.als' and
                  'r' not in r.variant]
    for r in const_rank:
        for j, rv in enumerate(r.returns):
            from ..engine import tt_wellformed
            st, detail = tt_wellformed(rv, modes_from('Y0.n')(r))
            if st == 'ok':
                # ranks equal to those of Y0
                # (the ranks and mode sizes of the initial tensor are free
                # inputs, over-ranked cores included: a bond that is the
                # initial rank only when the rank is small enough is not it)
                from .common import cmp3_free
                for k, c in enumerate(rv.items[:-1]):
                    c3 = cmp3_free(c.dims[2], Poly.sym('Y0.r%d' % (k + 1)))
                    if c3 != 'ok' and st != 'violation':
                        st, detail = c3, 'bond %d is %r, Y0 has %s' % (
                            k + 1, c.dims[2], 'Y0.r%d' % (k + 1))
            rep.add('S-ret', 'als.als', 'return path %d of %s' % (j, r.tag()),
                    st, detail)
    _solve_via(prog, rep, 'als._optimize_core')
    _solve_via(prog, rep, 'als._optimize_core_adaptive')
    _lstsq_weights(prog, rep)
    # --- P-refresh: on every path through one step of a sweep the interface
    # of the NEXT core (index k +- 1 of an interface list) is recomputed after
    # the core update (no path may skip it: the following cores would be
    # solved against a stale interface)
    for qual_ in ('als.als', 'als_func.als_func'):
        fn_ = prog.func(qual_)

        def is_update(st):
            return any(isinstance(c, ast.Call) and
                       (prog.dotted(c.func) or '').split('.')[-1].startswith(
                           '_optimize_core') for c in ast.walk(st))

        def is_refresh(st, kv):
            def next_slot(x):
                return isinstance(x, ast.Subscript) and \
                    isinstance(x.slice, ast.BinOp) and \
                    isinstance(x.slice.op, (ast.Add, ast.Sub)) and \
                    isinstance(x.slice.left, ast.Name) and \
                    x.slice.left.id == kv and \
                    isinstance(x.slice.right, ast.Constant) and \
                    x.slice.right.value == 1
            for c in ast.walk(st):
                if isinstance(c, ast.Call):
                    for k_ in c.keywords:
                        if k_.arg == 'out' and next_slot(k_.value):
                            return True
            if isinstance(st, ast.Assign) and next_slot(st.targets[0]) and \
                    isinstance(st.value, ast.Call):
                return True
            return False
        n_loops = 0
        inner = []
        for c in ast.walk(fn_.node):
            if isinstance(c, ast.Call) and \
                    (prog.dotted(c.func) or '').split('.')[-1].startswith(
                        '_optimize_core'):
                lp_ = _enclosing(c, (ast.For, ast.While))
                if lp_ is not None and lp_ not in inner:
                    inner.append(lp_)
        for lp in inner:
            if not (isinstance(lp, ast.For) and
                    isinstance(lp.target, ast.Name)):
                continue
            n_loops += 1
            fake = ast.FunctionDef(name='step', args=None, body=[lp],
                                   decorator_list=[])
            bad = None
            maybe = False
            n_paths = 0
            local_defs = {n_.name for n_ in ast.walk(fn_.node)
                          if isinstance(n_, ast.FunctionDef) and
                          n_ is not fn_.node}

            def may_refresh(st):
                # a closure / private helper called after the update, or a
                # store into some other indexed slot, may be the refresh in
                # another spelling: not decided here
                for c in ast.walk(st):
                    if isinstance(c, ast.Call):
                        nm = (prog.dotted(c.func) or '').split('.')[-1]
                        if nm in local_defs or (nm.startswith('_') and
                                                not is_update(c)):
                            return True
                if isinstance(st, (ast.Assign, ast.AugAssign)):
                    tg = st.targets[0] if isinstance(st, ast.Assign) \
                        else st.target
                    if isinstance(tg, ast.Subscript) and \
                            not is_update(st):
                        return True
                return False
            for path in paths.paths(fake):
                evs = [e for e in path if e.kind == 'stmt']
                if not any(e.kind == 'loop' and e.pol for e in path):
                    continue
                upd = [i for i, e in enumerate(evs) if is_update(e.node)]
                if not upd:
                    continue
                n_paths += 1
                if isinstance(path[-1].node, (ast.Raise, ast.Return)):
                    continue
                after = evs[upd[-1]:]
                if not any(is_refresh(e.node, lp.target.id) for e in after):
                    if any(may_refresh(e.node) for e in after[1:]):
                        maybe = True
                    else:
                        bad = path
            rep.add('P-refresh', qual_, 'sweep loop over %s: the next '
                    'interface is refreshed after the core update on every '
                    'path (%d paths)' % (paths.src(fn_.module, lp.iter),
                                         n_paths),
                    'violation' if bad is not None else (
                        'unknown' if maybe else 'ok'),
                    '' if bad is None else 'a path through the sweep step '
                    'updates the core but leaves the loop body without '
                    'recomputing the interface of the next core (tests taken: '
                    '%s)' % ', '.join('%s=%s' % (paths.src(fn_.module, e.node),
                                                 e.pol)
                                      for e in bad if e.kind == 'test'
                                      and isinstance(e.node, ast.expr)),
                    line=lp.lineno, file=fn_.module.path)
    # --- P-validate
    fn = prog.func('als.als')
    mod = fn.module
    ok = False
    wrong_count = None
    for node in ast.walk(fn.node):
        if isinstance(node, ast.Raise):
            gs = paths.guards_of(fn.node, node)
            skip_off = any(isinstance(g, ast.Name) and
                           g.id == 'allow_skip_cores' and not pol
                           for g, pol in paths.guard_atoms(gs))

            def _is_unique_count(x):
                return any(isinstance(c, ast.Call) and
                           (prog.dotted(c.func) or '').endswith('unique')
                           for c in ast.walk(x))

            def _is_mode_size(x):
                return any(isinstance(c, ast.Subscript) and
                           isinstance(c.value, ast.Attribute) and
                           c.value.attr == 'shape' and
                           isinstance(c.slice, ast.Constant) and
                           c.slice.value == 1 for c in ast.walk(x))
            differs = any(oc is ast.NotEq and _is_unique_count(l) and
                          _is_mode_size(r)
                          for _, oc, _, l, r in paths.cmp_facts(gs))
            other = [paths.src(mod, l) for _, oc, _, l, r in
                     paths.cmp_facts(gs) if oc is ast.NotEq and
                     _is_mode_size(r) and not _is_unique_count(l) and
                     not _is_mode_size(l)]
            if skip_off and other and not differs:
                wrong_count = other[0]
            if skip_off and differs:
                wl = [n for n in ast.walk(fn.node) if isinstance(n, ast.While)]
                if wl and node.lineno < wl[0].lineno:
                    ok = True
    if not ok and wrong_count:
        rep.violation('P-validate', 'als.als', 'slice coverage check',
                      'the rejection compares %s with the mode size: only the '
                      'number of DISTINCT indices of a mode tells whether '
                      'every slice has a sample' % wrong_count)
    if not ok and not wrong_count:
        # not in the expected place: decide by abstract execution -- with the
        # flag off some ValueError must be raised that is not raised with the
        # flag on (wherever the test lives, e.g. in a helper)
        def _raises(flag):
            out = set()
            for vi_, v_ in enumerate(specs_.variants('als.als')):
                if 'r' in v_ or 'w' in v_:
                    continue
                v2 = dict(v_)
                v2['allow_skip_cores'] = ('lit', flag)
                r_ = an.run('als.als', vi_, 2, variant=v2,
                            extra_key=('skip', flag))
                out |= {x for x in r_.I.raises if x[1] == 'ValueError'}
            return out
        from .. import specs as specs_
        only_off = _raises(False) - _raises(True)
        ok = bool(only_off)
        absent = True
    else:
        absent = False
    rep.add('P-validate', 'als.als', 'slice coverage check',
            'ok' if ok else ('violation' if not wrong_count else 'violation'),
            '' if ok else 'missing-slice data is no longer rejected (no '
            'ValueError depends on allow_skip_cores being off)')
    P.check_stop_writers(prog, rep, functions={'als.als', 'utils._info_appr',
                                                'als_func.als_func'})
    P.check_sweep_epilogue(prog, rep, 'als.als')
    P.check_sweep_epilogue(prog, rep, 'als_func.als_func')
    # --- O-sweep (adaptive): give_to follows the direction
    fn = prog.func('als._optimize_core_adaptive')
    for node in ast.walk(fn.node):
        if isinstance(node, ast.Call) and \
                (prog.dotted(node.func) or '').endswith('matrix_skeleton'):
            kws = {k.arg: k.value for k in node.keywords}
            g = kws.get('give_to')
            from .. import roles as _roles1
            if g is not None:
                g = _roles1.inline(fn.node, g)
            # value of give_to when ltr holds / fails (either arm order)
            when = None
            if isinstance(g, ast.IfExp):
                t_, flip = g.test, False
                while isinstance(t_, ast.UnaryOp) and \
                        isinstance(t_.op, ast.Not):
                    t_, flip = t_.operand, not flip
                if isinstance(t_, ast.Name) and t_.id == 'ltr' and \
                        isinstance(g.body, ast.Constant) and \
                        isinstance(g.orelse, ast.Constant):
                    when = (g.orelse.value, g.body.value) if flip else \
                        (g.body.value, g.orelse.value)
            ok = when == ('r', 'l')
            rep.add('O-sweep', 'als._optimize_core_adaptive',
                    'give_to of the two-core split follows the direction',
                    'ok' if ok else ('violation' if when is not None or
                                     isinstance(g, ast.Constant)
                                     else 'unknown'),
                    '' if ok else 'the weights of the two-core split must go '
                    'to the core visited next (give_to="r" when ltr else "l")',
                    line=node.lineno, file=fn.module.path)
    from .. import rules_proto as _RP
    _callers = {f.qualname for f in prog.all_functions()
                if f.module.name in ('als', 'als_func')}
    _RP.check_param_forwarding(prog, rep, callers=_callers)
    from .. import rules_proto as _RPZ
    _RPZ.check_none_vs_zero(prog, rep, modules={'als', 'als_func'})
    rep.floor('P-refresh', 3, 'interface refresh per sweep step')
    rep.floor('K-empty', 1, 'emptiness tests')
    rep.floor('S-einsum-out', 3, 'interface updates')
    rep.floor('S-ret', 4, 'constant-rank results')
    rep.floor('P-solve-via', 3, 'core slice updates')
    rep.floor('U-weight', 2, 'weighted branches')
    rep.floor('P-stop-writers', 4, 'stop writers')
