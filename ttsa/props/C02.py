"""C02 — truncate error bound and rank caps (structural clauses)."""
import ast

from .. import model, paths, specs, rules_formula as F
from .common import sweep, decided_split, pre, S_RULES, modes_from
from ..engine import tt_wellformed
from ..poly import Poly, same as same_poly


def _forwarded(prog, rep, qual, callee_suffixes, params=('e', 'r')):
    """P-forward: every factorisation call passes the caller's e and r."""
    fn = prog.func(qual)
    mod = fn.module
    n = 0
    for node in ast.walk(fn.node):
        if isinstance(node, ast.Call):
            d = prog.dotted(node.func) or ''
            if d.split('.')[-1] in callee_suffixes:
                n += 1
                names = [a.id if isinstance(a, ast.Name) else None
                         for a in node.args] + \
                        [k.value.id if isinstance(k.value, ast.Name) else None
                         for k in node.keywords]
                miss = [p for p in params if p not in names]
                yield node, miss


def check(an, rep, tier):
    prog = an.prog
    rep.explanation = decided_split(
        'O-sweep in the right-to-left sweep of truncate the factor reshaped '
        'into the finished core has orthonormal rows (typestate derived from '
        'the qr / rq / svd / eigh axioms through matrix_svd and '
        'matrix_skeleton), in the eigen and the SVD mode; O-gram the three '
        'm-vs-n selectors of matrix_svd agree; O-pivot the pivot of the '
        'initial orthogonalisation, the core the norm is read from and the '
        'first core of the sweep coincide; U-cmp the tail energies (sigma^2) '
        'are compared with e^2 in the same unit, e being rescaled by the norm '
        'in truncate (relative -> absolute); F-rank the rank expression is '
        'max(1, min(cap, len - dropped)) (constant-folded on a bounded grid) '
        'and the droppable tail is the longest one with energy <= e^2; '
        'P-forward e and r reach every factorisation call of the sweep and '
        'the final rounding of add_many; S-ret the result is well formed with '
        'the input mode sizes.',
        'the inequality ||Y-Z|| <= e||Y|| itself, quasi-optimal ranks as '
        'values, rounding floor, behaviour exactly at a threshold.')
    rep.assumptions = pre('PRE-TT', 'PRE-D', 'PRE-DOC')
    rep.trusted = ['orthogonality axioms: qr -> (orthonormal columns, R), '
                   'economic rq -> (R, orthonormal rows), svd -> (U cols, s, V '
                   'rows), eigh of A A^T whitened by 1/sqrt(w) -> orthonormal '
                   'rows']
    ds = (2, 3) if tier == 'quick' else (2, 3, 4, 5)
    wh = {'utils._reshape', 'transformation.truncate', 'svd.matrix_svd', 'svd.matrix_skeleton',
          'act_many.add_many'}
    runs = sweep(an, rep, ['transformation.truncate', 'act_many.add_many'], ds,
                 rules=S_RULES + ['U-cmp', 'U-cmp-lg', 'U-abs', 'O-gram',
                                 'G-cancel', 'G-sqrt'],
                 wheres=wh)
    for r in runs:
        if r.qualname != 'transformation.truncate':
            continue
        for j, rv in enumerate(r.returns):
            st, detail = tt_wellformed(rv, modes_from('Y.n')(r))
            rep.add('S-ret', r.qualname, 'return path %d of %s' % (j, r.tag()),
                    st, detail)
            if r.variant.get('orth') == ('lit', False) or \
                    r.variant.get('use_stab') == ('lit', True):
                continue
            if rv.k != 'list' or not rv.items:
                continue
            mode = 'SVD mode' if r.variant.get('is_eigh') == ('lit', False) \
                else 'eigen mode'
            states = [c.orth for c in rv.items]
            bad = [k for k, s in enumerate(states[1:], 1)
                   if s in ('weighted3', 'half3', 'cols3')]
            ok = all(s == 'rows3' for s in states[1:])
            rep.add('O-sweep', 'transformation.truncate',
                    'finished cores after the right-to-left sweep (%s, d=%d)'
                    % (mode, r.d),
                    'ok' if ok else ('violation' if bad else 'unknown'),
                    '' if ok else 'core states %s: the factor kept in a '
                    'finished core must have orthonormal rows and the weights '
                    'must travel left; here core %s keeps %s' % (
                        states, bad, [states[k] for k in bad]))
    # --- P-cap: the rank cap given by the caller is the cap that reaches
    # every truncated factorisation (whatever numeric type it has)
    for r in runs:
        if r.qualname != 'transformation.truncate' or 'r' not in r.variant:
            continue
        entry = [a for q_, a, _ in r.I.call_log
                 if q_ == 'transformation.truncate']
        cap = entry[-1].get('r') if entry else None
        if cap is None or cap.p is None:
            continue
        for q_, a, _ in r.I.call_log:
            if q_ not in ('svd.matrix_svd', 'svd.matrix_skeleton'):
                continue
            got = a.get('r')
            ok = got is cap or (got is not None and got.k == 'int' and
                                got.p is not None and
                                same_poly(got.p, cap.p))
            rep.add('P-cap', 'transformation.truncate', 'the cap passed to '
                    '%s is the caller\'s r (%s)' % (q_, r.tag()),
                    'ok' if ok else 'violation',
                    '' if ok else 'the factorisation receives %r instead of '
                    'the caller\'s cap %r: for this kind of argument the '
                    'rank limit is silently dropped' % (got, cap))
    F.check_selectors(prog, rep)
    F.check_rank_value(an, rep, 'svd.matrix_svd')
    F.check_rank_value(an, rep, 'svd.matrix_skeleton')
    # --- P-forward, on the call log of the abstract runs: the accuracy that
    # reaches every factorisation of the sweep derives from the caller's e (it
    # is not the callee's default) -- r is covered by P-cap above; add_many
    # hands its e and r to the final rounding
    def _is_default(fn_q, par, v):
        d = prog.func(fn_q).defaults().get(par)
        return v is not None and v.has_const() and d is not None and \
            isinstance(d, ast.Constant) and v.c == d.value
    for r in runs:
        if r.qualname != 'transformation.truncate' or 'e' not in r.variant:
            continue
        for q_, a, _ in r.I.call_log:
            if q_ not in ('svd.matrix_svd', 'svd.matrix_skeleton'):
                continue
            # (only what the caller of this variant actually passes)
            bad = [p for p in ('e', 'r') if p in r.variant and
                   _is_default(q_, p, a.get(p))]
            rep.add('P-forward', 'transformation.truncate', '%s receives the '
                    'caller\'s accuracy and cap (%s)' % (q_, r.tag()),
                    'ok' if not bad else 'violation',
                    '' if not bad else 'the factorisation does not receive '
                    'the caller\'s %s: the accuracy / rank cap falls back to '
                    'a default' % bad,
                    line=prog.func('transformation.truncate').node.lineno,
                    file=prog.func('transformation.truncate').module.path)
    for vi, v in enumerate(specs.variants('act_many.add_many')):
        if 'e' not in v and 'r' not in v:
            continue
        for d in ds:
            r = an.run('act_many.add_many', vi, d)
            tr = [a for q_, a, _ in r.I.call_log
                  if q_ == 'transformation.truncate']
            if not tr:
                rep.unknown('P-forward', 'act_many.add_many',
                            'final truncate(Y, e, r) (%s)' % r.tag(),
                            'no rounding call in the run')
                continue
            last = tr[-1]
            bad = [p for p in ('e', 'r') if p in v and
                   _is_default('transformation.truncate', p, last.get(p))]
            rep.add('P-forward', 'act_many.add_many', 'final truncate(Y, e, '
                    'r) (%s)' % r.tag(), 'ok' if not bad else 'violation',
                    '' if not bad else 'the final rounding of add_many does '
                    'not receive the caller\'s %s' % bad,
                    line=prog.func('act_many.add_many').node.lineno,
                    file=prog.func('act_many.add_many').module.path)
    # --- O-pivot
    fn = prog.func('transformation.truncate')
    mod = fn.module
    # integer expressions are folded with d = 5 (d is whatever name is bound
    # to len(<tensor argument>); no variable names are assumed)
    D_ = 5
    env_ = {'len(%s)' % fn.params[0]: D_}
    for node in ast.walk(fn.node):
        if isinstance(node, ast.Assign) and \
                isinstance(node.targets[0], ast.Name) and \
                isinstance(node.value, ast.Call) and \
                isinstance(node.value.func, ast.Name) and \
                node.value.func.id == 'len' and node.value.args and \
                isinstance(node.value.args[0], ast.Name) and \
                node.value.args[0].id == fn.params[0]:
            env_[node.targets[0].id] = D_
    fold = lambda x: F._eval_int(x, env_) if x is not None else None
    pivots = []
    for node in ast.walk(fn.node):
        if isinstance(node, ast.Call) and \
                (prog.dotted(node.func) or '').endswith('orthogonalize'):
            piv = node.args[1] if len(node.args) > 1 else None
            for k_ in node.keywords:
                if k_.arg == 'k':
                    piv = k_.value
            pivots.append(fold(piv))
    norms = []
    for node in ast.walk(fn.node):
        if isinstance(node, ast.Call) and \
                (prog.dotted(node.func) or '').endswith('linalg.norm') and \
                node.args and isinstance(node.args[0], ast.Subscript):
            norms.append(fold(node.args[0].slice))
    loops = [tuple(fold(a_) for a_ in n.iter.args)
             for n in ast.walk(fn.node)
             if isinstance(n, ast.For) and isinstance(n.iter, ast.Call) and
             isinstance(n.iter.func, ast.Name) and n.iter.func.id == 'range'
             and len(n.iter.args) == 3]
    ok = bool(pivots) and all(p == D_ - 1 for p in pivots) and \
        bool(norms) and all(x in (-1, D_ - 1) for x in norms) and \
        any(l == (D_ - 1, 0, -1) for l in loops)
    found_all = bool(pivots) and bool(norms) and bool(loops) and \
        all(p is not None for p in pivots) and \
        all(x is not None for x in norms) and \
        all(all(z is not None for z in l) for l in loops)
    rep.add('O-pivot', 'transformation.truncate',
            'pivot / norm core / sweep range folded at d=%d: %s / %s / %s'
            % (D_, pivots, norms, loops),
            'ok' if ok else ('violation' if found_all else 'unknown'),
            '' if ok else 'the orthogonalisation pivot, the core the norm is '
            'read from and the start of the sweep must all be the last core '
            '(d-1), sweeping down to core 1',
            line=fn.node.lineno, file=mod.path)
    from .. import rules_proto as _RP
    _callers = {f.qualname for f in prog.all_functions()
                if f.module.name in ('transformation', 'act_many', 'svd')}
    _RP.check_param_forwarding(prog, rep, callers=_callers)
    # --- F-split: the accuracy is divided by sqrt(d - 1), the number of
    # unfoldings of a d-dimensional train (the statement's per-unfolding
    # budget e * ||Y|| / sqrt(d - 1)).  Three-valued: the radicand inlines to
    # ``len(<tensor>) - 1`` = ok; to ``len(<tensor>)`` with another (or no)
    # integer offset = violation (budget of another number of unfoldings:
    # ranks differ from the documented ones in a band of e above every
    # rank-change threshold); other spellings = unknown, no floor.
    from .. import roles as _rolesF
    _ft = prog.func('transformation.truncate')

    def _len_off(x):
        """(is a len() of something, integer offset) or None"""
        if isinstance(x, ast.Call) and isinstance(x.func, ast.Name) and \
                x.func.id == 'len' and len(x.args) == 1:
            return 0
        if isinstance(x, ast.BinOp) and isinstance(x.op, (ast.Sub, ast.Add)) \
                and isinstance(x.right, ast.Constant) and \
                isinstance(x.right.value, int) and \
                not isinstance(x.right.value, bool):
            b = _len_off(x.left)
            if b is not None:
                return b + (x.right.value if isinstance(x.op, ast.Add)
                            else -x.right.value)
        return None
    if _ft is not None:
        for _as in ast.walk(_ft.node):
            if not isinstance(_as, ast.Assign):
                continue
            for _b in ast.walk(_as.value):
                if not (isinstance(_b, ast.BinOp) and
                        isinstance(_b.op, ast.Div) and
                        isinstance(_b.right, ast.Call) and
                        (prog.dotted(_b.right.func) or '').endswith('sqrt')
                        and len(_b.right.args) == 1):
                    continue
                _off = _len_off(_rolesF.inline(_ft.node, _b.right.args[0]))
                _st3 = 'unknown' if _off is None else (
                    'ok' if _off == -1 else 'violation')
                rep.add('F-split', 'transformation.truncate', 'accuracy '
                        'divided by sqrt(d - 1), the number of unfoldings',
                        _st3, '' if _st3 == 'ok' else 'radicand "%s" is not '
                        'len(tensor) - 1' % ast.unparse(_b.right.args[0]),
                        line=_b.lineno, file=_ft.module.path)
    rep.floor('O-sweep', 4, 'sweep typestates')
    rep.floor('O-gram', 2, 'selectors')
    rep.floor('U-cmp', 1, 'threshold comparisons (the two factorisations may share one)')
    rep.floor('U-cmp-lg', 1, 'threshold scale in the stabilised mode')
    rep.floor('F-rank', 2, 'rank formulas')
    rep.floor('P-cap', 4, 'cap reaches the factorisations')
    rep.floor('P-forward', 10, 'forwarded accuracy and caps')
    rep.floor('S-ret', 8, 'results')
