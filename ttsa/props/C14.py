"""C14 — samplers (structural clauses)."""
import ast

from .. import model, rules_rng, paths
from .common import sweep, decided_split, pre, S_RULES
from ..engine import collect

SAMPLERS = ['sample.sample', 'sample.sample_square', 'sample.sample_lhs',
            'sample.sample_rand', 'sample.sample_rand_poi', 'sample.sample_tt']


def check(an, rep, tier):
    prog = an.prog
    rep.explanation = decided_split(
        'R-* every draw of the samplers comes from teneva._rand(seed) (no '
        'process-wide generator); S-ret every sampler returns an array '
        '[m, d] (int; float for sample_rand_poi) and S-slot/S-store every '
        'store fits its slot (a 1-element array into a scalar slot raises on '
        'the installed NumPy); N-prob the p= vector of every choice() is '
        'non-negative (maximum(.,0) / squares) and divided by its own sum, '
        'and its length is the population size; S-einsum the marginal / '
        'conditional contractions of sample() are dimension consistent for '
        'symbolic ranks; L-lin every operand of the marginal / conditional '
        'contractions is a linear function of the cores (clipping, absolute '
        'values and squares appear only on the final probability vector); '
        'O-pivot sample_square orthogonalises to core 0, reads '
        'the first squared row norms from core 0 and sweeps right over '
        'right-orthogonal cores; P-lhs the Latin-hypercube remainder is drawn '
        'without replacement and the per-mode column has length m.',
        'that the chain of conditionals multiplies to the tensor entry, '
        'uniqueness in distribution, goodness of fit.')
    rep.assumptions = pre('PRE-TT', 'PRE-D', 'PRE-DOC')
    rep.trusted = ['NumPy model', 'orthogonality axioms for qr / rq']
    ds = (2, 3) if tier == 'quick' else (2, 3, 4, 5)
    wh = {'sample.sample', 'sample.sample_square', 'sample.sample_lhs',
          'sample.sample_rand', 'sample.sample_rand_poi', 'sample.sample_tt',
          'sample.sample_tt.one_mode', 'sample._sample_core_first',
          'sample._extend_core'}
    runs = sweep(an, rep, SAMPLERS, ds,
                 rules=S_RULES + ['N-prob', 'R-draw', 'R-global', 'L-lin'],
                 wheres=wh)
    for ob in list(rep.obls.values()):
        if ob.rule == 'N-prob' and ob.status == 'unknown':
            rep.violation('N-prob', ob.where, ob.construct,
                          'the p= vector handed to choice() is not provably '
                          'non-negative and divided by its own sum (%s)'
                          % ob.detail, line=ob.line, file=ob.file)
    # --- result kinds
    for r in runs:
        if r.qualname == 'sample.sample_tt':
            continue
        want = 'f' if r.qualname == 'sample.sample_rand_poi' else 'i'
        for j, rv in enumerate(r.returns):
            if rv.k == 'top':
                continue            # recursion placeholder (sample_square)
            ok = rv.k == 'arr' and rv.dims is not None and \
                len(rv.dims) == 2 and rv.dims[1] is not None and \
                rv.dims[1].as_int() == r.d and rv.dt == want
            bad = rv.k == 'arr' and rv.dims is not None and (
                len(rv.dims) != 2 or (rv.dims[1] is not None and
                                      rv.dims[1].as_int() not in (None, r.d))
                or (rv.dt is not None and rv.dt != want))
            rep.add('S-ret', r.qualname, 'return path %d of %s' % (j, r.tag()),
                    'ok' if ok else ('violation' if bad else 'unknown'),
                    '' if ok else 'returned %r, expected [m, %d] of kind %s'
                    % (rv, r.d, want))
    # --- randomness (shared with C10, restricted to the sampler modules)
    for mod, where, node, name in rules_rng.global_random_refs(prog):
        if mod.name in ('sample', 'sample_func'):
            rep.violation('R-global', where, model.norm_src(mod, node),
                          'sampler draws from the process-wide NumPy '
                          'generator (%s)' % name, line=node.lineno,
                          file=mod.path)
    n_draw = 0
    for mod, fn, call in rules_rng.draw_sites(prog):
        if mod.name != 'sample':
            continue
        n_draw += 1
        pv, txt = rules_rng.local_provenance(prog, mod, fn, call)
        rep.add('R-draw-local', fn.qualname, model.norm_src(mod, call.func),
                'ok' if pv in ('seeded', 'param', 'self') else 'violation',
                'receiver %s (%s)' % (txt, pv))
    # --- P-lhs
    fn = prog.func('sample.sample_lhs')
    mod = fn.module
    found = False
    for call in ast.walk(fn.node):
        if isinstance(call, ast.Call) and isinstance(call.func, ast.Attribute) \
                and call.func.attr == 'choice':
            found = True
            rp = None
            for k in call.keywords:
                if k.arg == 'replace':
                    rp = k.value
            if rp is None and len(call.args) >= 3:
                rp = call.args[2]
            ok = isinstance(rp, ast.Constant) and rp.value is False
            rep.add('P-lhs', 'sample.sample_lhs', model.norm_src(mod, call),
                    'ok' if ok else 'violation',
                    '' if ok else 'the remainder of a Latin-hypercube column '
                    'must be drawn without replacement (replace=False)',
                    line=call.lineno, file=mod.path)
    if not found:
        rep.error('sample.sample_lhs: remainder draw not found')
    # --- P-unique: with unique=True every returned row set is a row subset of
    # an np.unique(.., axis=0) result (distinct rows); rows stacked from
    # several draws without a final de-duplication may repeat
    for r in runs:
        if r.qualname != 'sample.sample_square' or \
                r.variant.get('unique') == ('lit', False):
            continue
        for j, rv in enumerate(r.returns):
            if rv.k != 'arr':
                continue            # recursion placeholder
            st_ = 'ok' if rv.note == 'distinct' else (
                'violation' if rv.note == 'stacked' else 'unknown')
            rep.add('P-unique', 'sample.sample_square', 'return path %d of %s '
                    'yields distinct rows' % (j, r.tag()), st_,
                    '' if st_ == 'ok' else (
                        'the returned rows are stacked from several draws '
                        'and not de-duplicated afterwards: a row can occur '
                        'twice although unique=True' if st_ == 'violation'
                        else 'row distinctness not tracked (%s)' % rv.note))
    # --- U-square: the first marginal squares the pivot core, which carries
    # the whole norm of the tensor; it must have gone through the power-of-two
    # normalisation (or a division by its own norm) before it is squared
    for r in runs:
        if r.qualname != 'sample.sample_square':
            continue
        for st in r.I.sites:
            if st.rule != 'U-square' or \
                    st.where != 'sample._sample_core_first':
                continue
            raw = st.status == 'unknown' and st.detail == 'raw'
            rep.add('U-square', st.where, st.construct,
                    'violation' if raw else st.status,
                    '' if not raw else 'the squared operand is the pivot core '
                    'of an orthogonalisation without power-of-two '
                    'stabilisation (ledger %s): it carries the whole norm of '
                    'the tensor and its squares over- / underflow for tensors '
                    'of representable norm' % st.facts.get('lg'),
                    line=getattr(st.node, 'lineno', None), file=mod.path)
    # --- O-pivot for sample_square, on the typestates of the abstract run:
    # the matrix the first marginal is computed from is the pivot of the
    # orthogonalisation (it carries the weights: NOT an orthonormal factor)
    # and every core contracted in the sweep has orthonormal rows.
    fn = prog.func('sample.sample_square')
    mod = fn.module
    for r in runs:
        if r.qualname != 'sample.sample_square':
            continue
        firsts = [a_.get('Q') for (q_, a_, _) in r.I.call_log
                  if q_ == 'sample._sample_core_first']
        for Q_ in firsts:
            if Q_ is None or Q_.k != 'arr':
                continue
            bad = Q_.orth in ('cols', 'rows', 'cols3', 'rows3')
            rep.add('O-pivot', 'sample.sample_square', 'first marginal is '
                    'read from the pivot core (%s)' % r.tag(),
                    'violation' if bad else 'ok',
                    '' if not bad else 'the matrix of the first marginal has '
                    'typestate %s: it is an orthonormal factor, not the pivot '
                    'of the orthogonalisation -- the pivot, the core the '
                    'first marginal is read from and the start of the sweep '
                    'must coincide' % Q_.orth,
                    line=fn.node.lineno, file=mod.path)
        for s_ in r.I.sites:
            if s_.rule != 'O-contract' or \
                    not s_.where.startswith('sample.sample_square'):
                continue
            cores = [o for o, nd in zip(s_.facts['orth'], s_.facts['ndim'])
                     if nd == 3]
            if len(cores) != 1:
                continue
            o = cores[0]
            st_ = 'ok' if o == 'rows3' else (
                'violation' if o in ('cols3', 'weighted3', 'half3') else
                'unknown')
            rep.add('O-pivot', 'sample.sample_square', 'core contracted in '
                    'the sweep has orthonormal rows (%s, line %d)'
                    % (r.tag(), s_.node.lineno), st_,
                    '' if st_ == 'ok' else 'the swept core has typestate %s: '
                    'the conditional marginals are sums of squares only when '
                    'the cores still to come have orthonormal rows (sweep '
                    'away from the pivot)' % o,
                    line=s_.node.lineno, file=mod.path)
    # cores right of the pivot are right-orthogonal after orthogonalize(Y, 0)
    for d in ds:
        run = an.run('transformation.orthogonalize', 1, d)   # k = 0 variant
        v = run.result
        if v.k == 'list' and v.items:
            states = [c.orth for c in v.items]
            ok = all(s == 'rows3' for s in states[1:]) and \
                states[0] not in ('rows3', 'cols3')
            rep.add('O-pivot', 'transformation.orthogonalize',
                    'orthogonalize(Y, 0) at d=%d: core states %s' % (d, states),
                    'ok' if ok else 'violation',
                    '' if ok else 'cores right of pivot 0 must be right-'
                    'orthogonal and the pivot core must carry the weights')
    from .. import rules_proto as _RP
    _callers = {f.qualname for f in prog.all_functions()
                if f.module.name in ('sample', 'sample_func')}
    _RP.check_param_forwarding(prog, rep, callers=_callers)
    from .. import rules_proto as _RPZ
    _RPZ.check_none_vs_zero(prog, rep, modules={'sample', 'sample_func'})
    # --- P-marginal: the marginal vectors of ``sample`` integrate a core
    # over its mode axis by SUMMATION.  Another reduction kind over that
    # axis (mean, max, prod, ...) is not the marginal: a mean rescales it by
    # 1 / n per mode, which the normalisation hides everywhere except where
    # the absolute noise ``unsert`` is added to the first-mode weights (the
    # draw is then no longer proportional to entry + documented noise).
    # Three-valued: sum = ok; another reduction of a core over axis 1 that
    # is not rescaled (no multiplication in the statement) = violation;
    # other spellings (einsum, ones-contraction) are not matched (no floor).
    _fs = prog.func('sample.sample')
    _RED_OK = {'sum', 'nansum'}
    _RED_BAD = {'mean', 'average', 'nanmean', 'max', 'amax', 'min', 'amin',
                'prod', 'median', 'std', 'var', 'cumsum'}
    if _fs is not None:
        for _as in ast.walk(_fs.node):
            if not (isinstance(_as, ast.Assign) and
                    isinstance(_as.targets[0], ast.Subscript)):
                continue
            for _c in ast.walk(_as.value):
                if not isinstance(_c, ast.Call):
                    continue
                _nm = (_c.func.attr if isinstance(_c.func, ast.Attribute)
                       else getattr(_c.func, 'id', None))
                _ax = [k.value for k in _c.keywords if k.arg == 'axis'] + \
                    list(_c.args[1:2])
                if _nm not in _RED_OK | _RED_BAD or not (
                        _ax and isinstance(_ax[0], ast.Constant) and
                        _ax[0].value == 1):
                    continue
                # the reduced operand is a core of the argument tensor
                _opnd = _c.args[0] if (_c.args and not isinstance(
                    _c.func, ast.Attribute) or (isinstance(
                        _c.func, ast.Attribute) and isinstance(
                        _c.func.value, ast.Name) and _c.func.value.id in
                    ('np', 'numpy') and _c.args)) else (
                    _c.func.value if isinstance(_c.func, ast.Attribute)
                    else None)
                _p0 = _fs.node.args.args[0].arg
                if not (isinstance(_opnd, ast.Subscript) and
                        isinstance(_opnd.value, ast.Name) and
                        _opnd.value.id == _p0):
                    continue
                _scaled = any(isinstance(b, ast.BinOp) and
                              isinstance(b.op, (ast.Mult, ast.Div))
                              for b in ast.walk(_as.value))
                _st3 = 'ok' if _nm in _RED_OK else (
                    'unknown' if _scaled else 'violation')
                rep.add('P-marginal', 'sample.sample', 'marginal vector '
                        'integrates the core over its mode axis by summation',
                        _st3, '' if _st3 == 'ok' else 'reduction "%s" over '
                        'the mode axis is not the marginal sum' % _nm,
                        line=_c.lineno, file=_fs.module.path)
    rep.floor('L-lin', 4, 'contractions with linear operands')
    rep.floor('N-prob', 4, 'choice(p=...) sites')
    rep.floor('S-ret', 8, 'sampler results')
    rep.floor('S-einsum', 2, 'marginal / conditional contractions')
    rep.floor('R-draw-local', 6, 'draw sites in sample.py')
    rep.floor('O-pivot', 8, 'pivot rules')
    rep.floor('P-unique', 1, 'distinct rows with unique=True')
    rep.floor('U-square', 1, 'normalised pivot core before squaring')
    rep.floor('P-lhs', 1, 'LHS remainder draw')
