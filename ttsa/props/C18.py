"""C18 — grid maps (structural + formula clauses)."""
import ast

from .. import model, paths, specs, rules_formula as F
from .common import sweep, decided_split, pre, S_RULES


def _following(fn_node, stmt):
    """Statements executed after ``stmt`` on the fall-through path: the rest
    of its block, then the rest of every enclosing block."""
    pm = paths.parent_map(fn_node)
    out = []
    node = stmt
    while node in pm:
        par = pm[node]
        for name, b in paths._blocks(par):
            if node in b:
                out.extend(b[b.index(node) + 1:])
        node = par
        if node is fn_node:
            break
    return out


def _clamps(prog, rep, qual, var, after_assign=True):
    """After every computed assignment of V (scaling / rounding) both masked
    stores  V[V < lo] = lo  and  V[V > hi] = hi  follow, with matching
    bounds."""
    fn = prog.func(qual)
    mod = fn.module
    n = 0
    # the clamped variable is the one the function returns (no name assumed)
    from ..rules_formula import returned_name
    var = returned_name(fn.node) or var
    for node in ast.walk(fn.node):
        if not (isinstance(node, ast.Assign) and
                isinstance(node.targets[0], ast.Name) and
                node.targets[0].id == var and
                isinstance(node.value, ast.BinOp)):
            continue
        n += 1
        lows, highs = [], []
        discarded = []
        for s in _following(fn.node, node):
            if isinstance(s, ast.Assign) and \
                    isinstance(s.targets[0], ast.Subscript) and \
                    isinstance(s.targets[0].value, ast.Name) and \
                    s.targets[0].value.id == var and \
                    isinstance(s.targets[0].slice, ast.Compare):
                c = s.targets[0].slice
                val = paths.src(mod, s.value).replace(' ', '')
                # either spelling:  V < lo  /  lo > V
                for l_, oc, r_, ln, rn in paths.cmp_facts([(c, True)]):
                    if not (isinstance(ln, ast.Name) and ln.id == var):
                        continue
                    bound = paths.src(mod, rn).replace(' ', '')
                    if oc is ast.Lt:
                        lows.append((bound, val))
                    elif oc is ast.Gt:
                        highs.append((bound, val))
            # equivalent idiom:  V = np.clip(V, lo, hi)  /  np.clip(V, lo, hi, out=V)
            for c in ast.walk(s):
                if isinstance(c, ast.Call) and \
                        (prog.dotted(c.func) or '').split('.')[-1] == 'clip' \
                        and len(c.args) >= 3 and \
                        isinstance(c.args[0], ast.Name) and \
                        c.args[0].id == var:
                    tgt_ok = (isinstance(s, ast.Assign) and
                              isinstance(s.targets[0], ast.Name) and
                              s.targets[0].id == var) or any(
                        k.arg == 'out' and isinstance(k.value, ast.Name) and
                        k.value.id == var for k in c.keywords)
                    if tgt_ok:
                        lo_ = paths.src(mod, c.args[1]).replace(' ', '')
                        hi_ = paths.src(mod, c.args[2]).replace(' ', '')
                        lows.append((lo_, lo_))
                        highs.append((hi_, hi_))
                    elif isinstance(s, ast.Expr) and s.value is c:
                        # np.clip(V, lo, hi) as a statement: the clamped copy
                        # is thrown away, V itself is not clamped
                        discarded.append(s)
        ok = len(lows) == 1 and len(highs) == 1
        if ok:
            ok = _same_bound(*lows[0]) and _same_bound(*highs[0])
        # found-but-wrong is the violation (one side only, or bounds that do
        # not match); no clamp recognised at all (a helper, np.where, ...)
        # is not decided here
        none_found = not lows and not highs and not discarded
        rep.add('P-two-sided', qual, 'clamps after %s'
                % paths.src(mod, node)[:60], 'ok' if ok else (
                    'unknown' if none_found else 'violation'),
                '' if ok else 'after this assignment both clamps (%s < lo -> '
                'lo and %s > hi -> hi, with matching bounds) must follow; '
                'found low=%s high=%s' % (var, var, lows, highs),
                line=node.lineno, file=mod.path)
    return n


def _same_bound(bound, val):
    def norm(s):
        return s.replace('+', '').rstrip('.').replace('.0', '')
    if norm(bound) == norm(val):
        return True
    # I[I > n-1] = n[I > n-1] - 1
    return bound == 'n-1' and val.startswith('n[') and val.endswith(']-1')


def check(an, rep, tier):
    prog = an.prog
    rep.explanation = decided_split(
        'F-inverse poi_to_ind (before rounding) composed with ind_to_poi is '
        'the identity on indices as a rational-function identity (uniform: '
        'affine; Chebyshev: with arccos(cos u) = u on [0, pi]); F-endpoint '
        'index 0 / n-1 map to a / b (uniform) and b / a (Chebyshev), scaling '
        'maps a, b to the canonical ends; P-two-sided after scaling and after '
        'rounding both clamps follow with matching bounds in every branch; '
        'P-domain unknown kinds, inconsistent option lengths and a scalar '
        'option without d raise ValueError (abstract execution of the '
        'guards); S-* option broadcasting, single point vs batch, grid_flat '
        'and cdf_getter are dimension consistent; S-ret shapes of the results.',
        'floating-point round trip at cell boundaries, nearest-node ties, '
        'first-index-fastest order of grid_flat as values.')
    rep.assumptions = pre('PRE-N2', 'PRE-D', 'PRE-DOC')
    rep.trusted = ['arccos(cos u) = u for u in [0, pi]', 'NumPy model']
    F.check_grid_inverse(prog, rep)
    _clamps(prog, rep, 'grid.poi_scale', 'Xsc')
    _clamps(prog, rep, 'grid.poi_to_ind', 'I')
    ds = (2, 3)
    wh = {'grid.grid_flat', 'grid.grid_prep_opt', 'grid.grid_prep_opts',
          'grid.ind_qtt_to_tt', 'grid.ind_to_poi', 'grid.ind_tt_to_qtt',
          'grid.poi_scale', 'grid.poi_to_ind', 'stat.cdf_getter',
          'stat.cdf_confidence', 'stat.cdf_getter.cdf'}
    runs = sweep(an, rep, ['grid.grid_flat', 'grid.grid_prep_opt',
                           'grid.grid_prep_opts', 'grid.ind_to_poi',
                           'grid.poi_scale', 'grid.poi_to_ind',
                           'stat.cdf_getter', 'stat.cdf_confidence'], ds,
                 wheres=wh)
    for r in runs:
        q = r.qualname
        if q in ('grid.ind_to_poi', 'grid.poi_scale', 'grid.poi_to_ind'):
            src = r.variant.get('I') or r.variant.get('X')
            want_nd = 2 if '[m,d]' in str(src) else 1
            # every return path (the batch size is symbolic: a path that
            # depends on it is also taken for a batch of one point)
            for j, rv in enumerate(r.returns):
                ok = rv.k == 'arr' and rv.dims is not None and \
                    len(rv.dims) == want_nd and rv.dims[-1] is not None and \
                    rv.dims[-1].as_int() == r.d
                if q == 'grid.poi_to_ind':
                    ok = ok and rv.dt == 'i'
                rep.add('S-ret', q, 'result shape on return path %d for %s'
                        % (j, r.tag()),
                        'ok' if ok else ('violation' if rv.k == 'arr' and
                                         rv.dims is not None else 'unknown'),
                        '' if ok else 'returned %r' % (rv,))
    # the empirical CDF is right continuous: F(z) counts the samples <= z, so
    # the lookup of a query point takes the position to the RIGHT of equal
    # sample values
    fcg = prog.func('stat.cdf_getter')
    for node in ast.walk(fcg.node):
        if isinstance(node, ast.Call) and \
                (prog.dotted(node.func) or '').split('.')[-1] == \
                'searchsorted':
            side = None
            if len(node.args) >= 3 and isinstance(node.args[2], ast.Constant):
                side = node.args[2].value
            for k_ in node.keywords:
                if k_.arg == 'side' and isinstance(k_.value, ast.Constant):
                    side = k_.value.value
            if side is None and len(node.args) < 3 and not any(
                    k_.arg == 'side' for k_ in node.keywords):
                side = 'left'           # NumPy's default
            rep.add('S-cdf', 'stat.cdf_getter', 'lookup side of the step '
                    'function (line %d)' % node.lineno,
                    'ok' if side == 'right' else (
                        'violation' if side == 'left' else 'unknown'),
                    '' if side == 'right' else 'searchsorted(.., side=%r): '
                    'at a query point equal to a sample value the step of '
                    'that sample is not counted (F(z) = #{x_i < z} / N '
                    'instead of #{x_i <= z} / N)' % side,
                    line=node.lineno, file=fcg.module.path)
    # a batch of ONE sample is a batch: with reps=1 the option comes back as
    # [1, d], like for every other batch size (the callers index it with the
    # 2-D masks of the batch)
    from .. import interp as _interp
    for v_ in (dict(opt='fvec', reps=('lit', 1)),
               dict(opt='num', d=('lit', 3), reps=('lit', 1)),
               dict(opt='fvec', reps=('lit', 2))):
        I_ = _interp.Interp(prog, {})
        I_.run_function(prog.func('grid.grid_prep_opt'),
                        specs.build_args(v_, 3))
        nrep = v_['reps'][1]
        for j, rv in enumerate(I_.entry_returns):
            ok = rv.k == 'arr' and rv.dims is not None and \
                len(rv.dims) == 2 and rv.dims[0] is not None and \
                rv.dims[0].as_int() == nrep and rv.dims[1] is not None and \
                rv.dims[1].as_int() == 3
            rep.add('S-ret', 'grid.grid_prep_opt', 'option repeated for a '
                    'batch of %d: shape [%d, d] (%s, return path %d)'
                    % (nrep, nrep, 'scalar option' if v_['opt'] == 'num'
                       else 'vector option', j),
                    'ok' if ok else ('violation' if rv.k == 'arr' and
                                     rv.dims is not None else 'unknown'),
                    '' if ok else 'returned %r' % (rv,))
    from ..poly import Poly, same
    # the empirical CDF has one step per SAMPLE (repeated values keep their
    # multiplicity): the tables captured by the returned closure have m + 1
    # entries for a sample of m values
    for r in runs:
        if r.qualname != 'stat.cdf_getter':
            continue
        rv = r.result
        env_ = rv.env if rv.k == 'func' and isinstance(rv.env, dict) else {}
        tabs = [v for k, v in env_.items() if not k.startswith('$') and
                v.k == 'arr' and v.dims is not None and len(v.dims) == 1
                and v.dims[0] is not None]
        want = Poly.sym('m') + 1
        from ..poly import definitely_differ as _dd
        # knots and levels of one length that is definitely not m + 1 (the
        # level 0 / knot -inf in front of the sample is missing: a point below
        # the smallest sample value is looked up at position -1)
        short = len(tabs) >= 2 and all(same(v.dims[0], tabs[0].dims[0])
                                       for v in tabs) and \
            _dd(tabs[0].dims[0], want)
        for ti, v in enumerate(tabs):
            uniq = any('uniq' in repr(a) for a in v.dims[0].atoms())
            ok = same(v.dims[0], want)
            rep.add('S-cdf', 'stat.cdf_getter', 'step table #%d of length '
                    'm + 1' % (ti + 1),
                    'ok' if ok else ('violation' if uniq or short
                                     else 'unknown'),
                    '' if ok else ('the table has %r entries: the number of '
                                   'steps is the number of DISTINCT sample '
                                   'values, so repeated values lose their '
                                   'multiplicity' % (v.dims[0],) if uniq else
                                   'knots and levels both have %r entries, '
                                   'not m + 1: the level 0 in front of the '
                                   'smallest sample value is missing, a '
                                   'point below it is looked up at position '
                                   '-1 (the last level)' % (v.dims[0],)))
    for r in runs:
        if r.qualname == 'grid.grid_flat' and r.variant.get('n') == 'shape':
            rv = r.result
            want = [Poly.sym('n.%d' % k) for k in range(r.d)]
            lay = rv.lay[0] if rv.k == 'arr' and rv.lay is not None else None
            ok = lay is not None and len(lay) == r.d and all(
                same(x, y) for x, y in zip(lay, want))
            bad = lay is not None and not ok
            rep.add('S-layout', 'grid.grid_flat', 'rows enumerate the '
                    'multi-indices with the first index fastest (d=%d)' % r.d,
                    'ok' if ok else ('violation' if bad else 'unknown'),
                    '' if ok else 'the flat grid enumerates the composite '
                    'index in the order %s (fastest first), expected %s'
                    % (lay, want))
    # --- P-domain by abstract execution of the rejections
    d = 3
    cases = [
        ('grid.ind_to_poi', dict(I='I[m,d]', a='num', b='num', n='int:n',
                                 kind=('lit', 'bad'))),
        ('grid.poi_scale', dict(X='f[m,d]', a='num', b='num',
                                kind=('lit', 'bad'))),
        ('grid.poi_to_ind', dict(X='f[m,d]', a='num', b='num', n='int:n',
                                 kind=('lit', 'bad'))),
        ('grid.grid_prep_opt', dict(opt='num')),
        ('grid.grid_prep_opt', dict(opt='num', d=('lit', 0))),
    ]
    for q, v in cases:
        r = an.run(q, 0, d, variant=v, extra_key=('dom', repr(sorted(v.items(), key=repr))))
        from .common import dom3
        st3, d3 = dom3(r.I.raises, r.returns, True)
        rep.add('P-domain', q, 'rejects %s' % {k: x for k, x in v.items()
                                               if isinstance(x, tuple) or
                                               k in ('opt',)}, st3,
                '' if st3 == 'ok' else 'the documented ValueError is not '
                'raised for this invalid argument combination (%s)' % d3)
    # inconsistent option lengths
    from ..values import LIST, FLOAT
    fn = prog.func('grid.grid_prep_opts')
    from .. import interp
    I = interp.Interp(prog, {})
    I.run_function(fn, {'a': LIST([FLOAT(), FLOAT()]),
                        'b': LIST([FLOAT(), FLOAT(), FLOAT()])})
    from .common import dom3
    st3, d3 = dom3(I.raises, I.entry_returns, True)
    rep.add('P-domain', 'grid.grid_prep_opts', 'rejects a of length 2 with b '
            'of length 3', st3,
            '' if st3 == 'ok' else 'inconsistent option lengths are not '
            'rejected (' + d3 + ')')
    I = interp.Interp(prog, {})
    I.run_function(fn, {'a': LIST([FLOAT(), FLOAT(), FLOAT()]),
                        'b': LIST([FLOAT(), FLOAT()])})
    from .common import dom3
    st3, d3 = dom3(I.raises, I.entry_returns, True)
    rep.add('P-domain', 'grid.grid_prep_opts', 'rejects a of length 3 with b '
            'of length 2', st3,
            '' if st3 == 'ok' else 'inconsistent option lengths are not '
            'rejected (' + d3 + ')')
    # an explicit dimension d is the reference length for every list option
    from ..values import INT as _INT
    for la, dd, bad in ((2, 3, True), (1, 3, True), (3, 3, False)):
        I = interp.Interp(prog, {})
        I.run_function(fn, {'a': LIST([FLOAT() for _ in range(la)]),
                            'd': _INT(dd)})
        st3, d3 = dom3(I.raises, I.entry_returns, bad)
        rep.add('P-domain', 'grid.grid_prep_opts', '%s a of length %d with '
                'd=%d' % ('rejects' if bad else 'accepts', la, dd), st3,
                '' if st3 == 'ok' else 'an option list whose length differs '
                'from the explicit dimension must be rejected, a matching '
                'one accepted (' + d3 + ')')
    from .. import rules_proto as _RPZ
    _RPZ.check_none_vs_zero(prog, rep, modules={'grid', 'stat'})
    from .. import rules_api as _RA
    _RA.check_memoised(prog, rep, modules={'grid', 'stat'})
    rep.floor('S-layout', 2, 'flat grid order')
    rep.floor('S-cdf', 2, 'CDF step tables')
    rep.floor('F-inverse', 2, 'round trips')
    rep.floor('F-endpoint', 4, 'endpoints')
    rep.floor('P-two-sided', 5, 'clamps')
    rep.floor('P-domain', 9, 'rejections')
    rep.floor('S-ret', 8, 'result shapes')
