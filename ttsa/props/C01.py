"""C01 — TT evaluation and algebra agree with dense algebra (structural)."""
from fractions import Fraction

from .. import specs
from .common import sweep, decided_split, pre, S_RULES, modes_from
from ..engine import tt_wellformed
from ..poly import Poly, same, definitely_differ

ENTRIES = ['act_one.get', 'act_one.get_many', 'act_one.get_and_grad',
           'act_one.interface', 'act_one.mean', 'act_one.sum', 'act_one.norm',
           'act_one.copy', 'transformation.full', 'act_two.add', 'act_two.sub',
           'act_two.mul', 'act_two.mul_scalar', 'act_two.outer',
           'act_two.accuracy', 'act_many.add_many', 'act_many.outer_many',
           'data.accuracy_on_data', 'props.erank', 'props.ranks',
           'props.shape', 'props.size']
WHERES = {'act_one.get', 'act_one.get_many', 'act_one.get_and_grad',
          'act_one.interface', 'act_one.mean', 'act_one.sum', 'act_one.norm',
          'act_one.copy', 'transformation.full', 'act_two.add', 'act_two.sub',
          'act_two.mul', 'act_two.mul_scalar', 'act_two.outer',
          'act_two.accuracy', 'act_many.add_many', 'act_many.outer_many',
          'data.accuracy_on_data', 'props.erank', 'props.ranks', 'props.shape',
          'props.size', 'tensors.const'}


def _expect_ranks(run):
    """Expected bond sizes of the result (list of Poly) or None."""
    q, v, d = run.qualname, run.variant, run.d
    def r(name, k):
        return Poly.sym('%s.r%d' % (name, k))
    tt2 = lambda p: v.get(p, '').startswith('tt') if isinstance(v.get(p), str) \
        else False
    if q in ('act_two.add', 'act_two.sub'):
        a = [r('Y1', k) if tt2('Y1') else Poly.const(1) for k in range(1, d)]
        b = [r('Y2', k) if tt2('Y2') else Poly.const(1) for k in range(1, d)]
        return [x + y for x, y in zip(a, b)]
    if q == 'act_two.mul':
        if tt2('Y1') and tt2('Y2'):
            return [r('Y1', k) * r('Y2', k) for k in range(1, d)]
        nm = 'Y1' if tt2('Y1') else 'Y2'
        return [r(nm, k) for k in range(1, d)]
    return None


def check(an, rep, tier):
    prog = an.prog
    rep.explanation = decided_split(
        'S-* every contraction, einsum (letter unification incl. "..."), '
        'concatenation axis / zero-block size, Kronecker reshape, advanced '
        'index and store of get, get_many, get_and_grad, interface, mean, '
        'sum, norm, full, add, sub, mul, mul_scalar, outer, accuracy, '
        'add_many, outer_many, accuracy_on_data, erank, ranks, shape, size is '
        'dimension consistent for d = 2,3(,4,5) and symbolic unequal ranks / '
        'mode sizes, for tensor and number operands; S-ret add / sub / mul / '
        'outer / add_many / outer_many / copy return well-formed tensors with '
        'ranks a+b / a*b / a and the input mode sizes; S-dense full returns '
        'exactly the d mode axes (no data-dependent squeeze); S-meta ranks / '
        'shape / size report the core dimensions; U-deg a number operand '
        'enters exactly one core with degree 1 (mul) and the constant tensor '
        'of add / sub has total degree 1.',
        'the numerical values (weights of mean, block contents beyond their '
        'shapes, rounding, the bit-for-bit integer claim); getter (needs '
        'numba); the check_phi service branch.')
    rep.assumptions = pre('PRE-TT', 'PRE-D', 'PRE-IDX', 'PRE-NUM', 'PRE-DOC')
    rep.trusted = ['NumPy model']
    ds = (2, 3) if tier == 'quick' else (2, 3, 4, 5)
    runs = sweep(an, rep, ENTRIES, ds, rules=S_RULES + ['S-squeeze'],
                 wheres=WHERES)
    for r in runs:
        q = r.qualname
        d = r.d
        if q in ('act_two.add', 'act_two.sub', 'act_two.mul'):
            modes = modes_from('n')(r)
            exp = _expect_ranks(r)
            for j, rv in enumerate(r.returns):
                st, detail = tt_wellformed(rv, modes)
                if st == 'ok' and exp is not None:
                    for k, c in enumerate(rv.items[:-1]):
                        if definitely_differ(c.dims[2], exp[k]):
                            st, detail = 'violation', \
                                'bond %d is %r, expected %r' % (
                                    k + 1, c.dims[2], exp[k])
                        elif not same(c.dims[2], exp[k]) and st == 'ok':
                            st, detail = 'unknown', '%r ?= %r' % (
                                c.dims[2], exp[k])
                rep.add('S-ret', q, 'return path %d of %s' % (j, r.tag()),
                        st, detail)
        elif q in ('act_two.outer', 'act_many.outer_many', 'act_one.copy',
                   'act_many.add_many'):
            for j, rv in enumerate(r.returns):
                if rv.k != 'list':
                    continue
                st, detail = tt_wellformed(rv, None)
                n_t = 1 if 'ttlist1' in r.variant.values() else 2
                if q in ('act_two.outer', 'act_many.outer_many') and \
                        st == 'ok' and len(rv.items) != n_t * d:
                    st, detail = 'violation', 'outer product has %d cores, ' \
                        'expected %d' % (len(rv.items), n_t * d)
                rep.add('S-ret', q, 'return path %d of %s' % (j, r.tag()),
                        st, detail)
        elif q == 'act_one.interface' and \
                r.variant.get('norm') == ('lit', 'natural') and \
                'P' not in r.variant and 'i' not in r.variant:
            # natural normalisation: every partial sum over a mode index is
            # divided by the size of that very mode, so each interface vector
            # is an average (term count 1)
            for j, rv in enumerate(r.returns):
                if rv.k != 'list' or rv.items is None:
                    continue
                for k, x in enumerate(rv.items):
                    if x.k != 'arr' or x.cnt is None:
                        rep.unknown('U-count', q, 'interface vector %d of %s'
                                    % (k, r.tag()), 'term count not tracked')
                        continue
                    num, den = x.cnt
                    ok = same(num, den)
                    bad = definitely_differ(num, den)
                    rep.add('U-count', q, 'interface vector %d of %s'
                            % (k, r.tag()),
                            'ok' if ok else ('violation' if bad else 'unknown'),
                            '' if ok else 'with norm="natural" the vector sums '
                            '%r terms over the mode indices but is divided by '
                            '%r: each partial sum must be divided by the size '
                            'of the mode it runs over' % (num, den))
        elif q in ('act_one.mean', 'act_one.sum') and 'P' not in r.variant:
            # mean: every mode sum is divided by its own size (count 1);
            # sum: all prod(n) terms, undivided
            rv = r.result
            want = Poly.const(1)
            if q == 'act_one.sum':
                for k in range(d):
                    want = want * Poly.sym('Y.n%d' % k)
            if rv.k != 'float' or rv.cnt is None:
                rep.unknown('U-count', q, 'term count of the result (d=%d)'
                            % d, 'term count not tracked')
            else:
                num, den = rv.cnt
                ok = same(num, den * want)
                bad = definitely_differ(num, den * want)
                rep.add('U-count', q, 'term count of the result (d=%d)' % d,
                        'ok' if ok else ('violation' if bad else 'unknown'),
                        '' if ok else 'the result adds %r terms divided by %r; '
                        'expected a net count of %r (mean: each mode sum '
                        'divided by its own size; sum: all entries, undivided)'
                        % (num, den, want))
        elif q == 'transformation.full':
            for j, rv in enumerate(r.returns):
                modes = modes_from('Y.n')(r)
                ok = rv.k == 'arr' and rv.dims is not None and \
                    len(rv.dims) == d and all(
                        x is not None and same(x, m)
                        for x, m in zip(rv.dims, modes))
                bad = rv.k == 'arr' and rv.dims is not None and (
                    len(rv.dims) != d or any(
                        x is not None and definitely_differ(x, m)
                        for x, m in zip(rv.dims, modes)))
                rep.add('S-dense', q, 'return path %d of %s' % (j, r.tag()),
                        'ok' if ok else ('violation' if bad else 'unknown'),
                        '' if ok else 'full() returned %r, expected the mode '
                        'axes %s' % (rv, modes))
        elif q in ('props.ranks', 'props.shape', 'props.size'):
            rv = r.result
            if q == 'props.shape':
                exp = [Poly.sym('Y.n%d' % k) for k in range(d)]
            elif q == 'props.ranks':
                exp = [Poly.const(1)] + [Poly.sym('Y.r%d' % k)
                                         for k in range(1, d)] + [Poly.const(1)]
            else:
                tot = Poly.const(0)
                for k in range(d):
                    a = Poly.const(1) if k == 0 else Poly.sym('Y.r%d' % k)
                    b = Poly.const(1) if k == d - 1 else \
                        Poly.sym('Y.r%d' % (k + 1))
                    tot = tot + a * Poly.sym('Y.n%d' % k) * b
                exp = tot
            if q == 'props.size':
                ok = rv.k == 'int' and rv.p is not None and same(rv.p, exp)
                bad = rv.k == 'int' and rv.p is not None and \
                    definitely_differ(rv.p, exp)
            else:
                its = rv.items if rv.k == 'arr' else None
                ok = its is not None and len(its) == len(exp) and all(
                    x.p is not None and same(x.p, e) for x, e in zip(its, exp))
                bad = its is not None and (len(its) != len(exp) or any(
                    x.p is not None and definitely_differ(x.p, e)
                    for x, e in zip(its, exp)))
            rep.add('S-meta', q, 'value at d=%d' % d,
                    'ok' if ok else ('violation' if bad else 'unknown'),
                    '' if ok else '%s returned %r, expected %r' % (q, rv, exp))
        # --- U-deg: number operands
        if q == 'act_two.mul' and 'num:c' in r.variant.values():
            for j, rv in enumerate(r.returns):
                if rv.k != 'list' or not rv.items:
                    continue
                if any(c.degq or c.deg_alt for c in rv.items):
                    rep.unknown('U-deg', q, 'degree of the number operand '
                                'over the cores, %s' % r.tag(),
                                'degree of a core not established')
                    continue
                degs = [(c.deg or {}).get('c', Fraction(0)) for c in rv.items]
                tot = sum(degs)
                rep.add('U-deg', q, 'degree of the number operand over the '
                        'cores, %s' % r.tag(),
                        'ok' if tot == 1 else 'violation',
                        '' if tot == 1 else 'the number operand enters the '
                        'cores with total degree %s (per core %s); the product '
                        'tensor must be linear in it' % (tot, degs))
        if q in ('act_two.add', 'act_two.sub') and \
                'num:c' in r.variant.values():
            # the constant tensor built for the number: total degree 1
            for rr in [r]:
                for s in rr.I.sites:
                    pass
    # const(): total degree 1 on both branches (shared with C19)
    for d in ds:
        run = an.run('tensors.const', 0, d)
        for j, rv in enumerate(run.returns):
            if rv.k != 'list':
                continue
            if any(c.degq or c.deg_alt for c in rv.items):
                rep.unknown('U-deg', 'tensors.const', 'degree of v over the '
                            'cores, return path %d at d=%d' % (j, d),
                            'degree of a core not established')
                continue
            degs = [(c.deg or {}).get('v', Fraction(0)) for c in rv.items]
            tot = sum(degs)
            rep.add('U-deg', 'tensors.const', 'degree of v over the cores, '
                    'return path %d at d=%d' % (j, d),
                    'ok' if tot == 1 else 'violation',
                    '' if tot == 1 else 'the value enters the cores with total '
                    'degree %s (per core %s), expected 1' % (tot, degs))
    from .. import rules_proto as _RP
    _callers = {f.qualname for f in prog.all_functions()
                if f.module.name in ('act_one', 'act_two', 'data', 'props')}
    _RP.check_param_forwarding(prog, rep, callers=_callers)
    rep.floor('S-ret', 20, 'algebra results')
    rep.floor('U-count', 16, 'natural-norm interface vectors, mean, sum')
    # the block structure of add is typed either through its concatenations
    # or through slice stores into a pre-allocated block core
    blk = rep.count(rule='S-concat', status='ok') + \
        rep.count(rule='S-store', status='ok', where='act_two.add')
    if blk < 3:
        rep.error('act_two.add: only %d block-assembly sites were typed '
                  '(concatenations or slice stores), at least 3 expected' % blk)
    rep.floor('S-einsum', 3, 'einsum sites')
    rep.floor('S-matmul', 3, 'chain contractions')
    rep.floor('S-dense', 2, 'full()')
    rep.floor('S-meta', 6, 'ranks / shape / size')
    rep.floor('U-deg', 6, 'number operands')
