"""C17 — QTT conversion and index maps (structural clauses)."""
import ast

from .. import model, paths, specs, interp
from .common import decided_split, pre, S_RULES
from ..engine import tt_wellformed, collect
from ..poly import Poly, same
from ..values import ARR, LIST, INT


def _order_kw(call, mod=None):
    """The order literal of a call ('C' when absent); a module-level constant
    is looked up; anything else is None (not decided)."""
    for k in call.keywords:
        if k.arg == 'order':
            if isinstance(k.value, ast.Constant):
                return k.value.value
            if isinstance(k.value, ast.Name) and mod is not None:
                tree = getattr(mod, 'tree', None)
                for st in (tree.body if tree is not None else []):
                    if isinstance(st, ast.Assign) and any(
                            isinstance(t, ast.Name) and t.id == k.value.id
                            for t in st.targets) and \
                            isinstance(st.value, ast.Constant):
                        return st.value.value
            return None
    return 'C'


def check(an, rep, tier):
    prog = an.prog
    rep.explanation = decided_split(
        'S-layout core_qtt_to_tt merges the binary modes with the first '
        'QTT-core fastest (little-endian): decided with tagged mode symbols '
        'by the layout facet (ordered products through tensordot / Fortran '
        'reshape); S-pair ind_tt_to_qtt and ind_qtt_to_tt use unravel_index / '
        'ravel_multi_index with the same dims expression and order="F" '
        '(first digit fastest, the convention of the core merge) and the same '
        'column block q*i:q*(i+1); S-ret core_tt_to_qtt at mode sizes 2, 4, 8 '
        'returns q three-axis cores of mode size 2 whose outer bonds are '
        'exactly the original ranks and whose inner bonds chain; tt_to_qtt / '
        'qtt_to_tt results are well formed; P-forward e and r reach every '
        'truncated factorisation; P-domain non-power-of-two mode sizes raise '
        'ValueError in core_tt_to_qtt, ind_tt_to_qtt and optima_qtt and '
        'powers of two do not.',
        'accuracy of the round trip, the digit order produced by the halving '
        'loop of core_tt_to_qtt as values.')
    rep.assumptions = pre('PRE-TT', 'PRE-D', 'PRE-DOC')
    rep.trusted = ['numpy.ravel_multi_index / unravel_index with equal dims '
                   'and order are mutually inverse', 'NumPy model']
    o = {'split': dict(specs.DEFAULT_SPLIT),
         'summary': dict(specs.DEFAULT_SUMMARY)}
    # --- the merged core is a new array, also for a single QTT-core (mode
    # size 2: nothing to contract) -- it must not be the caller's own core
    for nq in (1, 2, 3):
        items = [ARR((Poly.sym('q%d' % k), Poly.sym('b%d' % k),
                      Poly.sym('q%d' % (k + 1))), 'f',
                     org=frozenset({('E', 'Q_list', k)})) for k in range(nq)]
        I = interp.Interp(prog, dict(o))
        r = I.run_function(prog.func('core.core_qtt_to_tt'),
                           {'Q_list': LIST(items)})
        shared = sorted(l for l in (r.org if r.k in ('arr', 'top') else ())
                        if isinstance(l, tuple) and l[0] == 'E')
        rep.add('A-ret', 'core.core_qtt_to_tt', 'result of merging %d '
                'core(s) is a fresh array' % nq,
                'violation' if shared else ('ok' if r.k == 'arr' else
                                            'unknown'),
                '' if not shared else 'the returned core may be the very '
                'array object the caller passed in (%s): later in-place '
                'work on the result changes the input QTT-tensor' % shared)
    # --- layout of the merge
    for nq in (2, 3, 4):
        items = [ARR((Poly.sym('q%d' % k), Poly.sym('b%d' % k),
                      Poly.sym('q%d' % (k + 1))), 'f') for k in range(nq)]
        I = interp.Interp(prog, dict(o))
        r = I.run_function(prog.func('core.core_qtt_to_tt'),
                           {'Q_list': LIST(items)})
        want = tuple(Poly.sym('b%d' % k) for k in range(nq))
        lay = r.lay[1] if r.k == 'arr' and r.lay is not None and \
            len(r.lay) == 3 else None
        ok = lay is not None and len(lay) == nq and all(
            same(a, b) for a, b in zip(lay, want))
        # a definite violation is a KNOWN different order of the same binary
        # factors; a coarser factorisation (b0*b1 kept as one unit after a
        # contraction that does not carry layouts) is lost information
        from ..layout import layouts_conflict
        bad = lay is not None and not ok and layouts_conflict(lay, want)
        rep.add('S-layout', 'core.core_qtt_to_tt', 'merged mode of %d binary '
                'cores: first core fastest' % nq,
                'ok' if ok else ('violation' if bad else 'unknown'),
                '' if ok else 'the merged mode axis has factor order %s '
                '(fastest first); the index maps use the first digit as the '
                'fastest one' % (lay,))
        ok = r.k == 'arr' and r.dims is not None and len(r.dims) == 3 and \
            same(r.dims[0], Poly.sym('q0')) and \
            same(r.dims[2], Poly.sym('q%d' % nq))
        rep.add('S-ret', 'core.core_qtt_to_tt', 'outer bonds for %d cores'
                % nq, 'ok' if ok else 'violation', '' if ok else repr(r))
        for s in I.sites:
            if s.rule in S_RULES and s.where == 'core.core_qtt_to_tt':
                rep.add(s.rule, s.where, s.construct, s.status, s.detail)
    # --- split at concrete mode sizes
    for n in (2, 4, 8):
        q = n.bit_length() - 1
        G = ARR((Poly.sym('r1'), Poly.const(n), Poly.sym('r2')), 'f')
        I = interp.Interp(prog, dict(o))
        r = I.run_function(prog.func('core.core_tt_to_qtt'), {'G': G})
        if n > 2:
            # the left unfolding that enters the first truncated
            # factorisation: its rows enumerate (left rank, mode) with the
            # LEFT RANK fastest -- the order in which the last fold
            # (r1, 2, -1) and the merge of core_qtt_to_tt read them
            first = None
            for (q_, args_, res_), meta_ in zip(I.call_log, I.call_meta):
                if q_ in ('svd.matrix_svd', 'svd.matrix_skeleton') and \
                        (meta_.get('caller') or '').startswith('core.'):
                    first = args_.get('A') if isinstance(args_, dict) \
                        else (args_[0] if args_ else None)
                    break
            want_l = (Poly.sym('r1'), Poly.const(n))
            lay_ = first.lay[0] if first is not None and \
                first.k == 'arr' and first.lay is not None else None
            ok_l = lay_ is not None and len(lay_) == 2 and \
                all(same(a_, b_) for a_, b_ in zip(lay_, want_l))
            from ..layout import layouts_conflict
            bad_l = lay_ is not None and not ok_l and \
                layouts_conflict(lay_, want_l)
            rep.add('S-layout', 'core.core_tt_to_qtt', 'rows of the first '
                    'unfolding at mode size %d: left rank fastest' % n,
                    'ok' if ok_l else ('violation' if bad_l else 'unknown'),
                    '' if ok_l else 'the rows of the unfolding that is '
                    'factorised first have the order %s (fastest first), '
                    'expected %s: the binary digits of the mode would be '
                    'mixed with the left rank index' % (lay_, want_l))
        st, detail = 'ok', ''
        if not (r.k == 'list' and r.items is not None and len(r.items) == q):
            st, detail = 'violation', 'returned %r, expected %d cores' % (r, q)
        else:
            prev = Poly.sym('r1')
            for k, c in enumerate(r.items):
                from .common import cmp3
                if c.k != 'arr' or c.dims is None:
                    st, detail = 'unknown', 'core %d is %r' % (k, c)
                    break
                if len(c.dims) != 3:
                    st, detail = 'violation', 'core %d is %r' % (k, c)
                    break
                c3 = cmp3(c.dims[1], Poly.const(2))
                if c3 != 'ok':
                    st, detail = c3, 'core %d has mode size %r' % (
                        k, c.dims[1])
                    break
                c3 = cmp3(c.dims[0], prev)
                if c3 != 'ok':
                    st, detail = c3, \
                        'bond %d: %r does not continue %r (outer bonds must ' \
                        'be exactly the original ranks, inner bonds must ' \
                        'chain)' % (k, c.dims[0], prev)
                    break
                prev = c.dims[2]
            if st == 'ok':
                c3 = cmp3(prev, Poly.sym('r2'))
                if c3 != 'ok':
                    st, detail = c3, 'last bond is %r, the original ' \
                        'right rank r2 is lost' % (prev,)
        rep.add('S-ret', 'core.core_tt_to_qtt', 'mode size %d -> %d cores '
                'with outer bonds (r1, r2)' % (n, q), st, detail)
        if r.k == 'list' and r.items is not None and len(r.items) == q and \
                q >= 3:
            # inner cores come from the orthonormal-row right factors of the
            # successive truncations (first / last core absorb A and V0)
            states = [c.orth for c in r.items[1:-1]]
            bad = [s for s in states if s in ('half3', 'weighted3', 'cols3')]
            rep.add('O-sweep', 'core.core_tt_to_qtt', 'inner QTT cores of '
                    'mode size %d' % n,
                    'ok' if all(s == 'rows3' for s in states) else
                    ('violation' if bad else 'unknown'),
                    '' if not bad else 'inner cores have states %s: the right '
                    'factors of the successive truncations must be '
                    'orthonormal, otherwise later truncation errors are '
                    'amplified' % states)
        for s in I.sites:
            if s.rule in S_RULES and s.where == 'core.core_tt_to_qtt':
                rep.add(s.rule, s.where, s.construct, s.status, s.detail)
    # non powers of two are rejected
    for n, bad in ((6, True), (12, True), (8, False), (1, False)):
        G = ARR((Poly.sym('r1'), Poly.const(n), Poly.sym('r2')), 'f')
        I = interp.Interp(prog, dict(o))
        I.run_function(prog.func('core.core_tt_to_qtt'), {'G': G})
        from .common import dom3
        st3, d3 = dom3(I.raises, I.entry_returns, bad)
        if n == 1:
            continue
        rep.add('P-domain', 'core.core_tt_to_qtt', 'mode size %d %s'
                % (n, 'rejected' if bad else 'accepted'), st3,
                '' if st3 == 'ok' else 'mode size %d is %s' % (n, d3))
        # the rejection is a property of the MODE size alone: it must not
        # depend on the (even / odd) left rank
        for r1c in (2, 4):
            G = ARR((Poly.const(r1c), Poly.const(n), Poly.sym('r2')), 'f')
            I = interp.Interp(prog, dict(o))
            I.run_function(prog.func('core.core_tt_to_qtt'), {'G': G})
            st3, d3 = dom3(I.raises, I.entry_returns, bad)
            rep.add('P-domain', 'core.core_tt_to_qtt', 'mode size %d with '
                    'left rank %d %s' % (n, r1c,
                                         'rejected' if bad else 'accepted'),
                    st3, '' if st3 == 'ok' else 'mode size %d (left rank %d) '
                    'is %s' % (n, r1c, d3))
        I = interp.Interp(prog, dict(o))
        I.run_function(prog.func('grid.ind_tt_to_qtt'),
                       {'I': specs.build('I[m,d]', 'I', 3), 'n': INT(n)})
        st3, d3 = dom3(I.raises, I.entry_returns, bad)
        rep.add('P-domain', 'grid.ind_tt_to_qtt', 'mode size %d %s'
                % (n, 'rejected' if bad else 'accepted'), st3,
                '' if st3 == 'ok' else 'mode size %d is %s' % (n, d3))
    for spec, bad in (('ttm6', True), ('ttm8', False)):
        I = interp.Interp(prog, dict(o))
        I.run_function(prog.func('optima.optima_qtt'),
                       {'Y': specs.build(spec, 'Y', 2)})
        from .common import dom3
        st3, d3 = dom3(I.raises, I.entry_returns, bad)
        rep.add('P-domain', 'optima.optima_qtt', 'mode size %s %s'
                % (spec[3:], 'rejected' if bad else 'accepted'), st3,
                '' if st3 == 'ok' else 'wrong rejection behaviour: ' + d3)
    # --- P-pow2: the power-of-two test of the three quantised entry points
    # is an (in)equality.  q = int(log2(n)) is the floor only as long as
    # log2 is exact; a one-sided comparison of 2**q with n (``2**q < n``)
    # agrees with ``!=`` for small n and accepts a non-power-of-two as soon
    # as log2 rounds up (n = 2**k - 1, k >= 49), a size that is normal for
    # index maps, which never allocate n items.  Three-valued: ``!=`` = ok,
    # a single ordering comparison guarding the raise = violation, any
    # other spelling = unknown (no floor; P-domain above carries the floor).
    from .. import roles as _rolesP

    def _is_pow2(e):
        return isinstance(e, ast.BinOp) and isinstance(e.op, ast.Pow) and \
            isinstance(e.left, ast.Constant) and e.left.value == 2
    for _qn in ('core.core_tt_to_qtt', 'grid.ind_tt_to_qtt',
                'optima.optima_qtt'):
        _f = prog.func(_qn)
        if _f is None:
            continue
        for _if in ast.walk(_f.node):
            if not (isinstance(_if, ast.If) and
                    any(isinstance(x, ast.Raise) for x in _if.body) and
                    isinstance(_if.test, ast.Compare) and
                    len(_if.test.ops) == 1):
                continue
            _l = _rolesP.inline(_f.node, _if.test.left)
            _r = _rolesP.inline(_f.node, _if.test.comparators[0])
            if not (_is_pow2(_l) or _is_pow2(_r)):
                continue
            _op = _if.test.ops[0]
            _st3 = 'ok' if isinstance(_op, ast.NotEq) else (
                'violation' if isinstance(_op, (ast.Lt, ast.Gt, ast.LtE,
                                                ast.GtE)) else 'unknown')
            rep.add('P-pow2', _qn, 'the rejection test compares 2**q with '
                    'the mode size by inequality (!=)', _st3,
                    '' if _st3 == 'ok' else 'one-sided or unrecognised test '
                    '"%s": it differs from != where int(log2(n)) is not the '
                    'floor' % ast.unparse(_if.test),
                    line=_if.lineno, file=_f.module.path)
    # --- tt_to_qtt / qtt_to_tt results
    for d in (2, 3):
        for spec, q in (('ttm4', 2), ('ttm8', 3)):
            I = interp.Interp(prog, dict(o))
            r = I.run_function(prog.func('act_one.tt_to_qtt'),
                               {'Y': specs.build(spec, 'Y', d)})
            st, detail = tt_wellformed(r, [Poly.const(2)] * (d * q))
            rep.add('S-ret', 'act_one.tt_to_qtt', '%s, d=%d' % (spec, d), st,
                    detail)
        I = interp.Interp(prog, dict(o))
        r = I.run_function(prog.func('act_one.qtt_to_tt'),
                           {'Y': specs.build('tt2q', 'Y', d), 'q': INT(2)})
        st, detail = tt_wellformed(r, [Poly.const(4)] * d)
        rep.add('S-ret', 'act_one.qtt_to_tt', 'q=2, d=%d' % d, st, detail)
    # --- the index maps answer a batch with a batch and a single index with a
    # single index, on EVERY return path (the number of rows is symbolic, so a
    # return that depends on it is seen for m = 1 as well)
    from ..engine import Analysis as _A
    for q_, par, width in (('grid.ind_tt_to_qtt', 'I', lambda d: 3 * d),
                           ('grid.ind_qtt_to_tt', 'I_qtt', lambda d: d)):
        for vi, v in enumerate(specs.variants(q_)):
            for d in (2, 3):
                r = an.run(q_, vi, d)
                from ..engine import collect as _collect
                from .common import S_RULES as _SR
                _collect(rep, [r], _SR, wheres={'grid.ind_tt_to_qtt',
                                                'grid.ind_qtt_to_tt'})
                many = '[m,' in str(v.get(par))
                for j, rv in enumerate(r.returns):
                    ok = rv.k == 'arr' and rv.dims is not None and \
                        len(rv.dims) == (2 if many else 1)
                    bad = rv.k == 'arr' and rv.dims is not None and not ok
                    rep.add('S-ret', q_, 'return path %d of %s: %s in, %s out'
                            % (j, r.tag(), 'batch' if many else 'single index',
                               'batch' if many else 'single index'),
                            'ok' if ok else ('violation' if bad else
                                             'unknown'),
                            '' if ok else 'this return path yields %r for a '
                            '%s argument (%s)' % (
                                rv, '2-D' if many else '1-D',
                                'a batch must stay a batch, also a batch of '
                                'one row' if many else 'a single index must '
                                'give a single index'))
    # --- S-pair
    f1 = prog.func('grid.ind_tt_to_qtt')
    f2 = prog.func('grid.ind_qtt_to_tt')
    c1 = [n for n in ast.walk(f1.node) if isinstance(n, ast.Call) and
          (prog.dotted(n.func) or '').endswith('unravel_index')]
    c2 = [n for n in ast.walk(f2.node) if isinstance(n, ast.Call) and
          (prog.dotted(n.func) or '').endswith('ravel_multi_index')]
    if len(c1) != 1 or len(c2) != 1:
        rep.error('grid index maps: ravel / unravel calls not found')
    else:
        o1, o2 = _order_kw(c1[0], f1.module), _order_kw(c2[0], f2.module)
        ok = o1 == o2 == 'F'
        rep.add('S-pair', 'grid.ind_tt_to_qtt/ind_qtt_to_tt',
                'unravel_index(order=%r) / ravel_multi_index(order=%r)'
                % (o1, o2), 'ok' if ok else (
                    'unknown' if None in (o1, o2) else 'violation'),
                '' if ok else 'the two index maps must use the same digit '
                'order, and it must be "F" (first digit fastest) to agree '
                'with the little-endian merge of the QTT cores')

        import copy as _copy

        def digit_name(fn):
            """The number of binary digits per mode: the parameter ``q`` or
            the local bound to int(log2(n))."""
            from .. import roles as _roles
            for n in ast.walk(fn.node):
                if isinstance(n, ast.Assign) and \
                        isinstance(n.targets[0], ast.Name):
                    v_ = _roles.inline(fn.node, n.value)
                    if isinstance(v_, ast.Call) and \
                            isinstance(v_.func, ast.Name) and \
                            v_.func.id == 'int' and \
                            any(isinstance(c, ast.Call) and
                                (prog.dotted(c.func) or '').endswith('log2')
                                for c in ast.walk(v_)):
                        return n.targets[0].id
            return 'q' if 'q' in fn.all_params else None

        def canon(fn, node, loopvar=None):
            """dump of the expression with the digit count and the loop
            variable replaced by fixed placeholders."""
            if node is None:
                return None
            qn = digit_name(fn)

            class R(ast.NodeTransformer):
                def visit_Name(self, n):
                    if n.id == qn:
                        return ast.Name(id='$q', ctx=ast.Load())
                    if loopvar is not None and n.id == loopvar:
                        return ast.Name(id='$i', ctx=ast.Load())
                    return ast.Name(id=n.id, ctx=ast.Load())
            return ast.dump(R().visit(_copy.deepcopy(node)))

        def dims_expr(fn, call):
            a = call.args[1] if len(call.args) > 1 else None
            for k_ in call.keywords:
                if k_.arg in ('shape', 'dims'):
                    a = k_.value
            if isinstance(a, ast.Name):
                for n in ast.walk(fn.node):
                    if isinstance(n, ast.Assign) and \
                            isinstance(n.targets[0], ast.Name) and \
                            n.targets[0].id == a.id:
                        return n.value
            return a
        def fold_dims(fn, node, qv):
            """Value of the dims expression (a list / tuple of ints built
            from literals, * and +) with the digit count set to qv, or None
            when the expression is outside that fragment."""
            qn = digit_name(fn)
            if node is None or qn is None:
                return None
            for x in ast.walk(node):
                if not isinstance(x, (ast.List, ast.Tuple, ast.Constant,
                                      ast.BinOp, ast.Mult, ast.Add, ast.Sub,
                                      ast.Name, ast.Load)):
                    return None
                if isinstance(x, ast.Name) and x.id != qn:
                    return None
            try:
                v_ = eval(compile(ast.Expression(body=node), '<dims>', 'eval'),
                          {'__builtins__': {}}, {qn: qv})
            except Exception:
                return None
            return list(v_) if isinstance(v_, (list, tuple)) else None
        dv1 = [fold_dims(f1, dims_expr(f1, c1[0]), qv) for qv in (3, 4)]
        dv2 = [fold_dims(f2, dims_expr(f2, c2[0]), qv) for qv in (3, 4)]
        want_v = [[2] * 3, [2] * 4]
        if None in dv1 or None in dv2:
            st_, det_ = 'unknown', 'dims expression outside the folded ' \
                'fragment'
        elif dv1 == dv2 == want_v:
            st_, det_ = 'ok', ''
        else:
            st_, det_ = 'violation', 'both maps must use q binary digits; ' \
                'for q = 3, 4 the dims are %s and %s' % (dv1, dv2)
        rep.add('S-pair', 'grid.ind_tt_to_qtt/ind_qtt_to_tt',
                'digit dims of unravel_index / ravel_multi_index are [2]*q',
                st_, det_)
        blocks = []
        for fn in (f1, f2):
            for lp in ast.walk(fn.node):
                if not (isinstance(lp, ast.For) and
                        isinstance(lp.target, ast.Name)):
                    continue
                for n in ast.walk(lp):
                    if isinstance(n, ast.Subscript) and \
                            isinstance(n.slice, ast.Tuple) and \
                            len(n.slice.elts) == 2 and \
                            isinstance(n.slice.elts[1], ast.Slice):
                        s_ = n.slice.elts[1]
                        if s_.lower is not None and s_.upper is not None:
                            blocks.append(canon(fn, s_, lp.target.id))
        want_blk = ast.dump(ast.parse('x[Q_ * I_:Q_ * (I_ + 1)]', mode='eval'
                                      ).body.slice).replace(
            'Q_', '$q').replace('I_', '$i')
        ok = len(blocks) == 2 and blocks[0] == blocks[1] == want_blk
        # one map vectorised (no per-mode column block): nothing to compare
        rep.add('S-pair', 'grid.ind_tt_to_qtt/ind_qtt_to_tt',
                'column block of mode i is q*i:q*(i+1) in both maps',
                'ok' if ok else ('violation' if len(blocks) == 2 else
                                 'unknown'),
                '' if ok else 'the digit block of mode i must be columns '
                'q*i:q*(i+1) in both maps')
    # --- P-forward
    fn = prog.func('core.core_tt_to_qtt')
    for node in ast.walk(fn.node):
        if isinstance(node, ast.Call) and \
                (prog.dotted(node.func) or '').endswith('matrix_svd'):
            names = [a.id for a in list(node.args) +
                     [k_.value for k_ in node.keywords]
                     if isinstance(a, ast.Name)]
            ok = 'e' in names and 'r' in names
            rep.add('P-forward', 'core.core_tt_to_qtt',
                    paths.src(fn.module, node) + ' @%d' % node.lineno,
                    'ok' if ok else 'violation',
                    '' if ok else 'e / r are not forwarded to the truncated '
                    'factorisation')
    fn = prog.func('act_one.tt_to_qtt')
    for node in ast.walk(fn.node):
        if isinstance(node, ast.Call) and \
                (prog.dotted(node.func) or '').endswith('core_tt_to_qtt'):
            names = [a.id for a in list(node.args) +
                     [k_.value for k_ in node.keywords]
                     if isinstance(a, ast.Name)]
            ok = 'e' in names and 'r' in names
            rep.add('P-forward', 'act_one.tt_to_qtt',
                    paths.src(fn.module, node), 'ok' if ok else 'violation',
                    '' if ok else 'e / r are not forwarded')
    from .. import rules_proto as _RP
    _callers = {f.qualname for f in prog.all_functions()
                if f.module.name in ('core', 'act_one', 'grid')}
    _RP.check_param_forwarding(prog, rep, callers=_callers)
    rep.floor('O-sweep', 1, 'orthonormal right factors')
    rep.floor('A-ret', 3, 'fresh merged cores')
    rep.floor('S-layout', 5, 'merge / split layouts')
    rep.floor('S-ret', 10, 'conversion results')
    rep.floor('S-pair', 2, 'index map pairing (order and digit dims; the column blocks only when both maps are written per mode)')
    rep.floor('P-domain', 12, 'power-of-two checks')
    rep.floor('P-forward', 3, 'forwarded caps')
