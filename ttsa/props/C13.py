"""C13 — TT-ANOVA cores encode the additive model (structural clauses)."""
import ast

from .. import model, paths, specs, interp, rules_rng
from ..rules_formula import Rat, rat_eval
from .common import decided_split, pre, S_RULES, sweep
from ..engine import tt_wellformed
from ..poly import Poly, same, known_le


def _core_sections(fn):
    """Group the slot stores  X[a, :, b] = value  (also the paired fancy form
    X[[a1, a2], :, [b1, b2]] = value) by the array they fill: one section per
    ``X = ...`` binding, in program order (first core, loop body, last core).
    The variable names are free; loops may be ``for`` or ``while``."""
    sections = []
    current = {}            # array name -> open section

    def consts(e):
        if isinstance(e, ast.Constant) and isinstance(e.value, int):
            return [e.value]
        if isinstance(e, (ast.List, ast.Tuple)) and e.elts and all(
                isinstance(x, ast.Constant) and isinstance(x.value, int)
                for x in e.elts):
            return [x.value for x in e.elts]
        return None

    def slot(t):
        if not (isinstance(t, ast.Subscript) and
                isinstance(t.value, ast.Name) and
                isinstance(t.slice, ast.Tuple) and len(t.slice.elts) == 3
                and isinstance(t.slice.elts[1], ast.Slice)):
            return None
        a_, b_ = consts(t.slice.elts[0]), consts(t.slice.elts[2])
        if a_ is None or b_ is None:
            return None
        if len(a_) == len(b_):
            return list(zip(a_, b_))
        if len(a_) == 1 or len(b_) == 1:
            return [(x, y) for x in a_ for y in b_]
        return None
    slotted = {n.targets[0].value.id for n in ast.walk(fn.node)
               if isinstance(n, ast.Assign) and len(n.targets) == 1 and
               slot(n.targets[0]) is not None}

    def walk(stmts, in_loop):
        for st in stmts:
            if isinstance(st, ast.Assign) and len(st.targets) == 1 and \
                    isinstance(st.targets[0], ast.Name) and \
                    st.targets[0].id in slotted:
                sec = {'init': st, 'stores': [], 'loop': in_loop}
                sections.append(sec)
                current[st.targets[0].id] = sec
            elif isinstance(st, ast.Assign) and len(st.targets) == 1 and \
                    slot(st.targets[0]) is not None and \
                    st.targets[0].value.id in current:
                for a_, b_ in slot(st.targets[0]):
                    current[st.targets[0].value.id]['stores'].append(
                        (a_, b_, st.value, st))
            elif isinstance(st, (ast.For, ast.While)):
                walk(paths.linear(st.body), True)
    walk(paths.linear(fn.node.body), False)
    # first / middle / last by position relative to the loop section
    loops = [s for s in sections if s['loop']]
    if len(sections) == 3 and len(loops) == 1 and sections[1]['loop']:
        return sections
    if len(loops) == 1 and len(sections) == 3:
        # the closing core may be prepared before the loop
        rest = [s for s in sections if not s['loop']]
        # the first core has one row (slots (0, b)), the last one column
        wide = [s for s in rest if any(b_ != 0 for _, b_, _, _ in s['stores'])]
        if len(wide) == 1:
            other = [s for s in rest if s is not wide[0]][0]
            return [wide[0], loops[0], other]
        return [rest[0], loops[0], rest[1]]
    return sections


def _val(node):
    """1 -> 1 ; self.f1_arr[..] -> g ; ... + self.f0 -> g + f0."""
    env = {}

    class T(ast.NodeTransformer):
        def visit_Subscript(self, n):
            if isinstance(n.value, ast.Attribute) and \
                    n.value.attr == 'f1_arr':
                return ast.Name(id='g', ctx=ast.Load())
            return n

        def visit_Attribute(self, n):
            if isinstance(n.value, ast.Name) and n.value.id == 'self':
                return ast.Name(id=n.attr, ctx=ast.Load())
            return n
    import copy
    tree = T().visit(copy.deepcopy(node))
    return rat_eval(tree, env)


def _is_empty_test(prog, t):
    """<mask>.sum() == 0   /   0 == <mask>.sum()   (true = nothing selected)"""
    if isinstance(t, ast.Compare) and len(t.ops) == 1 and \
            isinstance(t.ops[0], ast.Eq):
        for a, b in ((t.left, t.comparators[0]), (t.comparators[0], t.left)):
            if isinstance(b, ast.Constant) and b.value == 0 and \
                    isinstance(a, ast.Call) and \
                    isinstance(a.func, ast.Attribute) and \
                    a.func.attr in ('sum', 'count_nonzero'):
                return True
    return False


def _is_nonempty_test(prog, t):
    """<mask>.any()  /  <mask>.sum() > 0  (true = something selected)"""
    if isinstance(t, ast.Call) and isinstance(t.func, ast.Attribute) and \
            t.func.attr == 'any':
        return True
    if isinstance(t, ast.Compare) and len(t.ops) == 1:
        l, r, op = t.left, t.comparators[0], t.ops[0]
        if isinstance(op, (ast.Gt, ast.NotEq)) and \
                isinstance(r, ast.Constant) and r.value == 0 and \
                isinstance(l, ast.Call) and \
                isinstance(l.func, ast.Attribute) and l.func.attr == 'sum':
            return True
        if isinstance(op, (ast.Lt, ast.NotEq)) and \
                isinstance(l, ast.Constant) and l.value == 0 and \
                isinstance(r, ast.Call) and \
                isinstance(r.func, ast.Attribute) and r.func.attr == 'sum':
            return True
    return False


def check(an, rep, tier):
    prog = an.prog
    rep.explanation = decided_split(
        'T-pattern the slot stores of ANOVA.cores_1 form, with the noise '
        'entries set to 0, the transfer matrices [1, f], [[1, f], [0, 1]], '
        '[f + f0; 1]: the row vector [1, S] is propagated to [1, S + f] and '
        'closed to f0 + sum f (symbolic 2x2 check, for every d); S-ret order 1 '
        'returns well-formed cores with TT-ranks equal to r and the observed '
        'mode sizes, order 2 goes through add_many(..., r=r) (cap forwarded); '
        'S-* the pair-term tensors (_second_order_2_tt, _core_one) are '
        'dimension consistent; P-order build_0 runs before build_1 before '
        'build_2 and the first-order term is "conditional mean - f0" over a '
        'boolean mask; A-self cores / cores_1 / cores_2 / calc / sample do '
        'not write arrays owned by the object (a second call must give the '
        'same tensor); P-offset the functional variant drops coefficient 0 '
        'into the constant and writes coefficient p at index p + 1; R-draw '
        'the noise comes from self.rand = _rand(seed).',
        'values of the conditional means, truncation error for order 2, '
        'ridge-fit accuracy.')
    rep.assumptions = pre('PRE-D', 'PRE-IDX', 'PRE-DOC')
    rep.trusted = ['NumPy model']
    fn = prog.func('anova.ANOVA.cores_1')
    mod = fn.module
    secs = _core_sections(fn)
    if len(secs) != 3:
        rep.error('anova.ANOVA.cores_1: expected three core sections, found %d'
                  % len(secs))
    else:
        S, g, f0 = (Rat(Poly.sym(x)) for x in ('S', 'g', 'f0'))
        one, zero = Rat(1), Rat(0)

        def mat(sec, nr, nc):
            M = [[zero] * nc for _ in range(nr)]
            for a, b, v, st in sec['stores']:
                if a < nr and b < nc:
                    M[a][b] = _val(v)
                elif True:
                    raise ValueError('store outside the 2x2 block: (%d,%d)'
                                     % (a, b))
            return M
        try:
            F_ = mat(secs[0], 1, 2)
            ok = F_[0][0].eq(one) and F_[0][1].eq(g)
            rep.add('T-pattern', 'anova.ANOVA.cores_1', 'first core [1, f]',
                    'ok' if ok else 'violation',
                    '' if ok else 'first core slots give %r' % (F_,),
                    line=secs[0]['init'].lineno, file=mod.path)
            M = mat(secs[1], 2, 2)
            r0 = one * M[0][0] + S * M[1][0]
            r1 = one * M[0][1] + S * M[1][1]
            ok = r0.eq(one) and r1.eq(S + g)
            rep.add('T-pattern', 'anova.ANOVA.cores_1',
                    'middle cores: [1, S] -> [1, S + f]',
                    'ok' if ok else 'violation',
                    '' if ok else 'middle core slots give the transfer matrix '
                    '%r, which does not propagate the running sum' % (M,),
                    line=secs[1]['init'].lineno, file=mod.path)
            Lc = mat(secs[2], 2, 1)
            tot = one * Lc[0][0] + S * Lc[1][0]
            ok = tot.eq(f0 + S + g)
            rep.add('T-pattern', 'anova.ANOVA.cores_1',
                    'last core: [1, S] -> f0 + S + f',
                    'ok' if ok else 'violation',
                    '' if ok else 'last core slots give %r: the chain does '
                    'not close to constant + sum of the per-mode terms'
                    % (Lc,), line=secs[2]['init'].lineno, file=mod.path)
        except ValueError as e:
            rep.violation('T-pattern', 'anova.ANOVA.cores_1', 'slot stores',
                          str(e), line=fn.node.lineno, file=mod.path)
    # --- T-identity: the chaining cores of the pair terms are identities in
    # the two bond axes, constant along the mode axis
    from .. import interp as _interp
    from ..values import INT as _INT
    f1 = prog.func('anova._core_one')
    I_ = _interp.Interp(prog, {})
    rv = I_.run_function(f1, {'n': _INT(Poly.sym('n')),
                              'r': _INT(Poly.sym('r'))})
    dl = rv.delta if rv.k == 'arr' else None
    rep.add('T-identity', 'anova._core_one', 'result is the identity in the '
            'bond axes (0, 2), constant along the mode axis',
            'ok' if dl == (0, 2) else
            ('violation' if dl == 'broken' or isinstance(dl, tuple)
             else 'unknown'),
            '' if dl == (0, 2) else
            ('the identity pattern of the chaining core pairs axes %s '
             '(expected the two bond axes 0 and 2)' % (dl,)
             if isinstance(dl, tuple) else
             'a reshape scrambles the identity pattern: the paired axes of '
             'np.eye end up on axes of different extent, so the core no '
             'longer passes the bond index through'),
            line=f1.node.lineno, file=f1.module.path)
    # --- interpreter runs
    ds = (2, 3) if tier == 'quick' else (2, 3, 4, 5)
    wh = {'anova.ANOVA.cores_1', 'anova.ANOVA.cores_2', 'anova.ANOVA.cores',
          'anova._second_order_2_tt', 'anova._core_one',
          'anova.ANOVA.build', 'anova.ANOVA.build_1', 'anova.ANOVA.build_2',
          'anova_func.ANOVA_func.cores', 'anova_func.ANOVA_func.coeffs',
          'anova.ANOVA.f1_arr', 'anova.ANOVA.f2_arr'}
    runs = sweep(an, rep, ['anova.anova', 'anova_func.anova_func'], ds,
                 rules=S_RULES + ['K-empty'], wheres=wh)
    for r in runs:
        for j, rv in enumerate(r.returns):
            st, detail = tt_wellformed(rv, None)
            if st == 'ok' and r.qualname == 'anova.anova':
                order2 = r.variant.get('order') == ('lit', 2)
                want = Poly.sym('r') if order2 else Poly.const(2)
                from .common import cmp3
                for k, c in enumerate(rv.items[:-1]):
                    c3 = 'ok' if order2 else cmp3(c.dims[2], want)
                    if c3 != 'ok' and st != 'violation':
                        st, detail = c3, 'order-1 bond %d is %r, ' \
                            'requested rank %r' % (k + 1, c.dims[2], want)
            rep.add('S-ret', r.qualname, 'return path %d of %s'
                    % (j, r.tag()), st, detail)
        # A-self: writes to object-owned arrays outside the builders
        builders = ('build', 'build_0', 'build_1', 'build_2', 'load',
                    '__init__', 'f1_arr', 'f2_arr', 'coeffs')
        for ef in r.I.effects:
            owned = [l for l in ef.labels if isinstance(l, tuple) and
                     l[0] == 'S']
            if not owned or ef.kind != 'array-write':
                continue
            meth = ef.where.split('.')[-1]
            if meth in builders:
                continue
            rep.violation('A-self', ef.where, ef.construct,
                          'this method writes an array owned by the object '
                          '(attribute %s): a later call on the same object '
                          'no longer encodes the fitted model'
                          % sorted(l[1] for l in owned),
                          line=ef.node.lineno, file=ef.mod.path)
    for m in ('cores', 'cores_1', 'cores_2', 'calc', 'calc_1', 'calc_2',
              'sample'):
        rep.ok('A-self', 'anova.ANOVA.' + m, 'no write to object-owned '
               'arrays') if not any(
            o.rule == 'A-self' and o.where == 'anova.ANOVA.' + m and
            o.status == 'violation' for o in rep.obls.values()) else None
    # order-2 cap forwarded
    fn = prog.func('anova.ANOVA.cores')
    okf = False
    am_found = False
    from .. import roles as _roles0
    for node in ast.walk(fn.node):
        if isinstance(node, ast.Call) and \
                (prog.dotted(node.func) or '').endswith('add_many'):
            am_found = True
            rv_ = _roles0.arg(prog, fn.module, node, 'r')
            okf = isinstance(rv_, ast.Name) and rv_.id == 'r'
    rep.add('P-forward', 'anova.ANOVA.cores', 'add_many(..., r=r)',
            'ok' if okf else ('violation' if am_found else 'unknown'),
            '' if okf else 'the requested rank is not forwarded to the '
            'rounding of the order-2 sum')
    # --- P-order
    fn = prog.func('anova.ANOVA.build')
    order = []
    for node in ast.walk(fn.node):
        if isinstance(node, ast.Call) and isinstance(node.func, ast.Attribute) \
                and node.func.attr in ('build_0', 'build_1', 'build_2'):
            order.append((node.lineno, node.func.attr))
    seq = [n for _, n in sorted(order)]
    rep.add('P-order', 'anova.ANOVA.build', ' < '.join(seq),
            'ok' if seq == ['build_0', 'build_1', 'build_2'] else 'violation',
            'the constant must be known before the first-order terms, and '
            'those before the pair terms')
    # first-order term: the value stored per (mode, index) is
    #     <mean of the selected samples>  -  self.f0
    # as a symbolic value on every path to the store (rules_sym)
    from .. import rules_sym as _rs
    fn = prog.func('anova.ANOVA.build_1')
    mod = fn.module
    st1 = [n for n in ast.walk(fn.node) if isinstance(n, ast.Assign) and
           isinstance(n.targets[0], ast.Subscript) and
           isinstance(n.targets[0].value, ast.Name) and
           isinstance(n.value, ast.Name)]
    decided = False
    for st_ in st1:
        for gs_, val in _rs.values_at(fn.node, st_, st_.value.id):
            if val is None:
                continue
            num = val.reduced()
            coeffs = {}
            lin = True
            for mono, c in num.n.t.items():
                if len(mono) != 1 or mono[0][1] != 1:
                    lin = False
                    continue
                coeffs[mono[0][0]] = c
            means = [a_ for a_, c in coeffs.items() if 'mean(' in str(a_)]
            if not means:
                continue            # not the store of a first-order term
            decided = True
            ypar = fn.params[2]
            ok = lin and len(coeffs) == 2 and len(means) == 1 and \
                coeffs[means[0]] == 1 and ('%s[' % ypar) in str(means[0]) and \
                any(str(a_).endswith('.f0') and c == -1
                    for a_, c in coeffs.items())
            rep.add('P-order', 'anova.ANOVA.build_1', 'value = mean(y_trn['
                    'mask]) - f0', 'ok' if ok else 'violation',
                    '' if ok else 'the stored first-order term is %r, not '
                    '"conditional mean minus the constant"' % (num,),
                    line=st_.lineno, file=mod.path)
    if not decided:
        rep.unknown('P-order', 'anova.ANOVA.build_1', 'value = mean(y_trn['
                    'mask]) - f0', 'store of the first-order term not found')
    # --- T-pair-term: the stored pair term is 0 when the pair was never
    # observed and  mean - f0 - f1 - f1  otherwise (path-wise symbolic value)
    from .. import rules_sym
    fb2 = prog.func('anova.ANOVA.build_2')
    stores = [n for n in ast.walk(fb2.node) if isinstance(n, ast.Assign) and
              isinstance(n.targets[0], ast.Subscript) and
              isinstance(n.targets[0].slice, ast.Tuple) and
              isinstance(n.value, ast.Name)]
    for st_ in stores:
        vals = rules_sym.values_at(fb2.node, st_, st_.value.id)
        for gs_, val in vals:
            gs_ = paths.guard_atoms(gs_)        # strips not / splits and-or
            empties = [pol for t, pol in gs_ if _is_empty_test(prog, t)]
            nonempties = [not pol for t, pol in gs_
                          if _is_nonempty_test(prog, t)]
            flags = empties + nonempties
            if not flags or val is None:
                continue        # not a store of a pair term
            empty = flags[-1]
            if empty:
                ok = val.eq(Rat(0))
                rep.add('T-pair-term', 'anova.ANOVA.build_2', 'never observed '
                        'index pair -> pair term 0',
                        'ok' if ok else 'violation',
                        '' if ok else 'for an index pair that never occurs in '
                        'the data the stored pair term is %r, not 0'
                        % (val.reduced(),), line=st_.lineno,
                        file=fb2.module.path)
            else:
                num = val.reduced()
                coeffs = {}
                lin = num.d.as_int() == 1 if hasattr(num.d, 'as_int') else True
                for mono, c in num.n.t.items():
                    if len(mono) != 1 or mono[0][1] != 1:
                        lin = False
                        continue
                    coeffs[mono[0][0]] = c
                means = [a for a, c in coeffs.items() if 'mean(' in str(a)
                         and c == 1]
                f0s = [a for a, c in coeffs.items()
                       if str(a).endswith('.f0') and c == -1]
                f1s = [a for a, c in coeffs.items() if '.f1[' in str(a)
                       and c == -1]
                ok = lin and len(means) == 1 and len(f0s) == 1 and \
                    len(f1s) == 2 and len(coeffs) == 4
                rep.add('T-pair-term', 'anova.ANOVA.build_2', 'observed index '
                        'pair -> conditional mean - f0 - f1(x1) - f1(x2)',
                        'ok' if ok else 'violation',
                        '' if ok else 'the stored pair term is %r'
                        % (num,), line=st_.lineno, file=fb2.module.path)
    fn = prog.func('anova.ANOVA.build_0')
    ok = any(isinstance(n, ast.Assign) and
             isinstance(n.targets[0], ast.Attribute) and
             n.targets[0].attr == 'f0' and
             isinstance(n.value, ast.Call) and
             (prog.dotted(n.value.func) or '').endswith('mean') and
             len(n.value.args) == 1 and not n.value.keywords and
             isinstance(n.value.args[0], ast.Name) and
             n.value.args[0].id == fn.params[2] for n in ast.walk(fn.node))
    rep.add('P-order', 'anova.ANOVA.build_0', 'f0 = mean(y_trn)',
            'ok' if ok else 'violation',
            '' if ok else 'the constant term is no longer the sample mean')
    # --- P-offset (functional variant)
    fc = prog.func('anova_func.ANOVA_func.coeffs')
    fk = prog.func('anova_func.ANOVA_func.cores')
    drop = any(isinstance(n, ast.Subscript) and isinstance(n.slice, ast.Slice)
               and isinstance(n.slice.lower, ast.Constant) and
               n.slice.lower.value == 1 and n.slice.upper is None
               for n in ast.walk(fc.node))
    const0 = any(isinstance(n, ast.AugAssign) and
                 isinstance(n.value, ast.Subscript) and
                 isinstance(n.value.slice, ast.Constant) and
                 n.value.slice.value == 0 for n in ast.walk(fc.node))
    plus1 = any(isinstance(n, ast.Assign) and
                isinstance(n.value, ast.BinOp) and
                isinstance(n.value.op, ast.Add) and
                isinstance(n.value.right, ast.Constant) and
                n.value.right.value == 1 and
                isinstance(n.targets[0], ast.Subscript)
                for n in ast.walk(fk.node))
    # the reader's offset, in either spelling: ``pi + 1`` stored as the mode
    # index, or the enumeration of the coefficients started at 1; a bare
    # enumeration index (start 0) stored as the mode index is offset 0
    enum_vars = {}          # loop variable -> start value (int) or None
    for n in ast.walk(fk.node):
        it = n.iter if isinstance(n, (ast.For, ast.comprehension)) else None
        if isinstance(it, ast.Call) and isinstance(it.func, ast.Name) and \
                it.func.id == 'enumerate' and \
                isinstance(n.target, ast.Tuple) and \
                isinstance(n.target.elts[0], ast.Name):
            st_ = 0
            if len(it.args) > 1 and isinstance(it.args[1], ast.Constant):
                st_ = it.args[1].value
            for k_ in it.keywords:
                if k_.arg == 'start' and isinstance(k_.value, ast.Constant):
                    st_ = k_.value.value
            enum_vars[n.target.elts[0].id] = st_
    inner = {v: s_ for v, s_ in enum_vars.items()}
    start1 = any(s_ == 1 for s_ in inner.values())
    bare0 = any(isinstance(n, ast.Assign) and
                isinstance(n.targets[0], ast.Subscript) and
                isinstance(n.value, ast.Name) and
                inner.get(n.value.id) == 0 for n in ast.walk(fk.node))
    offset = 1 if (plus1 or start1) else (0 if bare0 else None)
    ok = drop and const0 and offset == 1
    bad = (drop and offset == 0) or (offset == 1 and const0 and not drop)
    rep.add('P-offset', 'anova_func.ANOVA_func', 'coeffs: cfs += cur_cf[1:], '
            'cfs[0] += cur_cf[0] ; cores: idx[i] = pi + 1',
            'ok' if ok else ('violation' if bad else 'unknown'),
            '' if ok else 'writer and reader of the coefficient offset '
            'disagree (drop=%s const=%s plus1=%s)' % (drop, const0, plus1))
    for mod_, fn_, call in rules_rng.draw_sites(prog):
        if mod_.name != 'anova':
            continue
        pv, txt = rules_rng.local_provenance(prog, mod_, fn_, call)
        rep.add('R-draw-local', fn_.qualname, model.norm_src(mod_, call.func),
                'ok' if pv in ('seeded', 'param', 'self') else 'violation',
                'receiver %s (%s)' % (txt, pv))
    from .. import rules_proto as _RP
    _callers = {f.qualname for f in prog.all_functions()
                if f.module.name in ('anova', 'anova_func')}
    _RP.check_param_forwarding(prog, rep, callers=_callers)
    from .. import rules_proto as _RPZ
    _RPZ.check_none_vs_zero(prog, rep, modules={'anova', 'anova_func'})
    rep.floor('T-pattern', 3, 'core patterns')
    rep.floor('T-identity', 1, 'chaining cores')
    rep.floor('T-pair-term', 2, 'pair terms')
    rep.floor('S-ret', 4, 'results')
    rep.floor('P-order', 3, 'build order')
    rep.floor('A-self', 5, 'object-state writes')
    rep.floor('R-draw-local', 2, 'noise draws')
