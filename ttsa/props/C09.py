"""C09 — public functions never modify their arguments / alias results to them.

Decided for the whole public API by the alias/effect facet (A) of the
abstract interpreter: every storage reachable from a parameter carries a
label; every write (subscript store, in-place operator, mutating method,
``out=``, SciPy ``overwrite_*``, ``rand.shuffle``) whose target may share
storage with a labelled object is an A-mut candidate; every returned array or
list that may share storage with a labelled object is an A-ret candidate.
"""
import ast

from .. import specs, model
from ..engine import collect
from ..values import AV

# documented exceptions: (function, parameter) -> reason
MUT_ALLOWED = {
    ('transformation.orthogonalize_left', 'Y'):
        'documented in-place flag (inplace=True) — footprint checked by A-inplace',
    ('transformation.orthogonalize_right', 'Y'):
        'documented in-place flag (inplace=True) — footprint checked by A-inplace',
    ('cross.cross', 'info'): 'info dictionary is filled on purpose',
    ('cross.cross', 'cache'): 'cache dictionary is filled on purpose',
    ('als.als', 'info'): 'info dictionary is filled on purpose',
    ('als_func.als_func', 'info'): 'info dictionary is filled on purpose',
}
RET_ALLOWED = {
    'grid.grid_prep_opt': 'option normalisation may hand back its argument',
    'grid.grid_prep_opts': 'option normalisation may hand back its arguments',
    'core.core_stab': 'returns the core itself below the threshold',
    'core.core_dot_maxvol': 'returns the index argument ind when it is given',
}
SKIP = {
    'act_one.getter': 'needs numba; raises ValueError in this environment',
}


def param_of(label):
    if isinstance(label, tuple) and label and label[0] in ('P', 'E', 'D'):
        return label[1] if label[0] != 'D' else label[2]
    return None


def returned_labels(v, seen=None, path='result'):
    """Yield (path, label) for storage of a returned value that is labelled."""
    seen = seen if seen is not None else set()
    if v is None or id(v) in seen:
        return
    seen.add(id(v))
    if v.k == 'arr' or v.k == 'top':
        for l in v.org:
            yield path, l
    elif v.k in ('list', 'tuple'):
        if v.k == 'list' and v.label is not None:
            from ..interp import _flat_labels
            for l in _flat_labels(v.label):
                yield path, l
        for i, x in enumerate(v.items or []):
            yield from returned_labels(x, seen, '%s[%d]' % (path, i))
        if v.elem is not None:
            yield from returned_labels(v.elem, seen, path + '[*]')
    elif v.k == 'dict':
        for k, x in (v.keys or {}).items():
            yield from returned_labels(x, seen, '%s[%r]' % (path, k))


def check(an, rep, tier):
    prog = an.prog
    rep.explanation = (
        'DECIDED: for every exported function and every documented flag '
        'variant in the entry table, for d in {2,3} cores and symbolic sizes: '
        '(A-mut) no write reaches storage that may belong to an argument; '
        '(A-ret) no returned array/list may share storage with an argument; '
        '(A-inplace) orthogonalize_left/right(inplace=True) store exactly the '
        'two adjacent cores; SciPy overwrite_* operands are fresh. '
        'NOT DECIDED: nothing numerical; trust = NumPy view-vs-copy table '
        '(errs toward "view").')
    rep.assumptions = [specs.PRECONDITIONS[k] for k in
                       ('PRE-TT', 'PRE-D', 'PRE-DOC')]
    rep.trusted = ['ttsa/npmodel.py, npcalls.py view-vs-copy table',
                   'python ast', 'documented-exception table in props/C09.py']
    ds = (2, 3) if tier == 'quick' else (2, 3, 4, 5)
    public = [f for f in prog.public]
    n_funcs = 0
    n_kind = [0]
    for fn in public:
        q = fn.qualname
        if fn.cls is not None and fn.name != '__init__':
            continue            # methods are reached through anova / anova_func
        if q in SKIP:
            rep.notes.append('%s skipped: %s' % (q, SKIP[q]))
            continue
        vs = specs.variants(q)
        if vs is None:
            rep.error('public function %s has no entry spec (add it to '
                      'ttsa/specs.py)' % q)
            continue
        n_funcs += 1
        for vi, variant in enumerate(vs):
            for d in ds:
                run = an.run(q, vi, d)
                _check_run(rep, fn, run)
                # the same call with the OTHER documented kind of each
                # argument: mode sizes as an ndarray instead of a list,
                # numbers as 0-d arrays (mutable!), integers as NumPy
                # integers.  The purity rules are applied again; a truth /
                # membership test that only works for the list kind and an
                # input that is now rejected on every path are reported.
                for mode in ('ashape', 'arr0', 'npint'):
                    v2 = {k_: _other_kind(x_, mode)
                          for k_, x_ in variant.items()}
                    if v2 == variant:
                        continue
                    run2 = an.run(q, vi, d, variant=v2,
                                  extra_key=('kind', mode))
                    n_kind[0] += 1
                    _check_run(rep, fn, run2)
                    for s in run2.I.sites:
                        if s.rule in ('K-truth', 'K-inarr') and \
                                s.status == 'violation':
                            rep.violation('A-kind', s.where, s.construct,
                                          s.detail + ' [%s]' % run2.tag(),
                                          line=getattr(s.node, 'lineno',
                                                       None),
                                          file=s.mod.path if s.mod else None)
                    if run.returns and not run2.returns and run2.I.raises:
                        rep.violation(
                            'A-kind', q, 'accepted kinds of %s' % sorted(
                                k_ for k_ in v2 if v2[k_] != variant[k_]),
                            'the call %s raises %s on every path, while the '
                            'same call with %s returns' % (
                                run2.tag(), sorted({x[1] for x in
                                                    run2.I.raises}),
                                run.tag()), line=fn.node.lineno,
                            file=fn.module.path)
                    else:
                        rep.ok('A-kind', q, 'other argument kinds (%s)'
                               % run2.tag())
    from .. import rules_api as _RA
    _RA.check_memoised(prog, rep, modules=None)
    # hidden state: module-level objects modified by functions, memo wrappers,
    # mutable defaults that are modified, memo tables with an insufficient key
    from .. import rules_state as _RS
    _RS.check_hidden_state(prog, rep, modules=None)
    rep.floor('A-kind', 100, 'calls with the other documented argument kind')
    rep.floor('A-fn', 90, 'public functions analysed')
    rep.floor('A-mut', 60, 'write sites classified')
    rep.floor('A-ret', 90, 'functions whose returns were classified')
    rep.notes.append('functions analysed: %d' % n_funcs)


def _other_kind(x, mode):
    if not isinstance(x, str):
        return x
    if mode == 'ashape':
        return 'ashape' if x == 'shape' else x
    if mode == 'arr0':
        return 'arr0' if (x in ('num', 'abs', 'rel') or
                          x.startswith('num:')) else x
    if mode == 'npint':
        return 'npint:' + x[4:] if x.startswith('int:') else x
    return x


def _check_run(rep, fn, run):
    q = fn.qualname
    rep.ok('A-fn', q, 'analysed')
    I = run.I
    # --- writes
    inplace_cores = set()
    for ef in I.effects:
        params = {param_of(l) for l in ef.labels} - {None}
        if not params:
            continue
        for p in sorted(params):
            kinds_default = any(l[0] == 'D' for l in ef.labels
                                if isinstance(l, tuple))
            allowed = MUT_ALLOWED.get((q, p))
            if allowed and ef.kind in ('dict-write',) :
                rep.ok('A-mut', ef.where, ef.construct,
                       detail='allowed: ' + allowed)
                continue
            if allowed and q.startswith('transformation.orthogonalize_'):
                inpl = run.variant.get('inplace')
                if inpl == ('lit', True) and ef.kind == 'list-write':
                    rep.ok('A-mut', ef.where, ef.construct,
                           detail='allowed: ' + allowed)
                    continue
            rep.violation(
                'A-mut', ef.where, ef.construct,
                'write (%s) to storage that may belong to argument "%s" of '
                'public function %s [%s]; call path %s'
                % (ef.kind, p, q, run.tag(), ' > '.join(ef.stack)),
                line=getattr(ef.node, 'lineno', None),
                file=ef.mod.path if ef.mod else None)
    # every non-labelled write site counts as classified-ok
    for s in I.sites:
        if s.rule == 'A-overwrite':
            pass
    n_eff = 0
    for ef in I.effects:
        n_eff += 1
    # count classified write sites (all store statements seen) via S-store
    for s in I.sites:
        if s.rule in ('S-store', 'S-slot'):
            key = ('A-mut', s.where, s.construct)
            if key not in rep.obls:
                rep.ok('A-mut', s.where, s.construct, detail='fresh target')
    # --- returns
    bad = False
    rnodes = list(run.return_nodes) + [None] * len(run.returns)
    for rv, rnode in zip(run.returns, rnodes):
        if q == 'core.core_stab' and rnode is not None:
            # the pass-through is documented for the below-threshold branch
            from .. import paths as _paths
            gs = _paths.guards_of(fn.node, rnode)
            under_thr = any(pol and any(isinstance(x, ast.Name) and
                                        x.id == 'thr' for x in ast.walk(t))
                            for t, pol in gs)
            if not under_thr:
                for path, l in returned_labels(rv):
                    if param_of(l) is not None:
                        bad = True
                        rep.violation(
                            'A-ret', q, 'return value may share storage with '
                            'argument "%s" outside the below-threshold branch'
                            % param_of(l),
                            'core_stab may hand back its argument only when '
                            'the largest modulus is below the threshold; this '
                            'return path (%s) aliases it otherwise'
                            % run.tag(), line=rnode.lineno,
                            file=fn.module.path)
            continue
        for path, l in returned_labels(rv):
            p = param_of(l)
            if p is None:
                continue
            if isinstance(l, tuple) and l[0] == 'D':
                continue
            if q in RET_ALLOWED:
                continue
            if (q, p) in MUT_ALLOWED and \
                    q.startswith('transformation.orthogonalize_') and \
                    run.variant.get('inplace') == ('lit', True):
                continue
            bad = True
            rep.violation(
                'A-ret', q, 'return value %s may share storage with '
                'argument "%s"' % (path.split('[')[0], p),
                '%s of %s aliases argument %s (label %r)'
                % (path, run.tag(), p, l),
                line=fn.node.lineno, file=fn.module.path)
    if not bad:
        rep.ok('A-ret', q, 'returns classified',
               detail=RET_ALLOWED.get(q, ''))
    # --- in-place footprint
    if q in ('transformation.orthogonalize_left',
             'transformation.orthogonalize_right') and \
            run.variant.get('inplace') == ('lit', True):
        # which positions of the ARGUMENT list hold another object after the
        # call (decided on the abstract heap of a fresh run, however the
        # stores are spelt: two subscript stores or one slice store)
        from .. import interp as _interp
        from .. import specs as _specs
        I2 = _interp.Interp(run.I.prog, {
            'split': dict(_specs.DEFAULT_SPLIT),
            'summary': dict(_specs.DEFAULT_SUMMARY)})
        a2 = _specs.build_args(run.variant, run.d)
        before = list(a2['Y'].items)
        I2.run_function(fn, a2)
        after = a2['Y'].items
        changed = None if after is None or len(after) != len(before) else \
            [k for k in range(len(before)) if after[k] is not before[k]]
        good = changed is not None and len(changed) == 2 and \
            changed[1] == changed[0] + 1
        rep.add('A-inplace', q, 'in-place: cores %s of the argument are '
                'replaced (%s)' % (changed, run.tag()),
                'ok' if good else ('unknown' if changed is None
                                   else 'violation'),
                '' if good else 'expected exactly two adjacent cores of the '
                'argument to be replaced, found %s' % (changed,),
                line=fn.node.lineno, file=fn.module.path)
    if q in ('transformation.orthogonalize_left',
             'transformation.orthogonalize_right') and \
            run.variant.get('inplace') != ('lit', True):
        pass
