"""C08 — maxvol (narrow structural clauses)."""
import ast

from .. import model, paths, specs, interp
from .common import decided_split, pre, S_RULES
from ..poly import Poly, same
from ..values import ARR, INT, FLOAT

def _accepted_den(prog, fn, node):
    """Denominator  1 + v[i]  with  v = B.dot(B[i])  (same i): v[i] is the
    squared Euclidean norm of row i, so the denominator is >= 1.  Recognised
    by shape and dataflow, not by variable names."""
    den = node.right if isinstance(node, ast.BinOp) else \
        getattr(node, 'value', None)
    if not (isinstance(den, ast.BinOp) and isinstance(den.op, ast.Add)):
        return None
    one, sq = den.left, den.right
    if not (isinstance(one, ast.Constant) and one.value == 1):
        one, sq = sq, one
    if not (isinstance(one, ast.Constant) and one.value == 1 and
            isinstance(sq, ast.Subscript) and
            isinstance(sq.value, ast.Name) and
            isinstance(sq.slice, ast.Name)):
        return None
    vname, iname = sq.value.id, sq.slice.id
    for n2 in ast.walk(fn.node):
        if isinstance(n2, ast.Assign) and \
                isinstance(n2.targets[0], ast.Name) and \
                n2.targets[0].id == vname and \
                isinstance(n2.value, ast.Call) and \
                isinstance(n2.value.func, ast.Attribute) and \
                n2.value.func.attr == 'dot' and \
                isinstance(n2.value.func.value, ast.Name) and \
                len(n2.value.args) == 1:
            a0 = n2.value.args[0]
            if isinstance(a0, ast.Subscript) and \
                    isinstance(a0.value, ast.Name) and \
                    a0.value.id == n2.value.func.value.id and \
                    isinstance(a0.slice, ast.Name) and a0.slice.id == iname:
                return ('the subscripted vector is M.dot(M[i]) and is read at '
                        'the same i: a squared Euclidean norm, so the '
                        'denominator is >= 1')
    return None


def _pair(prog, rep, name, shape_ok_args, **kw):
    pass


def check(an, rep, tier):
    prog = an.prog
    rep.explanation = decided_split(
        'P-domain maxvol rejects wide / square input (n <= r) before any '
        'factorisation and accepts tall input; maxvol_rect rejects '
        'inconsistent dr_min / dr_max (abstract execution with literal '
        'shapes); _maxvol clamps dr_max, dr_min first and dispatches '
        'exhaustively; S-summary each of maxvol, maxvol_rect, _maxvol returns '
        '(I: int [k], B: [n, k]) with one and the same k (this validates the '
        'summary axiom used by the TT-cross checks); S-* LU / triangular '
        'solves, rank-one update, column growth and the identity rows '
        'B[I] = eye are dimension consistent; P-pair in maxvol_rect every '
        'selected row is masked (S[i] = 0) before F is re-masked by S in the '
        'same iteration, and the start mask covers the maxvol rows; G-div the '
        'pivot division of maxvol is behind the |B[i,j]| <= e break and the '
        'Sherman-Morrison factor divides by 1 + squared norm.',
        'A = B A[I], max|B| <= e, the row-norm bound, distinctness of the '
        'selected rows as a numerical fact.')
    rep.assumptions = pre('PRE-DOC')
    rep.trusted = ['NumPy / SciPy model (lu, solve_triangular)',
                   'accepted-denominator table']
    o = {'split': dict(specs.DEFAULT_SPLIT)}          # no summary here
    n, r = Poly.sym('n'), Poly.sym('r')
    wh = {'maxvol.maxvol', 'maxvol.maxvol_rect', 'utils._maxvol'}
    # --- symbolic runs: shapes and the summary axiom
    cases = [('maxvol.maxvol', {}),
             ('maxvol.maxvol_rect', {}),
             ('maxvol.maxvol_rect', {'dr_min': INT(Poly.sym('dr1')),
                                     'dr_max': INT(Poly.sym('dr2'))}),
             ('utils._maxvol', {}),
             ('utils._maxvol', {'dr_min': INT(1), 'dr_max': INT(1)})]
    for q, extra in cases:
        I = interp.Interp(prog, dict(o))
        args = {'A': ARR((n, r), 'f')}
        args.update(extra)
        I.run_function(prog.func(q), args)
        for s in I.sites:
            if s.rule in S_RULES + ['G-div', 'U-abs'] and (
                    s.where in wh or s.where.startswith('maxvol.')):
                st = s.status
                det = s.detail
                if s.rule == 'G-div' and st == 'unknown':
                    fn_s = prog.func(s.where) \
                        if s.where.startswith('maxvol.') else None
                    acc = _accepted_den(prog, fn_s, s.node) if fn_s else None
                    if acc:
                        st, det = 'ok', 'accepted: ' + acc
                    else:
                        st, det = 'violation', 'division by a data-derived ' \
                            'value that is not guarded: ' + s.construct
                rep.add(s.rule, s.where, s.construct, st, det,
                        line=s.node.lineno, file=s.mod.path)
        from ..poly import definitely_differ
        for j, rv in enumerate(I.entry_returns):
            st, detail = 'unknown', 'result not typed: %r' % (rv,)
            if rv.k == 'tuple' and rv.items and len(rv.items) == 2:
                Iv, Bv = rv.items
                if Iv.k == 'arr' and Bv.k == 'arr' and Iv.dims is not None \
                        and Bv.dims is not None:
                    if len(Iv.dims) != 1 or len(Bv.dims) != 2 or \
                            Iv.dt not in ('i', None):
                        st, detail = 'violation', 'returned %r; expected ' \
                            '(int [k], [n, k])' % (rv,)
                    elif Iv.dims[0] is None or Bv.dims[1] is None or \
                            Bv.dims[0] is None:
                        pass
                    elif same(Iv.dims[0], Bv.dims[1]) and \
                            same(Bv.dims[0], n):
                        st, detail = 'ok', ''
                    elif definitely_differ(Iv.dims[0], Bv.dims[1]) or \
                            definitely_differ(Bv.dims[0], n):
                        st, detail = 'violation', 'returned %r; the index ' \
                            'vector and the coefficient matrix disagree on ' \
                            'the number of selected rows' % (rv,)
                    else:
                        st, detail = 'unknown', '%r ?= %r' % (Iv.dims[0],
                                                              Bv.dims[1])
            rep.add('S-summary', q, 'return path %d (%s)' % (j, sorted(extra)),
                    st, detail)
    # --- P-domain with literal shapes
    def run_lit(q, nn, rr, **extra):
        I = interp.Interp(prog, dict(o))
        args = {'A': ARR((Poly.const(nn), Poly.const(rr)), 'f')}
        args.update({k: INT(v) for k, v in extra.items()})
        I.run_function(prog.func(q), args)
        from .common import dom3
        return I
    for nn, rr, bad in ((3, 3, True), (2, 3, True), (4, 3, False),
                        (10, 3, False)):
        from .common import dom3
        Ir = run_lit('maxvol.maxvol', nn, rr)
        st3, d3 = dom3(Ir.raises, Ir.entry_returns, bad, 'maxvol.maxvol')
        rep.add('P-domain', 'maxvol.maxvol', '%dx%d input %s'
                % (nn, rr, 'rejected' if bad else 'accepted'), st3,
                '' if st3 == 'ok' else 'a %dx%d matrix is %s' % (nn, rr, d3))
    # documented contract: 0 <= dr_min, r + dr_min <= min(r + dr_max, n)
    # (dr_max None = no upper limit); enumerated over a literal grid
    grid = []
    nn, rr = 10, 3
    for dmin in (-1, 0, 1, 2, 7, 8):
        for dmax in (None, 0, 1, 2, 7, 8):
            rmax = nn if dmax is None else min(rr + dmax, nn)
            bad = dmin < 0 or rr + dmin > rmax
            grid.append((nn, rr, dmin, dmax, bad))
    for nn, rr, dmin, dmax, bad in grid:
        if dmax is None:
            from ..values import NONE
            I_ = interp.Interp(prog, dict(o))
            I_.run_function(prog.func('maxvol.maxvol_rect'),
                            {'A': ARR((Poly.const(nn), Poly.const(rr)), 'f'),
                             'dr_min': INT(dmin), 'dr_max': NONE()})
        else:
            I_ = run_lit('maxvol.maxvol_rect', nn, rr, dr_min=dmin,
                         dr_max=dmax)
        from .common import dom3
        st3, d3 = dom3(I_.raises, I_.entry_returns, bad, 'maxvol.maxvol_rect')
        rep.add('P-domain', 'maxvol.maxvol_rect',
                '%dx%d, dr_min=%d, dr_max=%s %s'
                % (nn, rr, dmin, dmax, 'rejected' if bad else 'accepted'),
                st3, '' if st3 == 'ok' else 'wrong rejection behaviour: ' + d3)
    # --- _maxvol: clamps precede the dispatch, dispatch exhaustive.  Decided
    # on the abstract run with literal shapes and limits: which routine is
    # called, and with which (clamped) limits, is read from the call log.
    def _c(v):
        return v.c if v is not None and v.has_const() else None
    for nn, rr, dmin, dmax in ((3, 3, 0, 0), (2, 3, 1, 1), (5, 2, 0, 0),
                               (5, 2, 1, 2), (5, 2, 4, 5), (5, 2, 2, 1),
                               (4, 3, 0, 5), (6, 2, 0, 3)):
        I_ = interp.Interp(prog, dict(o))
        I_.run_function(prog.func('utils._maxvol'),
                        {'A': ARR((Poly.const(nn), Poly.const(rr)), 'f'),
                         'dr_min': INT(dmin), 'dr_max': INT(dmax)})
        calls = [(q_, a_) for (q_, a_, _), m_ in zip(I_.call_log,
                                                     I_.call_meta)
                 if q_ in ('maxvol.maxvol', 'maxvol.maxvol_rect') and
                 not (m_['caller'] or '').startswith('maxvol.')]
        if nn <= rr:
            want = None
        else:
            cmax = min(dmax, nn - rr)
            cmin = min(dmin, cmax)
            want = ('maxvol.maxvol',) if cmax == 0 else \
                ('maxvol.maxvol_rect', cmin, cmax)
        if want is None:
            got = None if not calls else (calls[0][0],)
        elif not calls:
            got = ()
        else:
            q_, a_ = calls[0]
            got = (q_,) if q_ == 'maxvol.maxvol' else \
                (q_, _c(a_.get('dr_min')), _c(a_.get('dr_max')))
        if got == want and len(calls) <= 1:
            st_, det_ = 'ok', ''
        elif got is not None and None in got:
            st_, det_ = 'unknown', 'limits not constant in the run: %r' % (got,)
        elif I_.raises and not I_.entry_returns:
            st_, det_ = 'violation', 'rejected with %s' % (I_.raises[:1],)
        else:
            st_, det_ = 'violation', 'dispatch %r, expected %r: dr_max is ' \
                'clamped to n - r first, then dr_min to dr_max; n <= r ' \
                'returns the identity selection, dr_max == 0 the square ' \
                'maxvol, anything else maxvol_rect with the clamped limits' \
                % (got, want)
        rep.add('P-dispatch', 'utils._maxvol', '%dx%d, dr_min=%d, dr_max=%d'
                % (nn, rr, dmin, dmax), st_, det_,
                line=prog.func('utils._maxvol').node.lineno,
                file=prog.func('utils._maxvol').module.path)
    # --- P-pair in maxvol_rect
    fn = prog.func('maxvol.maxvol_rect')
    mod = fn.module
    loops = [n for n in ast.walk(fn.node)
             if isinstance(n, (ast.For, ast.While))]
    okp = False
    why = 'loop not found'
    fname = sname = None
    for lp in loops:
        # roles from the dataflow of the loop body:
        #   i = argmax(F)        -> selected row i, residual vector F
        #   F = S * (...)        -> mask S
        #   X[..] = i            -> selection store
        #   S[i] = 0             -> masking store
        iname = None
        lbody = paths.flat(lp.body)
        for st in lbody:
            if isinstance(st, ast.Assign) and \
                    isinstance(st.targets[0], ast.Name) and \
                    isinstance(st.value, ast.Call):
                fv = st.value
                if (prog.dotted(fv.func) or '').endswith('argmax') and \
                        fv.args and isinstance(fv.args[0], ast.Name):
                    iname, fname = st.targets[0].id, fv.args[0].id
                elif isinstance(fv.func, ast.Attribute) and \
                        fv.func.attr == 'argmax' and \
                        isinstance(fv.func.value, ast.Name) and not fv.args:
                    iname, fname = st.targets[0].id, fv.func.value.id
        if iname is None:
            continue
        sel = mask = remask = None
        for i, st in enumerate(lbody):
            if isinstance(st, ast.Assign) and \
                    isinstance(st.targets[0], ast.Name) and \
                    st.targets[0].id == fname and \
                    isinstance(st.value, ast.BinOp) and \
                    isinstance(st.value.op, ast.Mult):
                for opnd in (st.value.left, st.value.right):
                    if isinstance(opnd, ast.Name) and opnd.id != fname:
                        sname, remask = opnd.id, i
        for i, st in enumerate(lbody):
            if isinstance(st, ast.Assign) and \
                    isinstance(st.targets[0], ast.Subscript) and \
                    isinstance(st.targets[0].value, ast.Name):
                nm = st.targets[0].value.id
                if isinstance(st.value, ast.Name) and st.value.id == iname \
                        and nm != sname:
                    sel = i
                if nm == sname and isinstance(st.value, ast.Constant) and \
                        st.value.value == 0 and \
                        isinstance(st.targets[0].slice, ast.Name) and \
                        st.targets[0].slice.id == iname:
                    mask = i
        if remask is None:
            continue
        okp = sel is not None and mask is not None and mask < remask and \
            sel < remask
        why = 'select at stmt %s, mask at %s, re-mask of the residuals at ' \
            '%s' % (sel, mask, remask)
    rep.add('P-pair', 'maxvol.maxvol_rect', 'index[k] = i ; mask[i] = 0 ; '
            '... ; residual = mask * (...)',
            'ok' if okp else ('violation' if why != 'loop not found'
                              else 'unknown'),
            '' if okp else 'a selected row must be masked before the residual '
            'vector is re-masked in the same iteration (otherwise the row can '
            'be selected twice): %s' % why, line=fn.node.lineno, file=mod.path)
    # --- T-downdate: the carried squared row norms follow the update of B.
    # With v = B B_i^T and l = 1 / (1 + v_i) the new rows are
    # [B_j - l v_j B_i , l v_j], whose squared norm is F_j - l v_j**2
    # (polynomial identity; roles found from the dataflow, not from names)
    from ..rules_formula import Rat, rat_eval
    from .. import roles as _roles
    for lp in loops:
        lb_ = paths.flat(lp.body)
        vname = lname = None
        for st in lb_:
            if isinstance(st, ast.Assign) and \
                    isinstance(st.targets[0], ast.Name) and \
                    _roles.matvec(prog, st.value) is not None and \
                    isinstance(_roles.matvec(prog, st.value)[0], ast.Name):
                vname = st.targets[0].id
            if isinstance(st, ast.Assign) and \
                    isinstance(st.targets[0], ast.Name) and vname and \
                    isinstance(st.value, ast.BinOp) and \
                    isinstance(st.value.op, ast.Div) and \
                    any(isinstance(x, ast.Subscript) and
                        isinstance(x.value, ast.Name) and x.value.id == vname
                        for x in ast.walk(st.value.right)):
                lname = st.targets[0].id
        if not (vname and lname and fname and sname):
            continue
        for st in lb_:
            if isinstance(st, ast.Assign) and \
                    isinstance(st.targets[0], ast.Name) and \
                    st.targets[0].id == fname and \
                    isinstance(st.value, ast.BinOp) and \
                    isinstance(st.value.op, ast.Mult):
                other = st.value.right if (
                    isinstance(st.value.left, ast.Name) and
                    st.value.left.id == sname) else st.value.left
                try:
                    got = rat_eval(other, {})
                except ValueError:
                    rep.unknown('T-downdate', 'maxvol.maxvol_rect',
                                'carried row norms', 'expression outside the '
                                'supported fragment')
                    continue
                F_, l_, v_ = (Rat(Poly.sym(x)) for x in (fname, lname, vname))
                want = F_ - l_ * v_ * v_
                ok_ = got.eq(want)
                rep.add('T-downdate', 'maxvol.maxvol_rect', 'carried squared '
                        'row norms:  F - l * v**2', 'ok' if ok_ else 'violation',
                        '' if ok_ else 'the carried squared row norms are '
                        'updated to %r; adding the row with l = 1 / (1 + v_i) '
                        'changes them to F - l * v**2, so the stop test no '
                        'longer sees the true row norms' % (got.reduced(),),
                        line=st.lineno, file=mod.path)
    # row-norm stop criterion uses the accuracy parameter of maxvol_rect
    okt = False
    stop_found = False
    other_par_found = False
    for lp in loops:
        for st in paths.linear(lp.body):
            if isinstance(st, ast.If) and any(isinstance(b, ast.Break)
                                              for b in st.body):
                stop_found = True
                names = [x.id for x in ast.walk(_roles.inline(fn.node,
                                                              st.test))
                         if isinstance(x, ast.Name)]
                e_par = fn.params[1] if len(fn.params) > 1 else 'e'
                other_par = [p_ for p_ in fn.params[2:] if p_ in names and
                             p_ not in ('dr_min', 'dr_max')]
                other_par_found = other_par_found or bool(other_par)
                okt = names.count(e_par) >= 1 and fname in names and \
                    not other_par
    rep.add('P-threshold', 'maxvol.maxvol_rect', 'greedy loop stops on '
            'F[i] <= e*e', 'ok' if okt else (
                'violation' if stop_found and fname and other_par_found
                else 'unknown'),
            '' if okt else 'the early-stop test of the greedy additions must '
            'compare the largest residual row norm with the accuracy '
            'parameter e of maxvol_rect (not with the tolerance of the inner '
            'maxvol)', line=fn.node.lineno, file=mod.path)
    init = False
    init_found = False
    lin_ = paths.linear(fn.node.body)
    for i, st in enumerate(lin_):
        if isinstance(st, ast.Assign) and \
                isinstance(st.targets[0], ast.Subscript) and \
                isinstance(st.targets[0].value, ast.Name) and \
                st.targets[0].value.id == sname and \
                isinstance(st.value, ast.Constant) and st.value.value == 0:
            init_found = True
            # the first later assignment of the residual vector uses the mask
            for nxt in lin_[i + 1:]:
                if isinstance(nxt, (ast.For, ast.While)):
                    break
                if isinstance(nxt, ast.Assign) and \
                        isinstance(nxt.targets[0], ast.Name) and \
                        nxt.targets[0].id == fname:
                    init = sname in {x.id for x in ast.walk(nxt.value)
                                     if isinstance(x, ast.Name)}
                    break
    if not init_found and fname and sname:
        # the mask may be built masked in one go: mask creation not a store
        init_found = False
    # the rows masked at the start are exactly the rows the inner maxvol
    # chose: the index of the initial mask store is the first result of that
    # call, not the (padded) vector of all rows to be returned -- its
    # placeholder entries would mask row 0 as well
    first_res = None
    for st in lin_:
        if isinstance(st, ast.Assign) and isinstance(st.value, ast.Call) and \
                (prog.dotted(st.value.func) or '').split('.')[-1] == \
                'maxvol' and isinstance(st.targets[0], ast.Tuple) and \
                st.targets[0].elts and \
                isinstance(st.targets[0].elts[0], ast.Name):
            first_res = st.targets[0].elts[0].id
    for st in lin_:
        if isinstance(st, ast.Assign) and \
                isinstance(st.targets[0], ast.Subscript) and \
                isinstance(st.targets[0].value, ast.Name) and \
                st.targets[0].value.id == sname and \
                isinstance(st.value, ast.Constant) and \
                st.value.value == 0 and first_res and \
                isinstance(st.targets[0].slice, ast.Name):
            ix = st.targets[0].slice.id
            derived = any(
                isinstance(d_, ast.Assign) and
                isinstance(d_.targets[0], ast.Name) and
                d_.targets[0].id == ix and
                any(isinstance(x_, ast.Name) and x_.id == first_res
                    for x_ in ast.walk(d_.value)) and
                any(isinstance(x_, ast.Call) and
                    (prog.dotted(x_.func) or '').split('.')[-1] in
                    ('hstack', 'concatenate', 'zeros', 'append', 'pad', 'r_')
                    for x_ in ast.walk(d_.value))
                for d_ in lin_)
            if ix == first_res:
                rep.ok('P-pair', 'maxvol.maxvol_rect', 'the initial mask '
                       'covers the rows chosen by maxvol (%s)' % ix)
            elif derived:
                rep.violation(
                    'P-pair', 'maxvol.maxvol_rect', paths.src(mod, st),
                    'the initial mask is indexed with %s, the padded vector '
                    'built from the chosen rows %s: its placeholder entries '
                    'mask a row that was never chosen (row 0), which can '
                    'then neither be added nor be seen by the stop test'
                    % (ix, first_res), line=st.lineno, file=mod.path)
    rep.add('P-pair', 'maxvol.maxvol_rect', 'S[I0] = 0 before the first '
            'F = S * ...', 'ok' if init else (
                'violation' if (init_found or (fname and sname)) else
                'unknown'),
            '' if init else 'the rows chosen by maxvol are not masked before '
            'the greedy additions start')
    from .. import rules_proto as _RPZ
    _RPZ.check_none_vs_zero(prog, rep, modules={'maxvol'})
    # --- P-converged: the swap loop of maxvol is left before its iteration
    # limit only when the largest modulus of B is within the accuracy e (any
    # other way out -- an extra disjunct in the stop test, a second break --
    # returns a B with max|B| > e although the limit was not hit)
    fmv = prog.func('maxvol.maxvol')
    e_par = fmv.params[1] if len(fmv.params) > 1 else 'e'
    from .. import rules_proto as _RPc

    def _atom(t):
        if isinstance(t, ast.Compare) and len(t.ops) == 1:
            l, op, r = t.left, t.ops[0], t.comparators[0]
            if isinstance(op, (ast.LtE, ast.Lt)) and \
                    isinstance(r, ast.Name) and r.id == e_par:
                return ('T', True)
            if isinstance(op, (ast.GtE, ast.Gt)) and \
                    isinstance(l, ast.Name) and l.id == e_par:
                return ('T', True)
            if isinstance(op, (ast.Gt,)) and \
                    isinstance(r, ast.Name) and r.id == e_par:
                return ('T', False)
            if isinstance(op, (ast.Lt,)) and \
                    isinstance(l, ast.Name) and l.id == e_par:
                return ('T', False)
        return None
    for loop in [n_ for n_ in ast.walk(fmv.node)
                 if isinstance(n_, (ast.For, ast.While))]:
        for b in [n_ for n_ in ast.walk(loop)
                  if isinstance(n_, (ast.Break, ast.Return))]:
            gs = _RPc.norm_guards(prog, fmv, b)
            ent = paths.entails(gs, _atom, lambda a: a['T'])
            rep.add('P-converged', 'maxvol.maxvol', 'the swap loop is left '
                    'early only with max|B| <= %s (line %d)'
                    % (e_par, b.lineno),
                    'ok' if ent is True else ('violation' if ent is False
                                              else 'unknown'),
                    '' if ent is True else 'this way out of the swap loop '
                    'does not imply |B[i, j]| <= %s for the entry of largest '
                    'modulus (guards: %s): the returned B can exceed the '
                    'accuracy although the iteration limit was not hit'
                    % (e_par, '; '.join('%s is %s' % (paths.src(mod, t), p)
                                        for t, p in gs) or 'none'),
                    line=b.lineno, file=fmv.module.path)
    rep.floor('P-converged', 1, 'stop test of the swap loop')
    rep.floor('S-summary', 1, 'summary conformance (maxvol)')
    rep.floor('P-domain', 9, 'rejections')
    rep.floor('P-pair', 2, 'select / mask pairing')
    rep.floor('T-downdate', 1, 'row-norm downdate')
    rep.floor('G-div', 2, 'guarded divisions')
    rep.floor('P-dispatch', 8, 'clamp-then-dispatch grid')
    rep.floor('S-solve', 2, 'triangular solves')
