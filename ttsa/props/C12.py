"""C12 — Chebyshev interpolation (structural clauses)."""
import ast

from .. import model, rules_api, paths, specs
from .common import sweep, check_tt_returns, decided_split, pre, S_RULES, \
    modes_from
from ..poly import Poly

FUNCS = ['func.func_basis', 'func.func_get', 'func.func_gets', 'func.func_int',
         'func.func_int_general', 'func.func_sum', 'func.func_diff_matrix',
         'func.func_diff_matrix_apply',
         'func_full.func_get_full', 'func_full.func_gets_full',
         'func_full.func_int_full', 'func_full.func_sum_full']


def _two_sided(prog, rep, qual):
    """outside-the-box test has both the a - x and the x - b side and leaves
    the fill value in place (continue).  The operands are identified by the
    PARAMETER they derive from (points = first parameter, bounds = the
    parameters a and b), not by the local names."""
    from .. import roles
    fn = prog.func(qual)
    mod = fn.module
    org = roles.origins(fn.node, fn.all_params)
    pts = fn.params[0]

    def role(e):
        o = set()
        for n in ast.walk(e):
            if isinstance(n, ast.Name):
                o |= org.get(n.id, set())
        o &= {pts, 'a', 'b'}
        return o
    found = False
    for node in ast.walk(fn.node):
        if isinstance(node, ast.If):
            sides = set()
            tests = [node.test]
            # nested form:  if skip_out: if <cond>: continue
            skips = any(isinstance(s, ast.Continue) for s in node.body)
            if not skips:
                continue
            cur = getattr(node, '_parent', None)
            while isinstance(cur, ast.If) and len(cur.body) == 1:
                tests.append(cur.test)
                cur = getattr(cur, '_parent', None)
            for tst in tests:
                for x in ast.walk(roles.inline(fn.node, tst)):
                    if isinstance(x, ast.BinOp) and isinstance(x.op, ast.Sub):
                        lo_, ro_ = role(x.left), role(x.right)
                        if lo_ == {'a'} and ro_ == {pts}:
                            sides.add('low')
                        if lo_ == {pts} and ro_ == {'b'}:
                            sides.add('high')
                    if isinstance(x, ast.Compare) and len(x.ops) == 1:
                        # direct comparisons:  x < a  /  x > b
                        l_, r_ = role(x.left), role(x.comparators[0])
                        op_ = type(x.ops[0])
                        if (l_, r_) == ({pts}, {'a'}) and op_ in (ast.Lt,
                                                                  ast.LtE):
                            sides.add('low')
                        if (l_, r_) == ({'a'}, {pts}) and op_ in (ast.Gt,
                                                                  ast.GtE):
                            sides.add('low')
                        if (l_, r_) == ({pts}, {'b'}) and op_ in (ast.Gt,
                                                                  ast.GtE):
                            sides.add('high')
                        if (l_, r_) == ({'b'}, {pts}) and op_ in (ast.Lt,
                                                                  ast.LtE):
                            sides.add('high')
            on_points = any(pts in org.get(n.id, ())
                            for tst in tests for n in ast.walk(tst)
                            if isinstance(n, ast.Name))
            if sides or on_points:
                found = True
                ok = sides == {'low', 'high'}
                # exactly one side found is the violation (the one-sided
                # box test); a test on the points whose sides are not
                # visible here (a predicate helper) is not decided
                rep.add('P-two-sided', qual, paths.src(mod, node.test),
                        'ok' if ok else ('violation' if sides
                                         else 'unknown'),
                        '' if ok else 'the outside-the-box test must cover '
                        'both a - x and x - b and skip the point (sides '
                        'found: %s)' % sorted(sides),
                        line=node.lineno, file=mod.path)
    if not found:
        rep.unknown('P-two-sided', qual, 'outside-the-box test',
                    'no test of the form max(a - x) > eps or max(x - b) > '
                    'eps that skips the point was found in this function',
                    line=fn.node.lineno, file=mod.path)


def _raises(prog, rep, qual, what, pred):
    """A documented rejection: some ``raise`` of the function is dominated by
    the documented condition.  Found -> ok; the function (and the teneva
    helpers it calls) raises nothing at all -> violation; a raise whose guard
    is not recognised -> unknown."""
    fn = prog.func(qual)
    mod = fn.module
    n_raise = 0
    for node in ast.walk(fn.node):
        if isinstance(node, ast.Raise):
            n_raise += 1
            gs = paths.guards_of(fn.node, node)
            if pred(mod, fn, node, gs):
                rep.ok('P-domain', qual, what)
                return
    if n_raise == 0:
        rep.violation('P-domain', qual, what,
                      'the documented rejection is missing: the function '
                      'raises nothing', line=fn.node.lineno, file=mod.path)
    else:
        rep.unknown('P-domain', qual, what, 'the function raises, but not '
                    'under a recognised form of the documented condition',
                    line=fn.node.lineno, file=mod.path)


def check(an, rep, tier):
    prog = an.prog
    rep.explanation = decided_split(
        'X1/X3 every NumPy/SciPy/opt_einsum call of func.py, func_full.py and '
        'grid.py binds against the installed signatures; S-* the basis '
        'recurrence, coefficient contractions, DCT axis, even-coefficient '
        'slices of func_sum, the dense siblings and func_int_general are '
        'dimension consistent for symbolic sizes (n_k >= 2); S-ret '
        'func_int / func_gets / func_int_general return well-formed tensors '
        'with the expected mode sizes; P-two-sided the outside-the-box test '
        'of func_get / func_get_full has both sides and keeps the fill value; '
        'P-domain func_sum_full rejects asymmetric boxes before integrating, '
        'func_basis / func_diff_matrix reject unknown kinds; F (thorough) the '
        'three copies of the Chebyshev recurrence and the Clenshaw-Curtis '
        'weights agree between siblings.',
        'exactness on the polynomial class, the differentiation-matrix '
        'recursion, least-squares fitting accuracy.')
    rep.assumptions = pre('PRE-TT', 'PRE-D', 'PRE-N2', 'PRE-DOC')
    rep.trusted = ['installed numpy / scipy signatures (inspect.signature)',
                   'NumPy model']
    # X rules on the three modules
    wh = {f.qualname for f in prog.all_functions()
          if f.module.name in ('func', 'func_full', 'grid')}
    rules_api.check_calls(prog, rep, wheres=wh)
    for fn, n in rules_api.undefined_names(prog, rep, wheres=wh):
        rep.violation('X2-name', fn.qualname, n.id,
                      'name %s is not defined on this path' % n.id,
                      line=n.lineno, file=fn.module.path)
    ds = (2, 3) if tier == 'quick' else (2, 3, 4, 5)
    lb = {}
    for k in range(5):
        for p in ('A.n', 'Y.n', 'n', 'X.n'):
            lb['%s%d' % (p, k)] = 2
    lb.update({'nb': 2, 'mnew': 2})
    swh = set(FUNCS) | {'func.func_get.gen_def_func', 'grid.poi_scale',
                        'grid.ind_to_poi', 'grid.grid_prep_opts',
                        'grid.grid_prep_opt', 'grid.grid_flat',
                        'func.func_get.gen_def_func.<lambda>'}
    runs = sweep(an, rep, FUNCS, ds, wheres=swh, opts={'lower_bounds': lb})
    sel = {'func.func_int': modes_from('Y.n'),
           'func.func_int_general': modes_from('n'),
           'func.func_gets': None}
    for r in runs:
        if r.qualname in ('func.func_int', 'func.func_int_general'):
            check_tt_returns(rep, [r], sel[r.qualname])
        elif r.qualname == 'func.func_gets':
            m = r.variant.get('m')
            if m is None:
                check_tt_returns(rep, [r], modes_from('A.n'))
            else:
                check_tt_returns(
                    rep, [r], lambda run: [Poly.sym('mnew')] * run.d)
    # --- P-grid-size: wherever a full index range arange(k) is mapped to grid
    # nodes, the grid that is asked for has exactly k nodes (re-sampling on a
    # new grid of m nodes evaluates at the nodes of THAT grid)
    from .common import cmp3 as _cmp3g
    for r in runs:
        if r.qualname not in ('func.func_gets', 'func_full.func_gets_full'):
            continue
        for (q_, a_, _res), meta_ in zip(r.I.call_log, r.I.call_meta):
            if q_ != 'grid.ind_to_poi' or not isinstance(a_, dict):
                continue
            if not (meta_.get('caller') or '').startswith(
                    r.qualname.split('.')[0] + '.'):
                continue
            Iv, nv = a_.get('I'), a_.get('n')
            if Iv is None or nv is None or Iv.k != 'arr' or \
                    Iv.dims is None or not Iv.dims or nv.k != 'int' or \
                    Iv.idx not in ('arange',):
                continue
            st_g = _cmp3g(nv.p, Iv.dims[0]) if nv.p is not None else 'unknown'
            rep.add('P-grid-size', r.qualname, 'nodes for the index range '
                    'arange(%r) are taken from a grid of that many nodes (%s)'
                    % (Iv.dims[0], r.tag()), st_g,
                    '' if st_g == 'ok' else 'the full index range of %r '
                    'values is mapped to the nodes of a grid with %r nodes'
                    % (Iv.dims[0], nv.p))
    # --- F-percore: with per-core points (2-D X) the basis callback is asked
    # once per core (a basis matrix that is built for the first core and then
    # re-used fits the other cores against the wrong points); counted in the
    # abstract run, d is concrete
    for r in runs:
        if r.qualname != 'func.func_int_general':
            continue
        percore = r.variant.get('X') == 'f[d,nx]'
        n_cb = len(r.I.cb_calls)
        want = r.d if percore else 1
        rep.add('F-percore', r.qualname, 'basis callback asked %d time(s) '
                'for %s' % (n_cb, r.tag()),
                'ok' if n_cb >= want else 'violation',
                '' if n_cb >= want else 'with one row of points per core the '
                'basis must be evaluated for every core (%d), it is evaluated '
                '%d time(s): the later cores are fitted against the points of '
                'the first one' % (want, n_cb),
                line=prog.func(r.qualname).node.lineno,
                file=prog.func(r.qualname).module.path)
    from ..poly import same as _same, definitely_differ as _dd
    for r in runs:
        q_ = r.qualname
        exp = None
        if q_ == 'func_full.func_int_full':
            exp = [Poly.sym('Y.n%d' % k) for k in range(r.d)]
        elif q_ == 'func_full.func_gets_full':
            exp = [Poly.sym('mnew')] * r.d if 'm' in r.variant else \
                [Poly.sym('A.n%d' % k) for k in range(r.d)]
        elif q_ == 'func_full.func_get_full':
            exp = [Poly.sym('m')]
        if exp is not None:
            rv = r.result
            ok = rv.k == 'arr' and rv.dims is not None and \
                len(rv.dims) == len(exp) and all(
                    x is not None and _same(x, e) for x, e in zip(rv.dims, exp))
            bad = rv.k == 'arr' and rv.dims is not None and (
                len(rv.dims) != len(exp) or any(
                    x is not None and _dd(x, e) for x, e in zip(rv.dims, exp)))
            rep.add('S-dense', q_, 'result axes for %s' % r.tag(),
                    'ok' if ok else ('violation' if bad else 'unknown'),
                    '' if ok else 'returned %r, expected axes %s' % (rv, exp))
    from fractions import Fraction
    for r in runs:
        if r.qualname == 'func.func_diff_matrix' and \
                r.variant.get('a') == 'len:L':
            rv = r.result
            if rv.k == 'list' and rv.items is not None:
                for k, D in enumerate(rv.items):
                    deg = (D.deg or {}).get('L') if D.deg is not None else None
                    want = Fraction(-(k + 1))
                    rep.add('U-deg', r.qualname, 'order-%d matrix scales '
                            'with (b-a)**%d' % (k + 1, -(k + 1)),
                            'ok' if deg == want else
                            ('violation' if deg is not None else 'unknown'),
                            '' if deg == want else 'the order-%d '
                            'differentiation matrix is homogeneous of degree '
                            '%s in the box length, expected %s' % (k + 1, deg,
                                                                   want))
    # the integral over a box of side L in every dimension is homogeneous of
    # degree d in L (scalar bounds included)
    for r in runs:
        if r.qualname in ('func.func_sum', 'func_full.func_sum_full') and \
                r.variant.get('a') == 'len:L':
            rv = r.result
            deg = (rv.deg or {}).get('L') if rv.k == 'float' and \
                rv.deg is not None else None
            rep.add('U-deg', r.qualname, 'integral scales with the box '
                    'length to the power d = %d' % r.d,
                    'ok' if deg == r.d else
                    ('violation' if deg is not None else 'unknown'),
                    '' if deg == r.d else 'the integral is homogeneous of '
                    'degree %s in the box length, expected %d (every '
                    'dimension contributes one factor (b - a) / 2)'
                    % (deg, r.d))
    from .. import interp as _interp
    from ..values import INT as _INT
    import re as _re
    seen = {}
    for mm in (2, 3, 5):
        I_ = _interp.Interp(prog, {})
        I_.run_function(prog.func('func.func_basis'),
                        {'X': specs.build('f[m]', 'X', 2), 'm': _INT(mm)})
        seen[mm] = [s for s in I_.sites if s.rule == 'S-store' and
                    s.where == 'func.func_basis' and
                    _re.match(r'^\w+\[1\b', s.construct.replace(' ', ''))]
    if not seen[5]:
        rep.error('func.func_basis: the store of the linear term (row 1 of '
                  'the basis array) was not found for m = 5')
    else:
        for mm in (2, 3):
            rep.add('F-basis-init', 'func.func_basis', 'the linear term '
                    '(row 1) is stored for m = %d' % mm,
                    'ok' if seen[mm] else 'violation',
                    '' if seen[mm] else 'for a basis of size %d the linear '
                    'term T_1 = x is never stored (it is for m = 5): the '
                    'function returns before it' % mm)
    from .. import rules_proto as _RPZ
    _RPZ.check_none_vs_zero(prog, rep, modules={'func', 'func_full'})
    rep.floor('F-basis-init', 2, 'basis initialisation')
    from .. import rules_formula as _RF
    _RF.check_basis_values(prog, rep, 'func.func_basis', 'm', 'X')
    rep.floor('F-basis', 4, 'Chebyshev basis values')
    _two_sided(prog, rep, 'func.func_get')
    _two_sided(prog, rep, 'func_full.func_get_full')

    def asym(mod, fn, node, gs):
        # a holding comparison (possibly inside any(...) / np.any(...)) that
        # involves abs(...) of both box bounds (parameters 2 and 3) at one
        # and the same position, before the data of the tensor is read
        from .. import roles as _roles
        apar, bpar = fn.params[1], fn.params[2]
        org = _roles.origins(fn.node, fn.all_params)

        def both_bounds(t):
            ia, ib = set(), set()
            for x in ast.walk(t):
                if isinstance(x, ast.Name) and isinstance(x.ctx, ast.Load):
                    par_ = getattr(x, '_parent', None)
                    key = ast.dump(par_.slice) if isinstance(
                        par_, ast.Subscript) and par_.value is x else ''
                    o = org.get(x.id, set()) & {apar, bpar}
                    if o == {apar}:
                        ia.add(key)
                    elif o == {bpar}:
                        ib.add(key)
            has_abs = any(isinstance(c, ast.Call) and
                          (getattr(c.func, 'id', None) == 'abs' or
                           getattr(c.func, 'attr', None) in ('abs', 'fabs',
                                                             'absolute'))
                          for c in ast.walk(t))
            return bool(ia & ib) and has_abs
        tens = fn.params[0]
        uses = []
        for n in ast.walk(fn.node):
            if isinstance(n, ast.Name) and n.id == tens and \
                    isinstance(n.ctx, ast.Load):
                par_ = getattr(n, '_parent', None)
                if isinstance(par_, ast.Attribute) and \
                        par_.attr in ('shape', 'ndim', 'dtype'):
                    continue
                if isinstance(par_, ast.Call) and \
                        getattr(par_.func, 'id', None) == 'len':
                    continue
                uses.append(n.lineno)
        first_use = min(uses or [10**9])
        for t, pol in paths.guard_atoms(gs):
            if not pol:
                continue
            t = _roles.inline(fn.node, t)
            for sub_ in ast.walk(t):
                if isinstance(sub_, ast.Compare) and both_bounds(sub_):
                    return node.lineno < first_use
        return False
    _raises(prog, rep, 'func_full.func_sum_full',
            'asymmetric box rejected before integrating', asym)

    def unknown_kind(mod, fn, node, gs):
        return any('kind' in paths.src(mod, t) for t, pol in gs)
    _raises(prog, rep, 'func.func_basis', 'unknown kind rejected', unknown_kind)
    _raises(prog, rep, 'func.func_diff_matrix', 'unknown kind rejected',
            unknown_kind)
    if tier == 'thorough':
        from .. import rules_formula
        rules_formula.check_cheb_siblings(prog, rep)
    from .. import rules_proto as _RP
    _callers = {f.qualname for f in prog.all_functions()
                if f.module.name in ('func', 'func_full')}
    _RP.check_param_forwarding(prog, rep, callers=_callers)
    rep.floor('S-dense', 4, 'dense result axes')
    rep.floor('U-deg', 7, 'differentiation matrix and integral scaling')
    rep.floor('X1-bind', 60, 'external calls bound')
    rep.floor('S-einsum|S-tensordot', 3, 'coefficient contractions')
    rep.floor('S-ret', 8, 'TT results')
    rep.floor('P-two-sided', 2, 'box tests')
    rep.floor('F-percore', 4, 'per-core basis evaluation')
    rep.floor('P-domain', 3, 'rejections')
