"""C04 — orthogonalize (structural clauses)."""
import ast

from .. import specs, rules_ledger as L
from .common import decided_split, pre, S_RULES, modes_from
from ..engine import tt_wellformed, collect
from ..poly import Poly, known_le, same


def check(an, rep, tier):
    prog = an.prog
    rep.explanation = decided_split(
        'O-producer for every pivot k (d = 2,3(,4,5)): the cores left of k are '
        'the reshaped Q of a reduced QR of the left unfolding (orthonormal '
        'columns), the cores right of k the reshaped Q of an economic RQ '
        '(orthonormal rows), the pivot core carries the weights; the '
        'triangular factor is multiplied into the neighbour on the bond it '
        'came from (S-matmul / S-reshape); S-ret the result is well formed '
        'with the input mode sizes and S-bound no bond grows (new bond = '
        'min(carryable size, old bond)); P-domain out-of-range pivots / modes '
        'raise ValueError and in-range ones do not; A-inplace the in-place '
        'variants store exactly the two adjacent cores of the argument and '
        'the default variants none; U-ledger / P-stab-step with use_stab the '
        'returned exponent accounts for every per-step rescaling.',
        'orthonormality to rounding, "entries of moderate magnitude".')
    rep.assumptions = pre('PRE-TT', 'PRE-D', 'PRE-DOC')
    rep.trusted = ['orthogonality axioms of numpy.linalg.qr (reduced) and '
                   'scipy.linalg.rq (economic)']
    ds = (2, 3) if tier == 'quick' else (2, 3, 4, 5)
    wh = {'utils._reshape', 'transformation.orthogonalize', 'transformation.orthogonalize_left',
          'transformation.orthogonalize_right'}
    for d in ds:
        old = [Poly.const(1)] + [Poly.sym('Y.r%d' % k) for k in range(1, d)] \
            + [Poly.const(1)]
        for k in list(range(d)) + [None]:
            v = dict(Y='tt') if k is None else dict(Y='tt', k=('lit', k))
            piv = d - 1 if k is None else k
            r = an.run('transformation.orthogonalize', 0, d, variant=v,
                       extra_key=('piv', k))
            collect(rep, [r], S_RULES + ['O-sign'], wheres=wh)
            for j, rv in enumerate(r.returns):
                st, detail = tt_wellformed(rv, modes_from('Y.n')(r))
                rep.add('S-ret', r.qualname, 'pivot %s at d=%d' % (k, d), st,
                        detail)
                if rv.k != 'list' or not rv.items:
                    continue
                states = [c.orth for c in rv.items]
                want = ['cols3'] * piv + [None] + ['rows3'] * (d - 1 - piv)
                ok = all((s == w) if w else (s not in ('cols3', 'rows3'))
                         for s, w in zip(states, want))
                known_bad = any(
                    (w and s is not None and s != w) or
                    (not w and s in ('cols3', 'rows3')) or
                    (w and s is None and c.note == 'input')
                    for s, w, c in zip(states, want, rv.items))
                untouched = [i for i, (s, w, c) in enumerate(
                    zip(states, want, rv.items))
                    if w and s is None and c.note == 'input']
                rep.add('O-producer', r.qualname, 'core states for pivot %s '
                        'at d=%d' % (k, d), 'ok' if ok else
                        ('violation' if known_bad else 'unknown'),
                        '' if ok else 'core states %s, expected %s (left of '
                        'the pivot orthonormal columns, right of it '
                        'orthonormal rows, the pivot carries the weights)%s'
                        % (states, want, '; core(s) %s are unmodified copies '
                           'of the input cores' % untouched if untouched
                           else ''))
                bonds = [c.dims[2] for c in rv.items[:-1]]
                grow = [i + 1 for i, (b, o) in enumerate(zip(bonds, old[1:-1]))
                        if b is not None and not known_le(b, o)]
                rep.add('S-bound', r.qualname, 'bond sizes for pivot %s at '
                        'd=%d' % (k, d), 'ok' if not grow else 'unknown',
                        '' if not grow else 'bond %s: %s not known <= input'
                        % (grow, [bonds[i - 1] for i in grow]))
        # the same typestates for a tensor whose ranks are all 1 (every
        # unfolding has a single column / row: the step must still normalise
        # it -- a shortcut for "nothing to orthogonalise" leaves the core as
        # it came in)
        for k in list(range(d)):
            v1 = dict(Y='tt1', k=('lit', k))
            r1_ = an.run('transformation.orthogonalize', 0, d, variant=v1,
                         extra_key=('piv1', k))
            for rv in r1_.returns:
                if rv.k != 'list' or not rv.items:
                    continue
                states = [c.orth for c in rv.items]
                want = ['cols3'] * k + [None] + ['rows3'] * (d - 1 - k)
                ok = all((s == w) if w else (s not in ('cols3', 'rows3'))
                         for s, w in zip(states, want))
                untouched = [i for i, (s, w, c) in enumerate(
                    zip(states, want, rv.items))
                    if w and s is None and c.note == 'input']
                known_bad = bool(untouched) or any(
                    (w and s is not None and s != w) or
                    (not w and s in ('cols3', 'rows3'))
                    for s, w in zip(states, want))
                rep.add('O-producer', r1_.qualname, 'core states for pivot '
                        '%d at d=%d, all ranks 1' % (k, d),
                        'ok' if ok else ('violation' if known_bad
                                         else 'unknown'),
                        '' if ok else 'core states %s, expected %s%s'
                        % (states, want, '; core(s) %s are unmodified copies '
                           'of the input cores' % untouched if untouched
                           else ''))
        # P-domain
        for q, bad, good in (
                ('transformation.orthogonalize', [-1, d], list(range(d))),
                ('transformation.orthogonalize_left', [-1, d - 1],
                 list(range(d - 1))),
                ('transformation.orthogonalize_right', [0, d],
                 list(range(1, d)))):
            pname = 'k' if q.endswith('orthogonalize') else 'i'
            for val in bad + good:
                v = {'Y': 'tt', pname: ('lit', val)}
                r = an.run(q, 0, d, variant=v, extra_key=('dom', val))
                any_raise = any(x[0] == q and x[1] == 'ValueError'
                                for x in r.I.raises)
                raised = any_raise and not r.returns
                returned = bool(r.returns)
                if any_raise and returned:
                    # the guard was not decided for this literal: both
                    # continuations were explored
                    rep.unknown('P-domain', q, '%s=%d at d=%d' % (pname, val,
                                                                  d),
                                'the rejection test is not decided by the '
                                'abstract run')
                    continue
                if val in bad:
                    rep.add('P-domain', q, '%s=%d at d=%d is rejected'
                            % (pname, val, d), 'ok' if raised else 'violation',
                            '' if raised else 'an out-of-range %s=%d (d=%d) '
                            'is not rejected with ValueError' % (pname, val, d))
                else:
                    rep.add('P-domain', q, '%s=%d at d=%d is accepted'
                            % (pname, val, d),
                            'ok' if returned and not raised else 'violation',
                            '' if returned else 'a valid %s=%d (d=%d) is '
                            'rejected' % (pname, val, d))
        # a valid pivot / mode handed over as a NumPy integer (a loop variable
        # of np.arange, a result of np.argmax) is a valid pivot
        from ..values import INT as _INT
        from .. import interp as _interp2
        for q, pname, val in (('transformation.orthogonalize', 'k', d - 1),
                              ('transformation.orthogonalize', 'k', 0),
                              ('transformation.orthogonalize_left', 'i', 0),
                              ('transformation.orthogonalize_right', 'i',
                               d - 1)):
            kv = _INT(val)
            kv.note = 'npint'
            a3 = specs.build_args({'Y': 'tt'}, d)
            a3[pname] = kv
            I3 = _interp2.Interp(prog, {
                'split': dict(specs.DEFAULT_SPLIT),
                'summary': dict(specs.DEFAULT_SUMMARY)})
            I3.run_function(prog.func(q), a3)
            from .common import dom3
            st3, d3 = dom3(I3.raises, I3.entry_returns, False)
            rep.add('P-domain', q, '%s=np.int64(%d) at d=%d is accepted'
                    % (pname, val, d), st3,
                    '' if st3 == 'ok' else 'a valid %s given as a NumPy '
                    'integer is %s' % (pname, d3))
        # A-inplace
        for q, i0 in (('transformation.orthogonalize_left', 0),
                      ('transformation.orthogonalize_right', d - 1)):
            for inpl in (True, False):
                v = {'Y': 'tt', 'i': ('lit', i0), 'inplace': ('lit', inpl)}
                r = an.run(q, 0, d, variant=v, extra_key=('inpl', inpl))
                stores = {e.construct.split('=')[0].strip()
                          for e in r.I.effects
                          if e.kind == 'list-write' and e.where == q and
                          any(l == ('P', 'Y') for l in e.labels)}
                arrw = [e for e in r.I.effects if e.kind == 'array-write' and
                        any(isinstance(l, tuple) and l[0] == 'E'
                            for l in e.labels)]
                if inpl:
                    # which positions of the ARGUMENT list hold another object
                    # after the call (decided on the abstract heap, however the
                    # stores are spelt: two subscript stores, one slice store)
                    from .. import interp as _interp
                    I2 = _interp.Interp(prog, {
                        'split': dict(specs.DEFAULT_SPLIT),
                        'summary': dict(specs.DEFAULT_SUMMARY)})
                    a2 = specs.build_args(v, d)
                    before = list(a2['Y'].items)
                    I2.run_function(prog.func(q), a2)
                    after = a2['Y'].items
                    if after is None or len(after) != len(before):
                        changed = None
                    else:
                        changed = sorted(k for k in range(len(before))
                                         if after[k] is not before[k])
                    want = sorted({i0, i0 + 1}) if q.endswith('left') else \
                        sorted({i0 - 1, i0})
                    arrw2 = [e for e in I2.effects
                             if e.kind == 'array-write' and
                             any(isinstance(l, tuple) and l[0] == 'E'
                                 for l in e.labels)]
                    ok = changed == want and not arrw2
                    rep.add('A-inplace', q, 'inplace=True at d=%d replaces '
                            'cores %s' % (d, want),
                            'ok' if ok else ('unknown' if changed is None
                                             else 'violation'),
                            '' if ok else 'expected the two adjacent cores %s '
                            'of the argument to be replaced and no write into '
                            'the caller\'s arrays; replaced %s / %d array '
                            'writes' % (want, changed, len(arrw2)))
                    same_obj = r.result.k == 'list' and \
                        r.result.label == ('P', 'Y')
                    rep.add('A-inplace', q, 'inplace=True returns the '
                            'argument list (d=%d)' % d,
                            'ok' if same_obj else 'unknown')
                else:
                    ok = not stores and not arrw and \
                        r.result.label != ('P', 'Y')
                    rep.add('A-inplace', q, 'inplace=False at d=%d leaves the '
                            'argument alone' % d, 'ok' if ok else 'violation',
                            '' if ok else 'the default variant writes the '
                            'argument (%s) or returns it' % sorted(stores))
        for k in range(d):
            v = dict(Y='tt', k=('lit', k), use_stab=('lit', True))
            r = an.run('transformation.orthogonalize', 0, d, variant=v,
                       extra_key=('stab', k))
            L.check_stab_calls(rep, r, 'transformation.orthogonalize',
                               'pivot %d at d=%d' % (k, d), d - 1)
            for j, rv in enumerate(r.returns):
                L.check_pair(rep, 'transformation.orthogonalize',
                             '(Z, p) for pivot %d at d=%d' % (k, d),
                             rv.items[0], rv.items[1])
    from .. import rules_proto as _RPZ
    _RPZ.check_none_vs_zero(prog, rep, modules={'transformation'})
    rep.floor('O-producer', 5, 'pivot typestates')
    rep.floor('S-ret', 5, 'results')
    rep.floor('P-domain', 20, 'domain checks')
    rep.floor('A-inplace', 6, 'in-place footprints')
    rep.floor('U-ledger', 5, 'stab ledgers')
    rep.floor('S-matmul', 2, 'R pushed into the neighbour')
