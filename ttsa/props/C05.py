"""C05 — TT-cross low-rank reproduction / cache transparency (structural)."""
import ast

from .. import model, paths, specs, rules_proto as P
from .common import decided_split, pre, S_RULES
from ..engine import collect, tt_wellformed
from ..poly import Poly


def check(an, rep, tier):
    prog = an.prog
    rep.explanation = decided_split(
        'S-* every fold of the pending factor (after the pre-iterations, '
        'after each half-sweep, on interruption), the QR / maxvol interface '
        'of _iter, the request assembly (widths i + 1 + (d-i-1) = d) and the '
        'answer fold are dimension consistent for d = 2,3 with independent '
        'rank symbols per maxvol call, and S-ret every return path is a '
        'well-formed tensor of the original mode sizes (a dropped or '
        'mis-sided fold breaks the bond chain); P-fresh-info at the end of a '
        'sweep and on interruption info r / e / e_vld are recomputed from '
        'the returned tensor after its last core store, e against a copy '
        'taken at the head of the sweep; P-cache-uses the cache argument '
        'reaches only the request wrapper, info["with_cache"] and the '
        'callback options; P-cache-value cached and uncached branches return '
        'float arrays enumerating the batch in its own order, cache entries '
        'pair index k with value k, only unseen indices are evaluated; the '
        '"conv" stop fires only under its documented condition.',
        'that maxvol / QR interpolation reproduces a rank-rho tensor, '
        'genericity, bit-level equality of cached and uncached runs, the '
        'Kronecker order of the index assembly (killed by the existing '
        'accuracy tests, not re-checked here).')
    rep.assumptions = pre('PRE-TT', 'PRE-D', 'PRE-DOC', 'PRE-IDX')
    rep.trusted = ['summary axiom of utils._maxvol (validated by C08)',
                   'NumPy model']
    ds = (2, 3) if tier == 'quick' else (2, 3, 4, 5)
    wh = {'cross.cross', 'cross._iter', 'cross._func', 'cross._func_eval'}
    vs = specs.variants('cross.cross')
    for vi in range(len(vs)):
        for d in ds:
            run = an.run('cross.cross', vi, d)
            collect(rep, [run], S_RULES, wheres=wh)
            modes = [Poly.sym('Y0.n%d' % k) for k in range(d)]
            for j, rv in enumerate(run.returns):
                st, detail = tt_wellformed(rv, modes)
                rep.add('S-ret', 'cross.cross', 'return path %d of %s'
                        % (j, run.tag()), st, detail)
    P.check_interrupt(prog, rep)
    wl = P.check_sweep_epilogue(prog, rep, 'cross.cross')
    fn = prog.func('cross.cross')
    mod = fn.module
    # --- P-fresh-info at the end of the sweep
    # the result tensor = the plain name returned by the function; the
    # reference copy = the name bound to copy(<result>) at the head of the sweep
    rets_ = [n.value.id for n in ast.walk(fn.node)
             if isinstance(n, ast.Return) and isinstance(n.value, ast.Name)]
    res_name = max(set(rets_), key=rets_.count) if rets_ else None
    old_name = None
    if wl is not None:
        for st in wl.body:
            if isinstance(st, ast.Assign) and \
                    isinstance(st.targets[0], ast.Name) and \
                    isinstance(st.value, ast.Call) and \
                    (prog.dotted(st.value.func) or '').endswith('copy') and \
                    st.value.args and \
                    isinstance(st.value.args[0], ast.Name) and \
                    st.value.args[0].id == res_name:
                old_name = st.targets[0].id
    if wl is not None:
        last_store = None
        keys = {}
        conditional = set()
        for i, st in enumerate(wl.body):
            for t, v in paths.stores_in(st):
                if isinstance(t, ast.Subscript) and \
                        isinstance(t.value, ast.Name) and \
                        t.value.id == res_name:
                    last_store = i
                sk = paths.subscript_key(t)
                if sk and sk[0] == 'info' and sk[1] in ('r', 'e', 'e_vld'):
                    uses_y = any(isinstance(x, ast.Name) and x.id == res_name
                                 for x in ast.walk(v))
                    keys[sk[1]] = (i, uses_y, v)
            # a refresh nested under a test of the sweep body (not inside a
            # half-sweep loop) happens only sometimes: the value is stale on
            # the other path
            if isinstance(st, ast.If):
                for sub_ in ast.walk(st):
                    for t, v in paths.stores_in(sub_):
                        sk = paths.subscript_key(t)
                        if sk and sk[0] == 'info' and \
                                sk[1] in ('r', 'e', 'e_vld') and \
                                not any(isinstance(x, ast.Return)
                                        for x in ast.walk(st)):
                            conditional.add(sk[1])
        ok = last_store is not None and set(keys) == {'r', 'e', 'e_vld'} and \
            all(i > last_store and u for i, u, _ in keys.values())
        e_expr = keys.get('e', (0, 0, None))[2]
        yold_ok = e_expr is not None and any(
            isinstance(x, ast.Name) and x.id == old_name and old_name
            for x in ast.walk(e_expr))
        # a key that IS stored in the sweep body, but before the last core
        # store / not from the returned tensor / not against the head copy, is
        # stale (violation); keys refreshed elsewhere (a helper) are not
        # decided here
        stale = last_store is not None and any(
            (i <= last_store or not u) for i, u, _ in keys.values())
        if e_expr is not None and not yold_ok:
            stale = True
        if conditional:
            stale = True
        rep.add('P-fresh-info', 'cross.cross', 'end of sweep: info r / e / '
                'e_vld from the final Y', 'ok' if ok and yold_ok else
                ('violation' if stale else 'unknown'),
                '' if ok and yold_ok else 'the reported rank / '
                'convergence / validation values are not recomputed from the '
                'returned tensor after its last core store (or e is not '
                'taken against the copy from the head of the sweep)',
                line=wl.lineno, file=mod.path)
    # --- P-cache-uses
    allowed = 0
    bad = []
    other_uses = False
    for node in ast.walk(fn.node):
        if isinstance(node, ast.Name) and node.id == 'cache' and \
                isinstance(node.ctx, ast.Load):
            par = getattr(node, '_parent', None)
            ok = False
            if isinstance(par, ast.Call) and node in par.args and \
                    isinstance(par.func, ast.BoolOp):
                ok = True           # (func or _func)(..., info, cache)
            elif isinstance(par, ast.Compare) and \
                    isinstance(par.ops[0], ast.IsNot):
                gp = getattr(par, '_parent', None)
                ok = isinstance(gp, ast.Dict)      # 'with_cache': cache is not None
            elif isinstance(par, ast.Dict):
                ok = True           # opts = {..., 'cache': cache}
            # known-bad uses: the dictionary is read / written / queried by the
            # driver itself (outside the request wrapper)
            direct = isinstance(par, ast.Subscript) or \
                (isinstance(par, ast.Attribute) and
                 isinstance(getattr(par, '_parent', None), ast.Call)) or \
                (isinstance(par, ast.Compare) and
                 isinstance(par.ops[0], (ast.In, ast.NotIn)))
            if ok:
                allowed += 1
            elif direct:
                bad.append(node.lineno)
            else:
                other_uses = True
    rep.add('P-cache-uses', 'cross.cross', '%d uses of the cache argument'
            % allowed, 'ok' if not bad and allowed >= 3 and not other_uses
            else ('violation' if bad else 'unknown'),
            '' if not bad else 'the cache influences something besides the '
            'request wrapper / with_cache / callback options (lines %s)' % bad,
            line=fn.node.lineno, file=mod.path)
    # --- the convergence value is the distance of the RETURNED tensor to the
    # previous one relative to the previous one: accuracy(<result>, <copy from
    # the head of the sweep>) in this order, at every place that stores it
    if res_name and old_name:
        for node in ast.walk(fn.node):
            if not (isinstance(node, ast.Assign) and
                    isinstance(node.value, ast.Call) and
                    len(node.value.args) >= 2 and
                    all(isinstance(a_, ast.Name)
                        for a_ in node.value.args[:2])):
                continue
            sk = paths.subscript_key(node.targets[0])
            if not (sk and sk[0] == 'info' and sk[1] == 'e'):
                continue
            a0, a1 = node.value.args[0].id, node.value.args[1].id
            if {a0, a1} != {res_name, old_name}:
                continue
            good = (a0, a1) == (res_name, old_name)
            rep.add('P-fresh-info', 'cross.cross', 'info["e"] = distance of '
                    'the result to the previous tensor, relative to the '
                    'previous one (line %d)' % node.lineno,
                    'ok' if good else 'violation',
                    '' if good else 'the two tensors are handed to the '
                    'relative distance in the other order: the value is '
                    'divided by the norm of the new tensor, not of the '
                    'previous one', line=node.lineno, file=mod.path)
    # --- P-cache-value
    fe = prog.func('cross._func_eval')
    P._LEN_CTX[0] = fe.node

    def _len_origin(e):
        return P.len_origin(e)
    rets = [n for n in ast.walk(fe.node) if isinstance(n, ast.Return) and
            n.value is not None and not (isinstance(n.value, ast.Constant)
                                         and n.value.value is None)]
    good = 0
    wrong_order = None
    for r in rets:
        v = r.value
        # (the float64 kind of the result is decided by S-kind below on the
        # abstract run; here only WHAT is enumerated, in which order)
        while isinstance(v, ast.Call) and \
                isinstance(v.func, ast.Attribute) and \
                v.func.attr in ('copy', 'astype') and \
                isinstance(v.func.value, ast.Call):
            v = v.func.value
        if isinstance(v, ast.Call) and (prog.dotted(v.func) or '').split(
                '.')[-1] in ('array', 'asarray', 'asanyarray',
                             'ascontiguousarray') and v.args:
            a0 = v.args[0]
            if isinstance(a0, ast.Name):
                good += 1               # np.array(y, dtype=float)
            elif isinstance(a0, ast.ListComp) and \
                    not a0.generators[0].ifs and \
                    _len_origin(a0.generators[0].iter) == fe.params[1]:
                good += 1               # [cache[tuple(i)] for i in I], also
                #                         over keys = [tuple(i) for i in I]
            elif isinstance(a0, ast.ListComp) and \
                    isinstance(a0.generators[0].iter, ast.Name):
                # values looked up for another index list than the batch
                wrong_order = a0.generators[0].iter.id
    rep.add('P-cache-value', 'cross._func_eval', 'both branches return '
            'np.array(<values in batch order>, dtype=float)',
            'ok' if good == 2 and len(rets) == 2 else (
                'violation' if wrong_order else 'unknown'),
            '' if good == 2 else 'cached and uncached branches no longer '
            'return the same kind of array in batch order (%d of %d)'
            % (good, len(rets)), line=fe.node.lineno, file=fe.module.path)
    # --- S-kind: whatever kind of array (float32, integer, list) the oracle
    # hands back, the request wrapper returns float64 values -- on the cached
    # and on the uncached path (cores, QR and maxvol then run in double
    # precision; both paths return the same values)
    from .. import interp as _interp
    for v_ in (dict(f='cb', I='I[m,d]', info='dict'),
               dict(f='cb', I='I[m,d]', info='dict', cache='dict')):
        I_ = _interp.Interp(prog, {'split': dict(specs.DEFAULT_SPLIT),
                                   'summary': dict(specs.DEFAULT_SUMMARY)})
        I_.run_function(fe, specs.build_args(v_, 3))
        for j_, rv_ in enumerate(I_.entry_returns):
            if rv_.k == 'none':
                continue
            if rv_.k == 'arr' and rv_.dt == 'f':
                st_, det_ = 'ok', ''
            elif rv_.k in ('arr', 'top') and any(
                    isinstance(l_, tuple) and l_[0] == 'CB'
                    for l_ in rv_.org):
                st_, det_ = 'violation', \
                    'the object the oracle returned is handed on as it is ' \
                    '(no conversion to a float64 array): a float32 / ' \
                    'integer oracle then runs the whole sweep in its own ' \
                    'kind, and the cached path returns other values'
            else:
                st_, det_ = 'unknown', 'result %r' % (rv_,)
            rep.add('S-kind', 'cross._func_eval', 'values returned %s a cache '
                    'are float64 (return path %d)'
                    % ('with' if 'cache' in v_ else 'without', j_), st_, det_,
                    line=fe.node.lineno, file=fe.module.path)
    P.check_func_eval(prog, rep)
    P.check_request_siblings(prog, rep)
    P.check_stop_writers(prog, rep, functions={'cross.cross',
                                                'cross._func_eval',
                                                'utils._info_appr'})
    from .. import rules_proto as _RP
    _callers = {f.qualname for f in prog.all_functions()
                if f.module.name in ('cross',)}
    _RP.check_param_forwarding(prog, rep, callers=_callers)
    from .. import rules_proto as _RPZ
    _RPZ.check_none_vs_zero(prog, rep, modules={'cross', 'utils'})
    rep.floor('S-ret', 20, 'return paths')
    rep.floor('S-tensordot', 4, 'folds')
    rep.floor('P-fresh-info', 3, 'info freshness')
    rep.floor('P-cache-value', 1, 'cache value')
    rep.floor('S-kind', 2, 'float64 oracle values')
    rep.floor('P-cache-uses', 1, 'cache uses')
