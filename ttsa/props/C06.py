"""C06 — TT-cross budget, index domain and stop contract."""
import ast

from .. import specs, model, rules_proto as P, paths
from ..engine import collect, tt_wellformed
from ..poly import Poly, same


def _none_tests(test, pol=True):
    """Names proven None (pol True) by a conjunction / disjunction."""
    out = set()
    if isinstance(test, ast.BoolOp):
        for v in test.values:
            out |= _none_tests(v)
    elif isinstance(test, ast.Compare) and len(test.ops) == 1 and \
            isinstance(test.left, ast.Name) and \
            isinstance(test.comparators[0], ast.Constant) and \
            test.comparators[0].value is None:
        out.add((test.left.id, isinstance(test.ops[0], ast.Is)))
    return out


def check(an, rep, tier):
    prog = an.prog
    rep.explanation = (
        'DECIDED: P-budget every objective call in cross._func_eval is '
        'dominated by the budget test on the same batch; P-count the counter '
        'is increased exactly once by len(batch) after a successful call and '
        'never on a None / uncalled path; P-cache-* only unseen indices are '
        'evaluated and cache hits are counted; P-stop-writers the complete '
        'set of writers of info["stop"] (package-wide) with their literals '
        'and guarding conditions, priority e_vld > e > nswp; P-interrupt each '
        'request in a half-sweep is followed by a stop test whose branch '
        'folds the pending factor on the side used by the pre-iteration of '
        'that direction, refreshes info and returns; P-sweep-* one nswp '
        'increment per sweep, sweep ends in _info_appr; P-validate the '
        'ValueError rejections dominate the first effect; S-ret every return '
        'path (including the interruption paths at every core) yields a '
        'well-formed tensor of the original mode sizes for d=2,3; S-kind the '
        'batches handed to the objective are int arrays of width d. '
        'NOT DECIDED: finiteness of the returned cores; that m is tight; '
        'values inside the index bounds beyond "copies of arange(n_k)".')
    rep.assumptions = [specs.PRECONDITIONS[k] for k in
                       ('PRE-TT', 'PRE-D', 'PRE-DOC', 'PRE-IDX')]
    rep.trusted = ['stop-writer table in ttsa/rules_proto.py (frozen from the '
                   'documented protocol)', 'NumPy model']
    P.check_func_eval(prog, rep)
    P.check_stop_writers(prog, rep, functions={
        'cross._func_eval', 'cross.cross', 'cross._func', 'cross._iter',
        'utils._info_appr'})
    P.check_interrupt(prog, rep)
    P.check_sweep_epilogue(prog, rep, 'cross.cross')
    # --- P-validate
    fn, mod, raises, before, first = P.check_validation(prog, rep)
    if len(before) >= 3:
        rep.ok('P-validate', 'cross.cross', '%d rejections before the first '
               'effect (%s)' % (len(before), paths.src(mod, first)[:40]))
    else:
        rep.violation('P-validate', 'cross.cross', 'argument validation',
                      'expected 3 ValueError rejections before the first '
                      'effect, found %d' % len(before),
                      line=fn.node.lineno, file=mod.path)
    # the two documented rejections, decided by abstract execution with the
    # None / not-None pattern of the stop and validation arguments (however
    # the tests are spelt: nested ifs, flags, all(...), De Morgan forms)
    from .common import dom3
    from .. import interp as _interp
    base = dict(f='cb', Y0='tt', info='dict')
    scen = [
        ('missing stop criteria (m, e, nswp all None, no validation data)',
         dict(), True),
        ('missing stop criteria (validation data given, e_vld None)',
         dict(I_vld='I[mv,d]', y_vld='f[mv]'), True),
        ('e_vld without validation data', dict(m='int:mmax', e_vld='num'),
         True),
        ('e_vld with I_vld but without y_vld',
         dict(m='int:mmax', e_vld='num', I_vld='I[mv,d]'), True),
        ('a budget alone is accepted', dict(m='int:mmax'), False),
        ('validation data with e_vld alone is accepted',
         dict(I_vld='I[mv,d]', y_vld='f[mv]', e_vld='num'), False),
        # 0 is a value, not "unset": a sweep count / threshold / budget of
        # zero given alone is a stop criterion
        ('nswp=0 alone is accepted', dict(nswp=('lit', 0)), False),
        ('e=0. alone is accepted', dict(e=('lit', 0.)), False),
        ('m=0 alone is accepted', dict(m=('lit', 0)), False),
    ]
    for what, extra, bad in scen:
        v_ = dict(base)
        v_.update(extra)
        I_ = _interp.Interp(prog, {'split': dict(specs.DEFAULT_SPLIT),
                                   'summary': dict(specs.DEFAULT_SUMMARY)})
        I_.run_function(fn, specs.build_args(v_, 2))
        st3, d3 = dom3(I_.raises, I_.entry_returns, bad, 'cross.cross')
        rep.add('P-validate', 'cross.cross', what, st3,
                '' if st3 == 'ok' else 'this argument combination is ' + d3,
                line=fn.node.lineno, file=mod.path)
    # --- interpreter: every return path well formed, batches int [rows, d]
    ds = (2, 3) if tier == 'quick' else (2, 3, 4, 5)
    vs = specs.variants('cross.cross')
    for vi in range(len(vs)):
        for d in ds:
            run = an.run('cross.cross', vi, d)
            modes = [Poly.sym('Y0.n%d' % k) for k in range(d)]
            for j, rv in enumerate(run.returns):
                st, detail = tt_wellformed(rv, modes)
                rep.add('S-ret', 'cross.cross',
                        'return path %d of %s' % (j, run.tag()), st, detail)
            for where, node, pos, kw in run.I.cb_calls:
                if where != 'cross._func_eval' or not pos:
                    continue
                b = pos[0]
                construct = model.norm_src(prog.modules['cross'], node)
                if b.k == 'arr' and b.dims is not None and \
                        len(b.dims) == 2 and b.dims[1] is not None and \
                        b.dims[1].as_int() == d and b.dt == 'i':
                    rep.ok('S-kind', where, construct,
                           detail='batch [rows, d] of int')
                elif b.k == 'arr' and b.dims is not None and (
                        len(b.dims) != 2 or (b.dims[1] is not None and
                                             b.dims[1].as_int() not in
                                             (None, d)) or
                        b.dt not in ('i', None)):
                    rep.violation('S-kind', where, construct,
                                  'the objective receives %r instead of an '
                                  'int batch of width d=%d' % (b, d),
                                  line=node.lineno,
                                  file=prog.modules['cross'].path)
                else:
                    rep.unknown('S-kind', where, construct, repr(b))
            collect(rep, [run], ['S-tensordot', 'S-reshape', 'S-concat',
                                 'S-matmul', 'S-index', 'S-unpack'],
                    wheres={'cross.cross', 'cross._iter', 'cross._func',
                            'cross._func_eval'})
    from .. import rules_proto as _RPZ
    _RPZ.check_none_vs_zero(prog, rep, modules={'cross', 'utils'})
    rep.floor('P-budget', 1, 'objective call sites')
    rep.floor('P-validate', 9, 'argument validation')
    rep.floor('P-count', 4, 'counter paths')
    rep.floor('P-stop-writers', 6, 'stop writers (cross + _info_appr)')
    rep.floor('P-interrupt', 2, 'interruption sites')
    rep.floor('S-ret', 6, 'return paths typed')
    rep.floor('S-kind', 2, 'objective batches typed')
