"""C10 — results depend only on arguments and seed."""
import ast

from .. import specs, model, rules_rng
from ..engine import collect


def check(an, rep, tier):
    prog = an.prog
    rep.explanation = (
        'DECIDED (whole package, from source): R-global no reference to the '
        'process-wide numpy.random namespace except the two documented ones; '
        'R-draw every draw-method call has a receiver derived from '
        'teneva._rand(seed) (local def-use + interprocedural provenance in '
        'the abstract interpreter for every seeded public function); '
        'R-forward seeded functions pass their seed/generator to seeded '
        'callees; R-defaults mutable default arguments are reset at entry '
        'for every key that is read; R-uninit no np.empty array is filled '
        'only conditionally and then used as a whole; R-clock perf_counter '
        'values reach only info["t"] and log text; R-iter-order no set '
        'iteration / hash / id. NOT DECIDED: bit-identity of NumPy/BLAS '
        'kernels across calls (trusted).')
    rep.assumptions = [specs.PRECONDITIONS['PRE-DOC'],
                       specs.PRECONDITIONS['PRE-D']]
    rep.trusted = ['numpy.random.Generator is deterministic for a given seed',
                   'allowed-reference table in ttsa/rules_rng.py']
    rules_rng.check_global(prog, rep)
    rules_rng.check_forward(prog, rep)
    rules_rng.check_defaults(prog, rep)
    rules_rng.check_uninit(prog, rep)
    rules_rng.check_clock(prog, rep)
    rules_rng.check_iter_order(prog, rep)
    rules_rng.check_rand_ctor(prog, rep)
    from .. import rules_proto
    seeded = {f.qualname for f in rules_rng.seeded_functions(prog)}
    rules_proto.check_param_forwarding(prog, rep, callers=seeded,
                                       rule='P-forward-name')
    # --- draw sites: local provenance
    n_sites = 0
    local = {}
    for mod, fn, call in rules_rng.draw_sites(prog):
        n_sites += 1
        pv, txt = rules_rng.local_provenance(prog, mod, fn, call)
        local[(mod.name, call.lineno, call.col_offset)] = (pv, fn, mod, call)
    # --- interprocedural provenance through the interpreter
    seeded_public = [f for f in prog.public
                     if 'seed' in f.all_params and
                     (f.cls is None or f.name == '__init__')]
    ds = (2, 3)
    visited = {}
    for fn in seeded_public:
        vs = specs.variants(fn.qualname)
        if vs is None:
            rep.error('seeded public function %s has no entry spec'
                      % fn.qualname)
            continue
        rep.ok('R-seeded-fn', fn.qualname, 'analysed')
        for vi in range(len(vs)):
            for d in ds:
                run = an.run(fn.qualname, vi, d)
                for s in run.I.sites:
                    if s.rule == 'R-draw':
                        key = (s.mod.name, s.node.lineno, s.node.col_offset)
                        rank = {'ok': 0, 'unknown': 1, 'violation': 2}
                        old = visited.get(key)
                        if old is None or rank[s.status] > rank[old.status]:
                            visited[key] = s
                    elif s.rule in ('R-rng-ctor',):
                        rep.add(s.rule, s.where, s.construct, s.status,
                                s.detail, line=s.node.lineno, file=s.mod.path)
    # ANOVA.sample is reached only through the class API
    for key, (pv, fn, mod, call) in sorted(local.items()):
        where = fn.qualname if fn else mod.name
        construct = model.norm_src(mod, call.func)
        s = visited.get(key)
        if s is not None and s.status == 'violation':
            rep.violation('R-draw', where, construct, s.detail,
                          line=call.lineno, file=mod.path)
        elif pv in ('seeded', 'self'):
            rep.ok('R-draw', where, construct,
                   detail='receiver %s; interpreter: %s'
                   % (pv, s.status if s else 'not reached'))
        elif pv == 'param':
            # helper: the generator is a parameter; every call site reached
            # by the interpreter must have bound it to a seeded generator
            if s is not None and s.status == 'ok':
                rep.ok('R-draw', where, construct,
                       detail='generator parameter bound to a seeded '
                              'generator at every analysed call site')
            else:
                rep.unknown('R-draw', where, construct,
                            'generator parameter; call sites not reached')
        else:
            if s is not None and s.status == 'ok':
                rep.ok('R-draw', where, construct, detail='interpreter: ok')
            else:
                rep.violation('R-draw', where, construct,
                              'the receiver of this draw is not derived from '
                              'teneva._rand(seed) / a generator parameter',
                              line=call.lineno, file=mod.path)
    from .. import rules_api as _RA
    _RA.check_memoised(prog, rep, modules=None)
    # results must be a function of (arguments, seed) alone: no state that
    # survives a call (module-level tables, memo wrappers, modified mutable
    # defaults, under-keyed memo tables)
    from .. import rules_state as _RS
    _RS.check_hidden_state(prog, rep, modules=None)
    rep.floor('R-draw', 15, 'draw sites with decided provenance')
    rep.floor('R-seeded-fn', 11, 'seeded public functions analysed')
    rep.floor('R-defaults', 4, 'mutable default arguments')
    rep.floor('R-uninit', 9, 'np.empty sites')
    rep.floor('R-global', 2, 'numpy.random references')
    rep.floor('R-forward', 5, 'seed forwarding call sites')
    rep.floor('R-clock', 6, 'clock flows')
