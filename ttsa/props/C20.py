"""C20 — incomplete TT-SVD (narrow structural clauses)."""
from .common import sweep, check_tt_returns, decided_split, pre, S_RULES


def check(an, rep, tier):
    rep.explanation = decided_split(
        'S-ndim the operand handed to the least-squares solver in '
        'svd_incomplete is a matrix (the interface vectors returned by '
        'get(..., _to_item=False) are stacked as rows) and its right-hand '
        'side is 1-/2-D; S-* every contraction / reshape / store on the path '
        'is dimension-consistent where typed; S-ret the result is a list of '
        'd three-axis float cores; the producer sample_tt returns '
        '(int [rows, d], [d+1], [d]) and the consumer indexes idx / idx_many '
        'inside those lengths.',
        'recovery of the sampled tensor (numerical / generic), block layout '
        'values of sample_tt.')
    rep.assumptions = pre('PRE-D', 'PRE-IDX', 'PRE-DOC')
    rep.trusted = ['NumPy model (lstsq requires a 2-D left-hand side)']
    ds = (2, 3) if tier == 'quick' else (2, 3, 4, 5)
    wh = {'svd.svd_incomplete', 'act_one.get', 'act_one.get_many',
          'svd.matrix_skeleton', 'sample.sample_tt', 'sample.sample_tt.one_mode',
          'sample.sample_lhs'}
    runs = sweep(an, rep, ['svd.svd_incomplete', 'sample.sample_tt'], ds,
                 wheres=wh)
    from .common import tt_skeleton
    for r in runs:
        if r.qualname == 'svd.svd_incomplete':
            for j, rv in enumerate(r.returns):
                st, detail = tt_skeleton(rv, r.d)
                if st == 'ok':
                    from ..poly import Poly, same, definitely_differ
                    for k, c in enumerate(rv.items):
                        want = Poly.sym("max(('P', 'I'))[%d]" % k) + 1
                        n = c.dims[1]
                        if n is None:
                            continue
                        if definitely_differ(n, want):
                            st, detail = 'violation', 'core %d has mode ' \
                                'size %r, the sampled tensor has %r there' \
                                % (k, n, want)
                            break
                rep.add('S-ret', r.qualname, 'return path %d of %s'
                        % (j, r.tag()), st, detail)
    for r in runs:
        if r.qualname != 'sample.sample_tt':
            continue
        v = r.result
        ok = v.k == 'tuple' and v.items and len(v.items) == 3
        bad = v.k == 'tuple' and v.items is not None and len(v.items) != 3
        if ok:
            I, idx, many = v.items

            def _len(a, ax, n_ax):
                """-> 'ok' / 'bad' / None (not typed) for axis ax == want"""
                if a.k != 'arr' or a.dims is None:
                    return None, None
                if len(a.dims) != n_ax:
                    return 'bad', None
                x = a.dims[ax]
                return ('ok' if x is not None else None), x
            checks = []
            for a_, ax_, nax_, want_ in ((I, 1, 2, r.d), (idx, 0, 1, r.d + 1),
                                         (many, 0, 1, r.d)):
                s_, x_ = _len(a_, ax_, nax_)
                if s_ == 'ok':
                    s_ = 'ok' if x_.as_int() == want_ else (
                        'bad' if x_.as_int() is not None else None)
                checks.append(s_)
            ok = all(c == 'ok' for c in checks)
            bad = any(c == 'bad' for c in checks)
        rep.add('S-producer', 'sample.sample_tt', 'returns (I[rows,d], '
                'idx[d+1], idx_many[d]) at d=%d' % r.d,
                'ok' if ok else ('violation' if bad else 'unknown'),
                '' if ok else 'returned %r' % (v,))
    import ast as _ast
    from .. import paths as _paths
    fsv = an.prog.func('svd.svd_incomplete')
    steps, widths = [], []
    ipar, ypar, many_par = fsv.params[0], fsv.params[1], fsv.params[3]
    import copy as _copy
    loops_ = [n_ for n_ in _ast.walk(fsv.node) if isinstance(n_, _ast.For)
              and isinstance(n_.target, _ast.Name)]
    mode_var = loops_[0].target.id if loops_ else None

    def canon(node):
        class R(_ast.NodeTransformer):
            def visit_Name(self, n_):
                return _ast.Name(id='$mode' if n_.id == mode_var else n_.id,
                                 ctx=_ast.Load())
        return _ast.dump(R().visit(_copy.deepcopy(node)))
    want = canon(_ast.parse('%s[%s]' % (many_par, mode_var or 'mode'),
                            mode='eval').body)
    # names bound to a row block of the sample array (parameter 1)
    blocks_ = {n_.targets[0].id for n_ in _ast.walk(fsv.node)
               if isinstance(n_, _ast.Assign) and
               isinstance(n_.targets[0], _ast.Name) and
               isinstance(n_.value, _ast.Subscript) and
               isinstance(n_.value.value, _ast.Name) and
               n_.value.value.id == ipar}
    for node in _ast.walk(fsv.node):
        if isinstance(node, _ast.Subscript) and \
                isinstance(node.value, _ast.Name) and \
                node.value.id in blocks_ and \
                isinstance(node.slice, _ast.Tuple) and \
                isinstance(node.slice.elts[0], _ast.Slice) and \
                node.slice.elts[0].step is not None:
            steps.append(canon(node.slice.elts[0].step))
        if isinstance(node, _ast.Call) and \
                isinstance(node.func, _ast.Attribute) and \
                node.func.attr == 'reshape' and len(node.args) == 2 and \
                isinstance(node.args[0], _ast.UnaryOp):
            base = node.func.value
            if isinstance(base, _ast.Subscript) and \
                    isinstance(base.value, _ast.Name) and \
                    base.value.id == ypar and \
                    any(isinstance(x, _ast.Name) and x.id == mode_var
                        for x in _ast.walk(base.slice)):
                widths.append(canon(node.args[1]))
    okc = steps == [want] and widths == [want]
    steps = ['idx_many[mode]' if x == want else 'other' for x in steps]
    widths = ['idx_many[mode]' if x == want else 'other' for x in widths]
    # found-but-different is the violation; a stride / width that is not
    # written in the recognised form is not decided here
    badc = 'other' in steps or 'other' in widths
    rep.add('S-consumer', 'svd.svd_incomplete', 'row stride %s / block width '
            '%s' % (steps, widths), 'ok' if okc else (
                'violation' if badc else 'unknown'),
            '' if okc else 'the producer lays the samples of one mode out as '
            'prefixes x (mode index) x idx_many[mode] suffixes: the interface '
            'rows must be taken with stride idx_many[mode] and the values '
            'folded with width idx_many[mode]', line=fsv.node.lineno,
            file=fsv.module.path)
    # every mode index is fitted against ITS OWN rows: inside the loop over
    # the mode index both operands of the least-squares solve vary with the
    # iteration (the loop variable or a name re-bound in the loop body)
    for lp in _ast.walk(fsv.node):
        if not isinstance(lp, (_ast.For, _ast.While)):
            continue
        inner = [x for x in _ast.walk(lp) if x is not lp and
                 isinstance(x, (_ast.For, _ast.While))]
        calls = [c for c in _ast.walk(lp) if isinstance(c, _ast.Call) and
                 (an.prog.dotted(c.func) or '').endswith('lstsq') and
                 not any(c in list(_ast.walk(i_)) for i_ in inner)]
        if not calls:
            continue
        variant = {n_.id for n_ in _ast.walk(lp)
                   if isinstance(n_, _ast.Name) and
                   isinstance(n_.ctx, _ast.Store)}
        for c in calls:
            ops = list(c.args[:2])
            inv = [_ast.unparse(a) for a in ops
                   if not any(isinstance(x, _ast.Name) and x.id in variant
                              for x in _ast.walk(a))]
            rep.add('S-consumer', 'svd.svd_incomplete', 'per-index row '
                    'blocks of %s' % _ast.unparse(c)[:60],
                    'ok' if not inv else 'violation',
                    '' if not inv else 'inside the loop over the mode index '
                    'the operand %s of the least-squares solve does not '
                    'change with the iteration: every slice of the core is '
                    'fitted against the same rows' % inv,
                    line=c.lineno, file=fsv.module.path)
    from .. import rules_formula as _F
    _F.check_rank_value(an, rep, 'svd.matrix_skeleton')
    rep.floor('F-rank', 1, 'rank formula of the skeleton helper')
    rep.floor('S-ndim', 1, 'lstsq operand')
    # --- P-cap: every compression of a block of values is capped by the
    # CALLER's rank cap (1 for the last core), in every mode -- not by the
    # rank that an earlier mode happened to find (needs d >= 4 to show: the
    # cap of mode 2 is the first one that can be a left-over of mode 1)
    from .. import interp as _interp
    from ..poly import data_dependent as _dd
    from .. import specs
    fsv_ = an.prog.func('svd.svd_incomplete')
    for d_ in (3, 4):
        a_ = specs.build_args(specs.variants('svd.svd_incomplete')[1], d_)
        r0_ = a_['r']
        # (the block widths as named integers, so that a cap computed from
        # them or from a found rank is a value, not just "some integer")
        from ..values import ARR as _ARR, INT as _INT
        from ..poly import Poly as _Poly
        many_ = _ARR((_Poly.const(d_),), 'i')
        many_.items = [_INT(_Poly.sym('many.%d' % j_)) for j_ in range(d_)]
        a_['idx_many'] = many_
        I_ = _interp.Interp(an.prog, {'split': dict(specs.DEFAULT_SPLIT),
                                      'summary': dict(specs.DEFAULT_SUMMARY)})
        I_.run_function(fsv_, a_)
        k_ = 0
        for (q_, args_, _res), meta_ in zip(I_.call_log, I_.call_meta):
            if q_ not in ('svd.matrix_skeleton', 'svd.matrix_svd') or \
                    not (meta_.get('caller') or '').startswith('svd.') or \
                    not isinstance(args_, dict) or 'r' not in args_:
                continue
            if (meta_.get('caller') or '') in ('svd.matrix_skeleton',
                                               'svd.matrix_svd'):
                continue
            k_ += 1
            rv_ = args_['r']
            ev_ = args_.get('e')
            e0_ = a_.get('e')
            if (e0_ is not None and rv_ is e0_) or (ev_ is not None and
                                                     ev_ is r0_):
                st_, det_ = 'violation', \
                    'accuracy and rank cap are handed over in each other\'s ' \
                    'place (the cap receives the caller\'s e, the accuracy ' \
                    'the caller\'s r)'
            elif rv_ is r0_ or (rv_.has_const() and rv_.c == 1):
                st_, det_ = 'ok', ''
            elif rv_.k == 'int' and rv_.p is not None and (
                    _dd(rv_.p) or any('many.' in repr(a__)
                                      for a__ in rv_.p.atoms())):
                st_, det_ = 'violation', \
                    'the cap handed to the compression is %r: a rank found ' \
                    'for an earlier mode, not the caller\'s cap' % (rv_.p,)
            else:
                st_, det_ = 'unknown', 'cap %r' % (rv_,)
            rep.add('P-cap', 'svd.svd_incomplete', 'compression #%d at d=%d '
                    'is capped by the caller\'s r (or 1 at the end)'
                    % (k_, d_), st_, det_, line=fsv_.node.lineno,
                    file=fsv_.module.path)
    # the cap parameter itself is not overwritten inside the sweep by a value
    # that does not derive from it (it is read again in the next mode)
    import ast as _astc
    capn = fsv_.params[5] if len(fsv_.params) > 5 else 'r'
    for lp in [n_ for n_ in _astc.walk(fsv_.node)
               if isinstance(n_, (_astc.For, _astc.While))]:
        for st_n in _astc.walk(lp):
            if isinstance(st_n, _astc.Assign) and any(
                    isinstance(t_, _astc.Name) and t_.id == capn
                    for t_ in st_n.targets):
                uses = any(isinstance(x_, _astc.Name) and x_.id == capn
                           for x_ in _astc.walk(st_n.value))
                rep.add('P-cap', 'svd.svd_incomplete', 'the cap %s is not '
                        'clobbered inside the sweep (line %d)'
                        % (capn, st_n.lineno),
                        'ok' if uses else 'violation',
                        '' if uses else 'the rank cap %s is re-bound inside '
                        'the loop over the modes to %s, a value that does '
                        'not derive from it, and is read as the cap of the '
                        'next mode' % (capn, _astc.unparse(st_n.value)),
                        line=st_n.lineno, file=fsv_.module.path)
    rep.floor('P-cap', 4, 'caps of the block compressions')
    rep.floor('S-ret', 2, 'svd_incomplete results')
    rep.floor('S-producer', 2, 'sample_tt layouts')
    rep.floor('S-consumer', 1, 'stride / width of the consumer')
