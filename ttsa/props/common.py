"""Helpers shared by the per-property checkers."""
from .. import specs, model
from ..engine import collect, tt_wellformed
from ..poly import Poly

S_RULES = ['S-matmul', 'S-einsum', 'S-einsum-out', 'S-tensordot', 'S-concat',
           'S-reshape', 'S-bcast', 'S-store', 'S-slot', 'S-ndim', 'S-solve',
           'S-square', 'S-index', 'S-unpack', 'S-axis', 'S-transpose',
           'S-item', 'S-choice', 'S-ravel', 'S-kind', 'S-bigprod', 'S-bitwidth',
           'S-squeeze', 'K-truth', 'K-inarr', 'S-order', 'S-layout',
           'X-arity',
           'X-name']


def sweep(an, rep, entries, ds, rules=None, wheres=None, opts=None,
          only_variants=None):
    """Run the entry points and copy the interpreter's sites of ``rules``
    located in functions ``wheres`` (None = everywhere) into the report."""
    runs = []
    for q in entries:
        vs = specs.variants(q)
        if vs is None:
            raise model.AnalysisError('no entry spec for %s' % q)
        for vi in range(len(vs)):
            if only_variants and q in only_variants and \
                    vi not in only_variants[q]:
                continue
            for d in ds:
                runs.append(an.run(q, vi, d, opts))
    collect(rep, runs, rules or S_RULES, wheres=wheres)
    return runs


def check_tt_returns(rep, runs, modes_of=None, rule='S-ret', select=None):
    """S-ret on every return path of every run.  ``modes_of(run)`` gives the
    expected mode sizes (list of Poly/None) or None; ``select(run, value)``
    picks the TT-tensor out of a composite return value."""
    for run in runs:
        modes = modes_of(run) if modes_of else None
        for j, rv in enumerate(run.returns):
            v = select(run, rv) if select else rv
            if v is None:
                continue
            st, detail = tt_wellformed(v, modes)
            rep.add(rule, run.qualname, 'return path %d of %s'
                    % (j, run.tag()), st, detail)


def modes_from(prefix):
    def f(run):
        return [Poly.sym('%s%d' % (prefix, k)) for k in range(run.d)]
    return f


def decided_split(text_decided, text_not):
    return 'DECIDED: ' + text_decided + ' NOT DECIDED: ' + text_not


def pre(*keys):
    return [specs.PRECONDITIONS[k] for k in keys]


def tt_skeleton(value, d):
    """Weaker than well-formedness: a list of d cores, each a 3-axis float
    array, first / last bond 1 where typed."""
    if value is None or value.k != 'list' or value.items is None:
        return ('unknown', 'result not a concrete list') if value is None or \
            value.k in ('top', 'list') else ('violation', repr(value))
    if len(value.items) != d:
        return 'violation', 'result has %d cores, expected %d' % (
            len(value.items), d)
    for k, c in enumerate(value.items):
        if c.k != 'arr' or c.dims is None:
            return 'unknown', 'core %d not typed' % k
        if len(c.dims) != 3:
            return 'violation', 'core %d has %d axes' % (k, len(c.dims))
        if c.dt not in ('f', None):
            return 'violation', 'core %d has dtype kind %s' % (k, c.dt)
    f, l = value.items[0].dims[0], value.items[-1].dims[2]
    for nm, x in (('first', f), ('last', l)):
        if x is not None and x.as_int() is not None and x.as_int() != 1:
            return 'violation', '%s bond is %r' % (nm, x)
    return 'ok', ''


def cmp3(got, want):
    """Three-valued comparison of two size polynomials: 'ok' when they are the
    same, 'violation' only when they definitely differ (over free symbols),
    'unknown' when an opaque atom is involved."""
    from ..poly import same, definitely_differ
    if got is None or want is None:
        return 'unknown'
    if same(got, want):
        return 'ok'
    if definitely_differ(got, want):
        return 'violation'
    # a size fixed by the inputs' shapes against one that depends on the DATA
    # (a count of singular values below a threshold): they differ for inputs
    # of lower numerical rank
    from ..poly import data_dependent, Poly
    w_, g_ = Poly.coerce(want), Poly.coerce(got)
    if w_.all_free() and data_dependent(g_):
        return 'violation'
    return 'unknown'


def cmp3_free(got, want):
    """cmp3 for sizes whose symbols are FREE inputs without an ordering
    precondition (requested ranks / mode sizes of a constructor): min / max
    atoms are expanded, each argument being the value for some ordering of
    the inputs, so ``min(n0, r)`` against ``r`` differs (for n0 < r)."""
    c3 = cmp3(got, want)
    if c3 != 'unknown':
        return c3
    from .. import poly as _p
    saved = _p.EXPAND[0]
    _p.EXPAND[0] = True
    try:
        return 'violation' if _p.definitely_differ(got, want) else 'unknown'
    finally:
        _p.EXPAND[0] = saved


def dom3(raises, returns, bad, qual=None, exc='ValueError'):
    """Outcome of an abstract run against a documented rejection:
    -> (status, detail).  ``bad`` = the input must be rejected.  A run that
    both raises and returns did not decide the guard for this input
    (both continuations were explored): unknown, not a violation."""
    any_raise = any(x[1] == exc and (qual is None or x[0] == qual)
                    for x in raises)
    returned = bool(returns)
    if any_raise and returned:
        return 'unknown', 'the rejection test is not decided by the ' \
            'abstract run (both continuations explored)'
    raised = any_raise and not returned
    if raised == bad:
        return 'ok', ''
    return 'violation', 'not rejected' if bad else 'rejected'
