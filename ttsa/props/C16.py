"""C16 — stabilised arithmetic (exponent ledger)."""
from .. import specs, rules_ledger as L
from ..values import AV as AV_
from .common import decided_split, pre
from ..poly import Lin


def check(an, rep, tier):
    prog = an.prog
    # the running candidate matrix is the plain name that is fed back into the
    # sweep contraction (an einsum operand that is re-bound inside the loop)
    import ast as _astR
    _fnR = prog.func('optima.optima_tt_beam')
    _stored = {}
    for _n in _astR.walk(_fnR.node):
        if isinstance(_n, _astR.Name) and isinstance(_n.ctx, _astR.Store):
            _stored[_n.id] = _stored.get(_n.id, 0) + 1
    _RUNNING = set()
    for _n in _astR.walk(_fnR.node):
        if isinstance(_n, _astR.Call) and \
                (prog.dotted(_n.func) or '').endswith('einsum'):
            for _a in _n.args[1:]:
                if isinstance(_a, _astR.Name) and _stored.get(_a.id, 0) >= 2:
                    _RUNNING.add(_a.id)
    rep.explanation = decided_split(
        'U-ledger as an identity of linear forms on every return path: '
        'core_stab (Q = G / 2**p, exponent p0 + p; below the threshold '
        '(G, p0)), mul_scalar(use_stab) (exponent threaded through the loop), '
        'norm(use_stab) (sqrt halves mantissa scale and exponent), accuracy '
        '(2**(p1-p2) * z1 / z2 has scale 0), orthogonalize(use_stab) (sum of '
        'core scales + p = 0 for every pivot), truncate(use_stab) (2**(p/d) '
        'on each of d cores restores scale 0), optima_tt_beam (p/d applied '
        'once per core); G-log log2 only behind the v_max > thr guard; P-int '
        'the exponent is an integer; P-sat the power 2**(p1-p2) is dominated '
        'by both saturation guards; P-stab-step orthogonalize re-scales at '
        'every step of both sweeps.',
        'that mantissas stay in range for thousands of dimensions, rounding, '
        'coincidence of stabilised and plain values.')
    rep.assumptions = pre('PRE-TT', 'PRE-D', 'PRE-DOC')
    rep.trusted = ['ledger axioms: qr/rq/svd/eigh factors with orthonormal '
                   'columns/rows carry scale 0, the triangular / weighted '
                   'factor carries the scale of the input']
    ds = (2, 3) if tier == 'quick' else (2, 3, 4, 5)
    I_cs = L.run_core_stab(an, rep)
    for d in ds:
        r = an.run('act_two.mul_scalar', 1, d)
        # the merged bond pair is enumerated alike by consecutive steps (a
        # stabilised mantissa / exponent of a WRONG product is well formed)
        from ..engine import collect as _collect
        _collect(rep, [r], ['S-layout'], wheres={'act_two.mul_scalar'})
        L.check_stab_calls(rep, r, 'act_two.mul_scalar',
                           'one per core pair at d=%d' % d, d)
        for j, rv in enumerate(r.returns):
            L.check_pair(rep, 'act_two.mul_scalar', '(v, p) at d=%d path %d'
                         % (d, j), rv.items[0], rv.items[1])
        r = an.run('act_one.norm', 1, d)
        for j, rv in enumerate(r.returns):
            L.check_pair(rep, 'act_one.norm', '(sqrt(v), p/2) at d=%d path %d'
                         % (d, j), rv.items[0], rv.items[1])
        r = an.run('act_two.accuracy', 0, d)
        n_q = 0
        for j, rv in enumerate(r.returns):
            if rv.has_const():
                continue            # saturation / sentinel constants
            n_q += 1
            L.check_pair(rep, 'act_two.accuracy', 'c * z1 / z2 at d=%d' % d,
                         rv, None)
        if n_q == 0:
            rep.error('act_two.accuracy: quotient return path not found')
        for k in range(d):
            v = dict(Y='tt', k=('lit', k), use_stab=('lit', True))
            r = an.run('transformation.orthogonalize', 0, d, variant=v,
                       extra_key=('stab', k))
            L.check_stab_calls(rep, r, 'transformation.orthogonalize',
                               'pivot %d at d=%d' % (k, d), d - 1)
            for j, rv in enumerate(r.returns):
                L.check_pair(rep, 'transformation.orthogonalize',
                             '(Z, p) for pivot %d at d=%d' % (k, d),
                             rv.items[0], rv.items[1])
        for vi, v in enumerate(specs.variants('transformation.truncate')):
            if v.get('use_stab') != ('lit', True):
                continue
            r = an.run('transformation.truncate', vi, d)
            for j, rv in enumerate(r.returns):
                L.check_pair(rep, 'transformation.truncate',
                             'cores after the 2**(p/d) epilogue at d=%d' % d,
                             rv, None)
        # optima_tt_beam: the running matrix Q carries scale 0 at the end
        for vi in (0, 1):
            got = []

            def hook(I, fn, outs, got=got):
                # the running candidate matrix: the 2-d float array(s) that
                # carry an exponent ledger when the function returns
                for o in outs:
                    if o.kind != 'ret':
                        continue
                    for nm_, v_ in o.env.items():
                        if nm_ in _RUNNING and isinstance(v_, AV_) and \
                                v_.k == 'arr' and \
                                v_.dims is not None and len(v_.dims) == 2 \
                                and v_.dt != 'i' and v_.lg is not None:
                            got.append(v_)
            key = ('beam-hook', vi)
            from .. import interp
            I = interp.Interp(prog, {'split': dict(specs.DEFAULT_SPLIT),
                                     'summary': dict(specs.DEFAULT_SUMMARY)})
            I.trace_hooks['optima.optima_tt_beam'] = hook
            I.run_function(prog.func('optima.optima_tt_beam'),
                           specs.build_args(
                               specs.variants('optima.optima_tt_beam')[vi], d))
            for q in got:
                L.check_pair(rep, 'optima.optima_tt_beam',
                             'running matrix Q after the last core '
                             '(variant %d, d=%d)' % (vi, d), q, None)
    import ast as _ast
    fcs = prog.func('core.core_stab')
    for s in I_cs.sites:
        if s.rule == 'P-maxmod':
            rep.add('P-maxmod', s.where, 'scaling reference = max(abs(G))',
                    s.status, '' if s.status == 'ok' else s.detail + ': the '
                    'scaling reference must be the largest modulus of the '
                    'core (maximum of the absolute values); anything else '
                    'under-scales cores whose dominant entry is negative',
                    line=s.node.lineno, file=s.mod.path)
    # --- U-exp-paths: every return path of the stabilised norm hands back
    # the exponent that mul_scalar produced.  A path that returns a literal
    # exponent next to a sibling path that returns one derived from the
    # ledger drops the scale (a vanishing mantissa keeps its exponent: the
    # callers divide / compare by 2**p).  Three-valued per return: derived
    # from the ledger variable = ok; a literal = violation when a sibling
    # path is ok; otherwise unknown.  No floor.
    import ast as _ast
    from .. import roles as _rolesU
    _fnorm = an.prog.func('act_one.norm')
    if _fnorm is not None:
        _pn = set()
        for _as in _ast.walk(_fnorm.node):
            if isinstance(_as, _ast.Assign) and \
                    isinstance(_as.targets[0], _ast.Tuple) and \
                    len(_as.targets[0].elts) == 2 and \
                    isinstance(_as.value, _ast.Call) and \
                    (an.prog.dotted(_as.value.func) or '').endswith(
                        'mul_scalar') and \
                    isinstance(_as.targets[0].elts[1], _ast.Name):
                _pn.add(_as.targets[0].elts[1].id)
        _rets = [r for r in _ast.walk(_fnorm.node)
                 if isinstance(r, _ast.Return) and
                 isinstance(r.value, _ast.Tuple) and len(r.value.elts) == 2]
        _cls = []
        for _r in _rets:
            _e1 = _r.value.elts[1]
            _names = {n.id for n in _ast.walk(_e1)
                      if isinstance(n, _ast.Name)}
            _namesi = {n.id for n in _ast.walk(
                _rolesU.inline(_fnorm.node, _e1)) if isinstance(n, _ast.Name)}
            if _pn & (_names | _namesi):
                _cls.append('ok')
            elif isinstance(_e1, _ast.Constant):
                _cls.append('lit')
            else:
                _cls.append('unknown')
        if _pn:
            for _r, _c in zip(_rets, _cls):
                _st3 = 'ok' if _c == 'ok' else (
                    'violation' if _c == 'lit' and 'ok' in _cls
                    else 'unknown')
                rep.add('U-exp-paths', 'act_one.norm', 'return path hands '
                        'back the exponent produced by mul_scalar', _st3,
                        '' if _st3 == 'ok' else 'exponent "%s" on this path '
                        'is not derived from the ledger'
                        % _ast.unparse(_r.value.elts[1]),
                        line=_r.lineno, file=_fnorm.module.path)
    rep.floor('P-maxmod', 1, 'scaling reference')
    L.check_saturation(prog, rep)
    rep.floor('P-stab-every', 7, 'unconditional per-step re-scaling')
    rep.floor('U-ledger', 14, 'ledger identities')
    rep.floor('P-sat', 1, 'saturation guard')
    rep.floor('P-stab-step', 14, 'per-step stabilisation')
    rep.floor('G-log', 1, 'guarded log2')
    rep.floor('P-int', 2, 'integer exponent')
