"""C16 — stabilised arithmetic (exponent ledger)."""
from .. import specs, rules_ledger as L
from .common import decided_split, pre
from ..poly import Lin


def check(an, rep, tier):
    prog = an.prog
    rep.explanation = decided_split(
        'U-ledger as an identity of linear forms on every return path: '
        'core_stab (Q = G / 2**p, exponent p0 + p; below the threshold '
        '(G, p0)), mul_scalar(use_stab) (exponent threaded through the loop), '
        'norm(use_stab) (sqrt halves mantissa scale and exponent), accuracy '
        '(2**(p1-p2) * z1 / z2 has scale 0), orthogonalize(use_stab) (sum of '
        'core scales + p = 0 for every pivot), truncate(use_stab) (2**(p/d) '
        'on each of d cores restores scale 0), optima_tt_beam (p/d applied '
        'once per core); G-log log2 only behind the v_max > thr guard; P-int '
        'the exponent is an integer; P-sat the power 2**(p1-p2) is dominated '
        'by both saturation guards; P-stab-step orthogonalize re-scales at '
        'every step of both sweeps.',
        'that mantissas stay in range for thousands of dimensions, rounding, '
        'coincidence of stabilised and plain values.')
    rep.assumptions = pre('PRE-TT', 'PRE-D', 'PRE-DOC')
    rep.trusted = ['ledger axioms: qr/rq/svd/eigh factors with orthonormal '
                   'columns/rows carry scale 0, the triangular / weighted '
                   'factor carries the scale of the input']
    ds = (2, 3) if tier == 'quick' else (2, 3, 4)
    L.run_core_stab(an, rep)
    for d in ds:
        r = an.run('act_two.mul_scalar', 1, d)
        for j, rv in enumerate(r.returns):
            L.check_pair(rep, 'act_two.mul_scalar', '(v, p) at d=%d path %d'
                         % (d, j), rv.items[0], rv.items[1])
        r = an.run('act_one.norm', 1, d)
        for j, rv in enumerate(r.returns):
            L.check_pair(rep, 'act_one.norm', '(sqrt(v), p/2) at d=%d path %d'
                         % (d, j), rv.items[0], rv.items[1])
        r = an.run('act_two.accuracy', 0, d)
        n_q = 0
        for j, rv in enumerate(r.returns):
            if rv.has_const():
                continue            # saturation / sentinel constants
            n_q += 1
            L.check_pair(rep, 'act_two.accuracy', 'c * z1 / z2 at d=%d' % d,
                         rv, None)
        if n_q == 0:
            rep.error('act_two.accuracy: quotient return path not found')
        for k in range(d):
            v = dict(Y='tt', k=('lit', k), use_stab=('lit', True))
            r = an.run('transformation.orthogonalize', 0, d, variant=v,
                       extra_key=('stab', k))
            for j, rv in enumerate(r.returns):
                L.check_pair(rep, 'transformation.orthogonalize',
                             '(Z, p) for pivot %d at d=%d' % (k, d),
                             rv.items[0], rv.items[1])
        for vi, v in enumerate(specs.variants('transformation.truncate')):
            if v.get('use_stab') != ('lit', True):
                continue
            r = an.run('transformation.truncate', vi, d)
            for j, rv in enumerate(r.returns):
                L.check_pair(rep, 'transformation.truncate',
                             'cores after the 2**(p/d) epilogue at d=%d' % d,
                             rv, None)
        # optima_tt_beam: the running matrix Q carries scale 0 at the end
        import ast as _ast0
        qname = None            # the array re-scaled in place by 2**p0
        for node in _ast0.walk(prog.func('optima.optima_tt_beam').node):
            if isinstance(node, _ast0.AugAssign) and \
                    isinstance(node.op, _ast0.Mult) and \
                    isinstance(node.target, _ast0.Name) and \
                    isinstance(node.value, _ast0.BinOp) and \
                    isinstance(node.value.op, _ast0.Pow) and \
                    isinstance(node.value.left, _ast0.Constant) and \
                    node.value.left.value == 2:
                qname = node.target.id
        for vi in (0, 1):
            got = []

            def hook(I, fn, outs, got=got):
                for o in outs:
                    if o.kind == 'ret' and qname in o.env:
                        got.append(o.env[qname])
            key = ('beam-hook', vi)
            from .. import interp
            I = interp.Interp(prog, {'split': dict(specs.DEFAULT_SPLIT),
                                     'summary': dict(specs.DEFAULT_SUMMARY)})
            I.trace_hooks['optima.optima_tt_beam'] = hook
            I.run_function(prog.func('optima.optima_tt_beam'),
                           specs.build_args(
                               specs.variants('optima.optima_tt_beam')[vi], d))
            for q in got:
                L.check_pair(rep, 'optima.optima_tt_beam',
                             'running matrix Q after the last core '
                             '(variant %d, d=%d)' % (vi, d), q, None)
    import ast as _ast
    fcs = prog.func('core.core_stab')
    okm = False
    # the scaling reference = the variable whose log2 gives the exponent
    ref = None
    for node in _ast.walk(fcs.node):
        if isinstance(node, _ast.Call) and \
                (prog.dotted(node.func) or '').endswith('log2') and \
                node.args and isinstance(node.args[0], _ast.Name):
            ref = node.args[0].id
    for node in _ast.walk(fcs.node):
        if isinstance(node, _ast.Assign) and \
                isinstance(node.targets[0], _ast.Name) and \
                node.targets[0].id == ref and \
                isinstance(node.value, _ast.Call):
            from .. import roles as _roles
            val_ = _roles.inline(fcs.node, node.value)
            outer = (prog.dotted(val_.func) or '').split('.')[-1]
            inner = val_.args[0] if val_.args else None
            iname = (prog.dotted(inner.func) or '').split('.')[-1] \
                if isinstance(inner, _ast.Call) else (
                    'abs' if isinstance(inner, _ast.Call) else None)
            okm = outer in ('max', 'amax') and iname in ('abs', 'absolute')
    rep.add('P-maxmod', 'core.core_stab', 'scaling reference = max(abs(G))',
            'ok' if okm else ('violation' if ref is not None else 'unknown'),
            '' if okm else 'the scaling reference must be the largest modulus '
            'of the core (maximum of the absolute values); anything else '
            'under-scales cores whose dominant entry is negative',
            line=fcs.node.lineno, file=fcs.module.path)
    L.check_saturation(prog, rep)
    L.check_stab_per_step(prog, rep)
    L.check_stab_unconditional(prog, rep)
    rep.floor('P-stab-every', 3, 'unconditional per-step re-scaling')
    rep.floor('U-ledger', 14, 'ledger identities')
    rep.floor('P-sat', 1, 'saturation guard')
    rep.floor('P-stab-step', 2, 'per-step stabilisation')
    rep.floor('G-log', 1, 'guarded log2')
    rep.floor('P-int', 2, 'integer exponent')
