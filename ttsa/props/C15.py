"""C15 — optimum search (structural clauses)."""
import ast

from .. import model, paths, specs, interp, rules_ledger as L
from ..values import AV as AV_
from .common import decided_split, pre, S_RULES, sweep
from ..poly import Poly


def _names(node):
    return [x.id for x in ast.walk(node) if isinstance(x, ast.Name)]


def check(an, rep, tier):
    prog = an.prog
    # the running candidate matrix is the plain name that is fed back into the
    # sweep contraction (an einsum operand that is re-bound inside the loop)
    import ast as _astR
    _fnR = prog.func('optima.optima_tt_beam')
    _stored = {}
    for _n in _astR.walk(_fnR.node):
        if isinstance(_n, _astR.Name) and isinstance(_n.ctx, _astR.Store):
            _stored[_n.id] = _stored.get(_n.id, 0) + 1
    _RUNNING = set()
    for _n in _astR.walk(_fnR.node):
        if isinstance(_n, _astR.Call) and \
                (prog.dotted(_n.func) or '').endswith('einsum'):
            for _a in _n.args[1:]:
                if isinstance(_a, _astR.Name) and _stored.get(_a.id, 0) >= 2:
                    _RUNNING.add(_a.id)
    rep.explanation = decided_split(
        'S-layout in the beam search the candidate matrix Q (rows k (x) n '
        'after the C-order reshape) and both halves of the extended index '
        'table (Kronecker products) enumerate the composite row in the same '
        'order, and the same selection `ind` is applied to both, in both '
        'sweep directions (layout facet with ordered products); O-pivot the '
        'orthogonalisation pivot is the first core of the sweep in each '
        'direction; U-ledger the scale 2**(p/d) is applied once per core; '
        'V-provenance every reported value is get(Y, i) of the argument '
        'tensor at the reported index (optima_tt_max, optima_tt, optima_qtt); '
        'P-order optima_tt returns (i_min, y_min, i_max, y_max) with the '
        'value proven smaller in the min slot; P-domain optima_qtt rejects '
        'unequal and non-power-of-two mode sizes and maps indices back with '
        'the same q; S-* contractions are dimension consistent.',
        'exactness under a full beam / rank 1, numerical range of the '
        'candidate norms, optima_tt_maxvol (experimental).')
    rep.assumptions = pre('PRE-TT', 'PRE-D', 'PRE-DOC')
    rep.trusted = ['NumPy model (kron: second operand fastest; reshape '
                   'orders)']
    ds = (2, 3) if tier == 'quick' else (2, 3, 4, 5)
    wh = {'optima.optima_tt_beam', 'optima.optima_tt_max', 'optima.optima_tt',
          'optima.optima_qtt', 'optima_func.optima_func_tt_beam',
          'optima_func._step_top_k',
          # the shifted tensor of optima_tt is built with sub / const / mul
          'act_two.add', 'act_two.sub', 'act_two.mul', 'tensors.const'}
    runs = sweep(an, rep, ['optima.optima_tt_beam', 'optima.optima_tt_max',
                           'optima.optima_tt'], ds,
                 rules=S_RULES + ['S-layout'], wheres=wh)
    for r in runs:
        if r.qualname == 'optima.optima_tt_beam':
            rv = r.result
            want_nd = 2 if r.variant.get('ret_all') == ('lit', True) else 1
            ok = rv.k == 'arr' and rv.dims is not None and \
                len(rv.dims) == want_nd and rv.dims[-1] is not None and \
                rv.dims[-1].as_int() == r.d and rv.dt == 'i'
            typed = rv.k == 'arr' and rv.dims is not None
            rep.add('S-ret', r.qualname, 'index of width d for %s' % r.tag(),
                    'ok' if ok else ('violation' if typed else 'unknown'),
                    '' if ok else repr(rv))
    # --- O-pivot, on the typestates of the abstract run (no names, no
    # statement shapes): in each direction the orthogonalisation pivot is the
    # core the sweep starts from (0 for left-to-right, d-1 otherwise) and every
    # core contracted in the sweep is orthonormal on the side that faces away
    # from the pivot (rows for left-to-right, columns for right-to-left).
    fn = prog.func('optima.optima_tt_beam')
    mod = fn.module
    from .. import roles, rules_formula as F_
    dir_par = 'l2r'                                  # documented parameter
    for r in runs:
        if r.qualname != 'optima.optima_tt_beam':
            continue
        l2r = r.variant.get('l2r', ('lit', True)) != ('lit', False)
        want_piv = 0 if l2r else r.d - 1
        want_o = 'rows3' if l2r else 'cols3'
        pivs = [a_.get('k') for (q_, a_, _) in r.I.call_log
                if q_ == 'transformation.orthogonalize']
        for pv in pivs:
            c_ = pv.c if pv is not None and pv.has_const() else None
            st_ = 'unknown' if c_ is None else (
                'ok' if c_ == want_piv else 'violation')
            rep.add('O-pivot', 'optima.optima_tt_beam', 'pivot of the '
                    'orthogonalisation for %s' % r.tag(), st_,
                    '' if st_ == 'ok' else 'the tensor is orthogonalised to '
                    'core %s while the %s sweep starts from core %d: the '
                    'pivot, the first core and the sweep must match'
                    % (c_, 'left-to-right' if l2r else 'right-to-left',
                       want_piv), line=fn.node.lineno, file=mod.path)
        for s_ in r.I.sites:
            if s_.rule != 'O-contract' or \
                    not s_.where.startswith('optima.'):
                continue
            cores = [o for o, nd in zip(s_.facts['orth'], s_.facts['ndim'])
                     if nd == 3]
            if len(cores) != 1:
                continue
            o = cores[0]
            st_ = 'ok' if o == want_o else (
                'violation' if o in ('cols3', 'rows3', 'weighted3', 'half3')
                else 'unknown')
            rep.add('O-pivot', 'optima.optima_tt_beam', 'core contracted in '
                    'the sweep (%s, line %d)' % (r.tag(), s_.node.lineno), st_,
                    '' if st_ == 'ok' else 'the swept core has typestate %s, '
                    'the %s sweep needs %s: the candidate norms are the norms '
                    'of the partial tensors only when the cores still to come '
                    'are orthonormal' % (o, 'left-to-right' if l2r else
                                         'right-to-left', want_o),
                    line=s_.node.lineno, file=mod.path)
    # --- P-normalise: squares are taken of Q scaled by its largest modulus
    okn = False
    qmax_names = set()
    for node in ast.walk(fn.node):
        if isinstance(node, ast.Assign) and \
                isinstance(node.targets[0], ast.Name) and \
                isinstance(node.value, ast.Call) and \
                (prog.dotted(node.value.func) or '').split('.')[-1] in (
                    'max', 'amax') and \
                any(isinstance(x, ast.Call) and
                    (prog.dotted(x.func) or '').split('.')[-1] in ('abs',
                                                                    'absolute')
                    for x in ast.walk(roles.inline(fn.node, node.value))):
            qmax_names.add(node.targets[0].id)
    n_sq = 0
    for x in ast.walk(fn.node):
        if isinstance(x, ast.BinOp) and isinstance(x.op, ast.Pow) and \
                isinstance(x.right, ast.Constant) and x.right.value == 2 and \
                not isinstance(x.left, ast.Constant):
            n_sq += 1
            base = x.left
            if isinstance(base, ast.BinOp) and \
                    isinstance(base.op, ast.Div) and \
                    isinstance(base.right, ast.Name) and \
                    base.right.id in qmax_names:
                okn = True
            else:
                okn = False
                break
    rep.add('P-normalise', 'optima.optima_tt_beam', 'norms = sum((Q / '
            'max|Q|)**2)', 'ok' if okn else ('violation' if n_sq
                                              else 'unknown'),
            '' if okn else 'the squared candidate norms are no longer taken '
            'of Q scaled by its largest modulus: the squares under- / '
            'overflow for representable tensors and all candidates tie',
            line=fn.node.lineno, file=mod.path)
    # --- P-select: the candidates are re-ordered by decreasing norm at EVERY
    # step (the first row is returned as the best one): the statements that
    # apply the argsort permutation depend on the direction flag only
    sel_names = {n_.targets[0].id for n_ in ast.walk(fn.node)
                 if isinstance(n_, ast.Assign) and
                 isinstance(n_.targets[0], ast.Name) and
                 any(isinstance(c, ast.Call) and
                     (prog.dotted(c.func) or '').endswith('argsort')
                     for c in ast.walk(n_.value))}
    n_sel = 0
    for n_ in ast.walk(fn.node):
        if isinstance(n_, ast.Assign) and \
                any(isinstance(x, ast.Subscript) and any(
                    isinstance(y, ast.Name) and y.id in sel_names
                    for y in ast.walk(x.slice)) for x in ast.walk(n_.value)):
            n_sel += 1
            gs_ = paths.guard_atoms(paths.step_guards(fn.node, n_))
            extra = [paths.src(mod, t) for t, pol in gs_
                     if not (isinstance(t, ast.Name) and t.id == dir_par)]
            rep.add('P-select', 'optima.optima_tt_beam',
                    'selection #%d by the argsort permutation is '
                    'unconditional' % n_sel,
                    'ok' if not extra else 'violation',
                    '' if not extra else 'the candidates are re-ordered only '
                    'under %s: when the test fails the first candidate is not '
                    'the one of largest norm, yet it is returned as the '
                    'optimum' % extra, line=n_.lineno, file=mod.path)
    # --- ledger: the running matrix is the array that is re-scaled in place
    # by 2**p0 (found from that statement, whatever it is called)
    for d in ds:
        for vi in (0, 1):
            got = []

            def hook(I, fn_, outs, got=got):
                # the running candidate matrix: the 2-d float array(s) that
                # carry an exponent ledger when the function returns
                for o in outs:
                    if o.kind != 'ret':
                        continue
                    for nm_, v_ in o.env.items():
                        if nm_ in _RUNNING and isinstance(v_, AV_) and \
                                v_.k == 'arr' and \
                                v_.dims is not None and len(v_.dims) == 2 \
                                and v_.dt != 'i' and v_.lg is not None:
                            got.append(v_)
            I = interp.Interp(prog, {'split': dict(specs.DEFAULT_SPLIT),
                                     'summary': dict(specs.DEFAULT_SUMMARY)})
            I.trace_hooks['optima.optima_tt_beam'] = hook
            I.run_function(fn, specs.build_args(
                specs.variants('optima.optima_tt_beam')[vi], d))
            for q in got:
                L.check_pair(rep, 'optima.optima_tt_beam', 'running matrix Q '
                             'after the last core (variant %d, d=%d)'
                             % (vi, d), q, None)
    # --- V-provenance
    # --- V-provenance: every reported value is the entry of the ARGUMENT
    # tensor at the reported index.  Decided on the abstract run (object
    # identity of the abstract values; no variable names involved): a reported
    # (index, value) pair is accepted when the value is the result of a call
    # get(T, i) with T the argument tensor itself and i the very index that is
    # returned, or when the pair is the result of optima_tt_max(T, .).
    fq = prog.func('optima.optima_qtt')
    ft = prog.func('optima.optima_tt')
    fm = prog.func('optima.optima_tt_max')

    def is_arg_tensor(v):
        return v is not None and v.k == 'list' and v.label == ('P', 'Y')

    def pair_status(I, i, y):
        # the pair returned by optima_tt_max(T, .) as a whole comes first (a
        # join of untyped values may hand back one of its operands, so the
        # identity of an UNTYPED value alone does not identify a get() call)
        log = sorted(I.call_log, key=lambda e: e[0] != 'optima.optima_tt_max')
        for q, args, res in log:
            if q == 'act_one.get' and res is y:
                if y.k == 'top':
                    continue
                if args.get('i') is i and is_arg_tensor(args.get('Y')):
                    return 'ok', ''
                if not is_arg_tensor(args.get('Y')):
                    return 'violation', 'the reported value is read from a ' \
                        'derived tensor, not from the argument'
                return 'violation', 'the reported value is get(Y, j) for an ' \
                    'index j that is not the reported one'
            if q == 'optima.optima_tt_max' and res.k == 'tuple' and \
                    res.items and len(res.items) == 2 and \
                    res.items[1] is y:
                if res.items[0] is i and is_arg_tensor(args.get('Y')):
                    return 'ok', ''
                if not is_arg_tensor(args.get('Y')):
                    return 'violation', 'the reported value is the optimum ' \
                        'of a derived tensor (shifted / squared), not an ' \
                        'entry of the argument'
                return 'violation', 'index and value come from different ' \
                    'searches'
        return 'unknown', 'provenance of the reported value not recognised'

    o_ = {'split': dict(specs.DEFAULT_SPLIT),
          'summary': dict(specs.DEFAULT_SUMMARY)}
    for fx, spec in ((ft, 'tt'), (fq, 'ttm8')):
        I = interp.Interp(prog, dict(o_))
        I.run_function(fx, {'Y': specs.build(spec, 'Y', 2)})
        n_ret = 0
        for rv in I.entry_returns:
            if rv.k != 'tuple' or not rv.items or len(rv.items) != 4:
                continue
            n_ret += 1
            for a_, b_, nm in ((0, 1, 'first'), (2, 3, 'second')):
                st, detail = pair_status(I, rv.items[a_], rv.items[b_])
                rep.add('V-provenance', fx.qualname, '%s (index, value) pair '
                        'of return path %d is an entry of the argument tensor '
                        'at the reported index' % (nm, n_ret), st, detail,
                        line=fx.node.lineno, file=fx.module.path)
    # optima_tt_max: the values are get(<argument>, i) mapped over the very
    # list of candidate indices, and index / value are selected by one position
    st, detail = 'unknown', 'pattern not recognised'
    for node in ast.walk(fm.node):
        if not (isinstance(node, ast.Return) and
                isinstance(node.value, ast.Tuple) and
                len(node.value.elts) == 2 and
                all(isinstance(e, ast.Subscript) and
                    isinstance(e.value, ast.Name) for e in node.value.elts)):
            continue
        ei, ev = node.value.elts
        same_pos = ast.dump(ei.slice) == ast.dump(ev.slice)
        comp = None
        for n2 in ast.walk(fm.node):
            if isinstance(n2, ast.Assign) and \
                    isinstance(n2.targets[0], ast.Name) and \
                    n2.targets[0].id == ev.value.id and \
                    isinstance(n2.value, ast.ListComp):
                comp = n2.value
        if comp is None or len(comp.generators) != 1:
            continue
        g = comp.generators[0]
        call = comp.elt
        from .. import roles as _roles
        a_y = _roles.arg(prog, fm.module, call, 'Y', 0) \
            if isinstance(call, ast.Call) else None
        a_i = _roles.arg(prog, fm.module, call, 'i', 1) \
            if isinstance(call, ast.Call) else None
        good = isinstance(call, ast.Call) and \
            (prog.dotted(call.func) or '').split('.')[-1] == 'get' and \
            isinstance(a_y, ast.Name) and a_y.id == fm.params[0] and \
            isinstance(a_i, ast.Name) and \
            isinstance(g.target, ast.Name) and \
            a_i.id == g.target.id and \
            isinstance(g.iter, ast.Name) and g.iter.id == ei.value.id and \
            not g.ifs
        if good and same_pos:
            st, detail = 'ok', ''
        else:
            st, detail = 'violation', (
                'index and value of the best candidate are selected by '
                'different positions' if not same_pos else
                'the candidate values are not get(%s, i) mapped over the '
                'list of candidate indices' % fm.params[0])
    rep.add('V-provenance', 'optima.optima_tt_max', 'values are get(Y, i) '
            'for the candidate indices, index and value selected by the same '
            'position', st, detail, line=fm.node.lineno, file=fm.module.path)
    # --- P-order: on every return path the guards imply
    #     <value in the min slot>  <=  <value in the max slot>
    # (pairing of indices with values is V-provenance above)
    rets4 = [n for n in ast.walk(ft.node) if isinstance(n, ast.Return) and
             isinstance(n.value, ast.Tuple) and len(n.value.elts) == 4]
    ok = bool(rets4)
    reversed_ = False
    for rn in rets4:
        lo_, hi_ = rn.value.elts[1], rn.value.elts[3]
        gs_ = paths.guards_of(ft.node, rn)
        ok = ok and (paths.holds(gs_, lo_, ast.Lt, hi_) or
                     paths.holds(gs_, lo_, ast.LtE, hi_))
        # found-but-wrong: the guards prove the OPPOSITE order, or the two
        # orders are chosen by a test that does not compare the two values
        if paths.holds(gs_, hi_, ast.Lt, lo_):
            reversed_ = True
        if len(rets4) >= 2 and gs_ and not (
                paths.holds(gs_, lo_, ast.Lt, hi_) or
                paths.holds(gs_, lo_, ast.LtE, hi_)):
            reversed_ = True
    rep.add('P-order', 'optima.optima_tt', 'min slot receives the value the '
            'guard proved not larger, indices travel with their values',
            'ok' if ok else ('violation' if reversed_ else 'unknown'),
            '' if ok else 'the (i_min, y_min, i_max, y_max) tuple is not '
            'ordered consistently with the comparison')
    # --- P-domain (shared with C17)
    o = {'split': dict(specs.DEFAULT_SPLIT),
         'summary': dict(specs.DEFAULT_SUMMARY)}
    for spec, bad in (('ttm6', True), ('ttm8', False)):
        I = interp.Interp(prog, dict(o))
        I.run_function(fq, {'Y': specs.build(spec, 'Y', 2)})
        from .common import dom3
        st3, d3 = dom3(I.raises, I.entry_returns, bad)
        rep.add('P-domain', 'optima.optima_qtt', 'mode size %s %s'
                % (spec[3:], 'rejected' if bad else 'accepted'),
                st3, '' if st3 == 'ok' else d3)
    I = interp.Interp(prog, dict(o))
    Y = specs.build('tt', 'Y', 2)
    I.run_function(fq, {'Y': Y})
    n_raise = sum(1 for x in I.raises if x[1] == 'ValueError')
    rep.add('P-domain', 'optima.optima_qtt', 'unequal mode sizes can be '
            'rejected', 'ok' if n_raise >= 1 else 'violation', '')
    # the exponent q = int(log2(n)) that was checked against the mode size
    # is the one used to map the indices back
    from .. import roles as _roles

    def _is_int_log2(v):
        v = _roles.inline(fq.node, v)
        return isinstance(v, ast.Call) and isinstance(v.func, ast.Name) and \
            v.func.id == 'int' and any(
                isinstance(c, ast.Call) and
                (prog.dotted(c.func) or '').endswith('log2')
                for c in ast.walk(v))
    qdef = {n_.targets[0].id for n_ in ast.walk(fq.node)
            if isinstance(n_, ast.Assign) and
            isinstance(n_.targets[0], ast.Name) and _is_int_log2(n_.value)}
    qs = set()
    for node in ast.walk(fq.node):
        if isinstance(node, ast.Call) and \
                (prog.dotted(node.func) or '').endswith('ind_qtt_to_tt'):
            from .. import roles as _roles
            a1 = _roles.arg(prog, fq.module, node, 'q', 1)
            if isinstance(a1, ast.Name):
                qs.add(a1.id)
            elif a1 is not None and any(
                    isinstance(x_, ast.Name) and x_.id in qdef
                    for x_ in ast.walk(a1)):
                # computed FROM the checked exponent (q - 1, 2 * q): another
                # value than the one that was checked
                qs.add('<%s>' % ast.unparse(a1))
            else:
                qs.add(None)
    rep.add('P-domain', 'optima.optima_qtt', 'indices mapped back with the '
            'checked exponent', 'ok' if qs and qs <= qdef and len(qdef) == 1
            else ('unknown' if (not qdef or not qs or None in qs)
                  else 'violation'), '' if qs and qs <= qdef else
            'ind_qtt_to_tt receives %s, the checked exponent is %s'
            % (sorted(map(str, qs)), sorted(qdef)))
    from .. import rules_proto as _RP
    _callers = {f.qualname for f in prog.all_functions()
                if f.module.name in ('optima', 'optima_func')}
    _RP.check_param_forwarding(prog, rep, callers=_callers)
    from .. import rules_proto as _RPZ
    _RPZ.check_none_vs_zero(prog, rep, modules={'optima', 'optima_func'})
    # --- P-endpoints: ``if E not in L: L.append(E')`` in the functional
    # variant's one-dimensional maximiser -- the candidate that is added is
    # the one whose absence was tested (both ends of the clip interval must
    # reach the candidate list; a maximum modulus attained only at an end
    # point is otherwise never evaluated).  Three-valued: the same
    # expression = ok; two different constant components of the same
    # container = violation; any other spelling = unknown (no floor).
    for _f in prog.all_functions():
        if _f.module.name != 'optima_func':
            continue
        for _if in ast.walk(_f.node):
            if not isinstance(_if, ast.If):
                continue
            _atoms = _if.test.values if (isinstance(_if.test, ast.BoolOp) and
                isinstance(_if.test.op, ast.And)) else [_if.test]
            for _a in _atoms:
                if not (isinstance(_a, ast.Compare) and len(_a.ops) == 1 and
                        isinstance(_a.ops[0], ast.NotIn) and
                        isinstance(_a.comparators[0], ast.Name)):
                    continue
                _L = _a.comparators[0].id
                for _st in _if.body:
                    _c = _st.value if isinstance(_st, ast.Expr) else None
                    if not (isinstance(_c, ast.Call) and
                            isinstance(_c.func, ast.Attribute) and
                            _c.func.attr == 'append' and
                            isinstance(_c.func.value, ast.Name) and
                            _c.func.value.id == _L and len(_c.args) == 1):
                        continue
                    _e0 = _roles.inline(_f.node, _a.left)
                    _e1 = _roles.inline(_f.node, _c.args[0])
                    if ast.unparse(_e0) == ast.unparse(_e1):
                        _st3 = 'ok'
                    elif (isinstance(_e0, ast.Subscript) and
                          isinstance(_e1, ast.Subscript) and
                          ast.unparse(_e0.value) == ast.unparse(_e1.value) and
                          isinstance(_e0.slice, ast.Constant) and
                          isinstance(_e1.slice, ast.Constant) and
                          _e0.slice.value != _e1.slice.value):
                        _st3 = 'violation'
                    else:
                        _st3 = 'unknown'
                    rep.add('P-endpoints', _f.qualname, 'the candidate '
                            'appended to %s is the one whose '
                            'absence was tested (%s)' % (
                                _L, ast.unparse(_a.left)), _st3,
                            '' if _st3 == 'ok' else 'tested %s, appended %s'
                            % (ast.unparse(_a.left),
                               ast.unparse(_c.args[0])),
                            line=_c.lineno, file=_f.module.path)
    rep.floor('S-layout', 3, 'beam layouts')
    rep.floor('V-provenance', 4, 'value provenance')
    rep.floor('U-ledger', 4, 'beam ledger')
    from .. import rules_formula as _RF, rules_sym as _RS
    from ..poly import Poly as _P
    _RF.check_basis_values(prog, rep, 'optima_func._cheb_my_poly', 'n', 'X',
                           first=_RF.Rat(_P.sym('@sqrt(0.5)')))
    rep.floor('F-basis', 4, 'normalised Chebyshev basis of the functional variant')
    rep.floor('P-select', 2, 'candidate ordering')
    rep.floor('P-order', 1, 'min / max slots')
    rep.floor('O-pivot', 8, 'pivot typestates')
    rep.floor('S-einsum', 2, 'beam contractions')
