"""C15 — optimum search (structural clauses)."""
import ast

from .. import model, paths, specs, interp, rules_ledger as L
from .common import decided_split, pre, S_RULES, sweep
from ..poly import Poly


def _names(node):
    return [x.id for x in ast.walk(node) if isinstance(x, ast.Name)]


def check(an, rep, tier):
    prog = an.prog
    rep.explanation = decided_split(
        'S-layout in the beam search the candidate matrix Q (rows k (x) n '
        'after the C-order reshape) and both halves of the extended index '
        'table (Kronecker products) enumerate the composite row in the same '
        'order, and the same selection `ind` is applied to both, in both '
        'sweep directions (layout facet with ordered products); O-pivot the '
        'orthogonalisation pivot is the first core of the sweep in each '
        'direction; U-ledger the scale 2**(p/d) is applied once per core; '
        'V-provenance every reported value is get(Y, i) of the argument '
        'tensor at the reported index (optima_tt_max, optima_tt, optima_qtt); '
        'P-order optima_tt returns (i_min, y_min, i_max, y_max) with the '
        'value proven smaller in the min slot; P-domain optima_qtt rejects '
        'unequal and non-power-of-two mode sizes and maps indices back with '
        'the same q; S-* contractions are dimension consistent.',
        'exactness under a full beam / rank 1, numerical range of the '
        'candidate norms, optima_tt_maxvol (experimental).')
    rep.assumptions = pre('PRE-TT', 'PRE-D', 'PRE-DOC')
    rep.trusted = ['NumPy model (kron: second operand fastest; reshape '
                   'orders)']
    ds = (2, 3) if tier == 'quick' else (2, 3, 4)
    wh = {'optima.optima_tt_beam', 'optima.optima_tt_max', 'optima.optima_tt',
          'optima.optima_qtt', 'optima_func.optima_func_tt_beam',
          'optima_func._step_top_k'}
    runs = sweep(an, rep, ['optima.optima_tt_beam', 'optima.optima_tt_max',
                           'optima.optima_tt'], ds,
                 rules=S_RULES + ['S-layout'], wheres=wh)
    for r in runs:
        if r.qualname == 'optima.optima_tt_beam':
            rv = r.result
            want_nd = 2 if r.variant.get('ret_all') == ('lit', True) else 1
            ok = rv.k == 'arr' and rv.dims is not None and \
                len(rv.dims) == want_nd and rv.dims[-1] is not None and \
                rv.dims[-1].as_int() == r.d and rv.dt == 'i'
            rep.add('S-ret', r.qualname, 'index of width d for %s' % r.tag(),
                    'ok' if ok else 'violation', '' if ok else repr(rv))
    # --- O-pivot
    fn = prog.func('optima.optima_tt_beam')
    mod = fn.module
    piv = first = loop = None
    for node in ast.walk(fn.node):
        if isinstance(node, ast.Call) and \
                (prog.dotted(node.func) or '').endswith('orthogonalize'):
            piv = node.args[1] if len(node.args) > 1 else None
        if isinstance(node, ast.Assign) and \
                isinstance(node.targets[0], ast.Name) and \
                node.targets[0].id == 'G' and \
                isinstance(node.value, ast.Subscript) and first is None:
            first = node.value.slice
        if isinstance(node, ast.For) and isinstance(node.iter, ast.IfExp):
            loop = node.iter

    def ifexp(n):
        if isinstance(n, ast.IfExp) and isinstance(n.test, ast.Name) and \
                n.test.id == 'l2r':
            return (paths.src(mod, n.body).replace(' ', ''),
                    paths.src(mod, n.orelse).replace(' ', ''))
        return None
    p, f, lp = ifexp(piv), ifexp(first), ifexp(loop)
    ok = p in (('0', 'len(Y)-1'), ('0', 'd-1')) and f == ('0', '-1') and \
        lp == ('Z[1:]', 'Z[:-1][::-1]')
    rep.add('O-pivot', 'optima.optima_tt_beam',
            'pivot %s / first core %s / sweep %s' % (p, f, lp),
            'ok' if ok else 'violation',
            '' if ok else 'in each direction the pivot of the '
            'orthogonalisation, the first core and the remaining sweep must '
            'match (l2r: 0, Z[0], Z[1:]; r2l: d-1, Z[-1], reversed Z[:-1])',
            line=fn.node.lineno, file=mod.path)
    # --- P-normalise: squares are taken of Q scaled by its largest modulus
    okn = False
    qmax_names = set()
    for node in ast.walk(fn.node):
        if isinstance(node, ast.Assign) and \
                isinstance(node.targets[0], ast.Name) and \
                isinstance(node.value, ast.Call) and \
                (prog.dotted(node.value.func) or '').split('.')[-1] in (
                    'max', 'amax') and \
                any(isinstance(x, ast.Call) and
                    (prog.dotted(x.func) or '').split('.')[-1] in ('abs',
                                                                    'absolute')
                    for x in ast.walk(node.value)):
            qmax_names.add(node.targets[0].id)
    for node in ast.walk(fn.node):
        if isinstance(node, ast.Assign) and \
                isinstance(node.targets[0], ast.Name) and \
                node.targets[0].id == 'norms':
            for x in ast.walk(node.value):
                if isinstance(x, ast.BinOp) and isinstance(x.op, ast.Pow):
                    base = x.left
                    if isinstance(base, ast.BinOp) and \
                            isinstance(base.op, ast.Div) and \
                            isinstance(base.right, ast.Name) and \
                            base.right.id in qmax_names:
                        okn = True
    rep.add('P-normalise', 'optima.optima_tt_beam', 'norms = sum((Q / '
            'max|Q|)**2)', 'ok' if okn else 'violation',
            '' if okn else 'the squared candidate norms are no longer taken '
            'of Q scaled by its largest modulus: the squares under- / '
            'overflow for representable tensors and all candidates tie',
            line=fn.node.lineno, file=mod.path)
    # --- ledger
    for d in ds:
        for vi in (0, 1):
            got = []

            def hook(I, fn_, outs, got=got):
                for o in outs:
                    if o.kind == 'ret' and 'Q' in o.env:
                        got.append(o.env['Q'])
            I = interp.Interp(prog, {'split': dict(specs.DEFAULT_SPLIT),
                                     'summary': dict(specs.DEFAULT_SUMMARY)})
            I.trace_hooks['optima.optima_tt_beam'] = hook
            I.run_function(fn, specs.build_args(
                specs.variants('optima.optima_tt_beam')[vi], d))
            for q in got:
                L.check_pair(rep, 'optima.optima_tt_beam', 'running matrix Q '
                             'after the last core (variant %d, d=%d)'
                             % (vi, d), q, None)
    # --- V-provenance
    def value_is_get_of_param(fn, val_name, idx_name, param='Y'):
        """val_name is assigned teneva.get(<param>, idx_name)."""
        for node in ast.walk(fn.node):
            if isinstance(node, ast.Assign) and \
                    isinstance(node.targets[0], ast.Name) and \
                    node.targets[0].id == val_name and \
                    isinstance(node.value, ast.Call) and \
                    (prog.dotted(node.value.func) or '').endswith('.get'):
                a = node.value.args
                return len(a) >= 2 and isinstance(a[0], ast.Name) and \
                    a[0].id == param and isinstance(a[1], ast.Name) and \
                    a[1].id == idx_name
        return None
    fq = prog.func('optima.optima_qtt')
    for vn, inn in (('y_min', 'i_min'), ('y_max', 'i_max')):
        ok = value_is_get_of_param(fq, vn, inn)
        rep.add('V-provenance', 'optima.optima_qtt', '%s = get(Y, %s)'
                % (vn, inn), 'ok' if ok else 'violation',
                '' if ok else 'the reported value is not the entry of the '
                'argument tensor at the reported (back-mapped) index')
    ft = prog.func('optima.optima_tt')
    ok = value_is_get_of_param(ft, 'y2', 'i2')
    rep.add('V-provenance', 'optima.optima_tt', 'y2 = get(Y, i2)',
            'ok' if ok else 'violation',
            '' if ok else 'the second optimum is not evaluated on the '
            'argument tensor (the squared shifted tensor must only supply the '
            'index)')
    fm = prog.func('optima.optima_tt_max')
    mod_m = fm.module
    txt = model.norm_src(mod_m, fm.node).replace(' ', '')
    ok = 'y_max_list=[teneva.get(Y,i)foriini_max_list]' in txt and \
        'returni_max_list[index_best],y_max_list[index_best]' in txt
    rep.add('V-provenance', 'optima.optima_tt_max', 'values are get(Y, i) '
            'for the candidate indices, index and value selected by the same '
            'position', 'ok' if ok else 'violation',
            '' if ok else 'index / value pairing of the best candidate '
            'changed')
    # --- P-order
    ok = False
    for node in ast.walk(ft.node):
        if isinstance(node, ast.If) and isinstance(node.test, ast.Compare) and \
                len(node.test.ops) == 1 and \
                isinstance(node.test.left, ast.Name) and \
                isinstance(node.test.comparators[0], ast.Name):
            big, small = node.test.left.id, node.test.comparators[0].id
            if isinstance(node.test.ops[0], (ast.Lt, ast.LtE)):
                big, small = small, big
            elif not isinstance(node.test.ops[0], (ast.Gt, ast.GtE)):
                continue

            def slots(stmts):
                for s in stmts:
                    if isinstance(s, ast.Return) and \
                            isinstance(s.value, ast.Tuple) and \
                            len(s.value.elts) == 4:
                        return [getattr(e, 'id', None) for e in s.value.elts]
                return None
            t, e = slots(node.body), slots(node.orelse)
            if t and e:
                ok = t[1] == small and t[3] == big and e[1] == big and \
                    e[3] == small and t[0][1:] == t[1][1:] and \
                    t[2][1:] == t[3][1:] and e[0][1:] == e[1][1:] and \
                    e[2][1:] == e[3][1:]
    rep.add('P-order', 'optima.optima_tt', 'min slot receives the value the '
            'guard proved not larger, indices travel with their values',
            'ok' if ok else 'violation',
            '' if ok else 'the (i_min, y_min, i_max, y_max) tuple is not '
            'ordered consistently with the comparison')
    # --- P-domain (shared with C17)
    o = {'split': dict(specs.DEFAULT_SPLIT),
         'summary': dict(specs.DEFAULT_SUMMARY)}
    for spec, bad in (('ttm6', True), ('ttm8', False)):
        I = interp.Interp(prog, dict(o))
        I.run_function(fq, {'Y': specs.build(spec, 'Y', 2)})
        raised = any(x[1] == 'ValueError' for x in I.raises) and \
            not I.entry_returns
        rep.add('P-domain', 'optima.optima_qtt', 'mode size %s %s'
                % (spec[3:], 'rejected' if bad else 'accepted'),
                'ok' if raised == bad else 'violation', '')
    I = interp.Interp(prog, dict(o))
    Y = specs.build('tt', 'Y', 2)
    I.run_function(fq, {'Y': Y})
    n_raise = sum(1 for x in I.raises if x[1] == 'ValueError')
    rep.add('P-domain', 'optima.optima_qtt', 'unequal mode sizes can be '
            'rejected', 'ok' if n_raise >= 1 else 'violation', '')
    qs = set()
    for node in ast.walk(fq.node):
        if isinstance(node, ast.Call) and \
                (prog.dotted(node.func) or '').endswith('ind_qtt_to_tt'):
            qs.add(paths.src(fq.module, node.args[1]) if len(node.args) > 1
                   else None)
    rep.add('P-domain', 'optima.optima_qtt', 'indices mapped back with %s'
            % sorted(map(str, qs)), 'ok' if qs == {'q'} else 'violation', '')
    from .. import rules_proto as _RP
    _callers = {f.qualname for f in prog.all_functions()
                if f.module.name in ('optima', 'optima_func')}
    _RP.check_param_forwarding(prog, rep, callers=_callers)
    rep.floor('S-layout', 3, 'beam layouts')
    rep.floor('V-provenance', 4, 'value provenance')
    rep.floor('U-ledger', 4, 'beam ledger')
    rep.floor('S-einsum', 2, 'beam contractions')
