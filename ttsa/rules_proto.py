"""P — protocol rules of TT-cross / ALS (budget, counters, stop reasons,
interruption paths, validation).  Purpose-built queries on the structured
control flow (``paths.guards_of`` dominance + acyclic event paths)."""
import ast

from . import model, paths
from .paths import guards_of, src, subscript_key


def norm_guards(prog, fn, node):
    """Guards dominating ``node`` with single-assignment temporaries read as
    their definitions and calls of small predicate helpers read as the
    condition they compute."""
    from . import roles
    out = []
    for t, pol in guards_of(fn.node, node):
        t2 = roles.inline(fn.node, t, only=roles.scalarish)
        t2 = roles.expand_predicates(prog, fn.module, t2)
        out.append((t2, pol))
    return out


def _is_sub(node, name, key):
    return isinstance(node, ast.Subscript) and isinstance(node.value, ast.Name) \
        and node.value.id == name and isinstance(node.slice, ast.Constant) \
        and node.slice.value == key


def _len_of(node):
    """len(X) -> 'X'"""
    if isinstance(node, ast.Call) and isinstance(node.func, ast.Name) and \
            node.func.id == 'len' and len(node.args) == 1 and \
            isinstance(node.args[0], ast.Name):
        return node.args[0].id
    return None


def conjuncts(test):
    if isinstance(test, ast.BoolOp) and isinstance(test.op, ast.And):
        out = []
        for v in test.values:
            out.extend(conjuncts(v))
        return out
    return [test]


def is_budget_test(test, info, batch):
    """info['m_max'] is not None and info['m'] + len(batch) > info['m_max']"""
    cs = conjuncts(test)
    has_notnone = False
    has_cmp = False
    for c in cs:
        if isinstance(c, ast.Compare) and len(c.ops) == 1:
            if isinstance(c.ops[0], ast.IsNot) and \
                    _is_sub(c.left, info, 'm_max') and \
                    isinstance(c.comparators[0], ast.Constant) and \
                    c.comparators[0].value is None:
                has_notnone = True
            l, r = c.left, c.comparators[0]
            if isinstance(c.ops[0], ast.Lt):
                l, r = r, l
                op_ok = True
            else:
                op_ok = isinstance(c.ops[0], ast.Gt)
            if op_ok and _is_sub(r, info, 'm_max') and \
                    isinstance(l, ast.BinOp) and isinstance(l.op, ast.Add):
                a, b = l.left, l.right
                if _is_sub(b, info, 'm'):
                    a, b = b, a
                if _is_sub(a, info, 'm') and _len_of(b) == batch:
                    has_cmp = True
    return has_notnone and has_cmp


def oracle_calls(fn):
    """Calls whose callee is a parameter of fn (the user's objective)."""
    params = set(fn.all_params)
    for node in ast.walk(fn.node):
        if isinstance(node, ast.Call) and isinstance(node.func, ast.Name) and \
                node.func.id in params:
            yield node


def stores_of_key(fn_node, key):
    """All  X['key'] = value  stores -> (stmt, target, value)."""
    for node in ast.walk(fn_node):
        for t, v in paths.stores_in(node):
            sk = subscript_key(t)
            if sk and sk[1] == key:
                yield node, t, v


def stmt_of(fn_node, node):
    pm = paths.parent_map(fn_node)
    cur = node
    while cur in pm and not isinstance(cur, ast.stmt):
        cur = pm[cur]
    return cur


# ---------------------------------------------------------------------------
def _norm(prog, fn, e):
    """Expression with single-assignment temporaries and predicate helpers
    read as what they stand for."""
    from . import roles
    return roles.expand_predicates(
        prog, fn.module, roles.inline(fn.node, e, only=roles.scalarish))


_LEN_CTX = [None]       # function node whose single assignments are followed


def len_origin(e, depth=0):
    """The name X with len(e) == len(X): X itself, a map comprehension over
    X, np.array / list / tuple of such; a name bound once to such an
    expression is followed (keys = [tuple(i) for i in I])."""
    if isinstance(e, ast.Name):
        fn_node = _LEN_CTX[0]
        if fn_node is not None and depth < 4:
            from . import roles
            tab = roles.single_assignments(fn_node)
            v = tab.get(e.id)
            if v is not None and not isinstance(v, ast.Name):
                o = len_origin(v, depth + 1)
                if o is not None:
                    return o
        return e.id
    if isinstance(e, ast.ListComp) and len(e.generators) == 1 and \
            not e.generators[0].ifs:
        return len_origin(e.generators[0].iter, depth + 1)
    if isinstance(e, ast.Call) and len(e.args) >= 1 and (
            (isinstance(e.func, ast.Name) and e.func.id in ('list', 'tuple'))
            or (isinstance(e.func, ast.Attribute) and
                e.func.attr in ('array', 'asarray', 'asanyarray'))):
        return len_origin(e.args[0], depth + 1)
    return None


def _len_arg(node):
    """len(E) -> origin name of E (see len_origin); E.shape[0] likewise."""
    if isinstance(node, ast.Call) and isinstance(node.func, ast.Name) and \
            node.func.id == 'len' and len(node.args) == 1:
        return len_origin(node.args[0])
    if isinstance(node, ast.Subscript) and \
            isinstance(node.value, ast.Attribute) and \
            node.value.attr == 'shape' and \
            isinstance(node.slice, ast.Constant) and node.slice.value == 0:
        return len_origin(node.value.value)
    return None


def budget_atomiser(info, batch):
    """Atoms of the budget test:  N = (info['m_max'] is None),
    G = (info['m'] + len(batch) > info['m_max'])."""
    def is_sum(x):
        if isinstance(x, ast.BinOp) and isinstance(x.op, ast.Add):
            a, b = x.left, x.right
            if _is_sub(b, info, 'm'):
                a, b = b, a
            return _is_sub(a, info, 'm') and _len_arg(b) == batch
        return False

    def atomise(node):
        if isinstance(node, ast.Compare) and len(node.ops) == 1:
            l, r, op = node.left, node.comparators[0], type(node.ops[0])
            if op in (ast.Is, ast.IsNot) and _is_sub(l, info, 'm_max') and \
                    isinstance(r, ast.Constant) and r.value is None:
                return ('N', op is ast.Is)
            if op in (ast.Eq, ast.NotEq) and _is_sub(l, info, 'm_max') and \
                    isinstance(r, ast.Constant) and r.value is None:
                return ('N', op is ast.Eq)
            if is_sum(l) and _is_sub(r, info, 'm_max'):
                if op is ast.Gt:
                    return ('G', True)
                if op is ast.LtE:
                    return ('G', False)
            if is_sum(r) and _is_sub(l, info, 'm_max'):
                if op is ast.Lt:
                    return ('G', True)
                if op is ast.GtE:
                    return ('G', False)

            def is_rest(x):         # info['m_max'] - info['m']
                return isinstance(x, ast.BinOp) and \
                    isinstance(x.op, ast.Sub) and \
                    _is_sub(x.left, info, 'm_max') and \
                    _is_sub(x.right, info, 'm')
            if _len_arg(l) == batch and is_rest(r):
                if op is ast.Gt:
                    return ('G', True)
                if op is ast.LtE:
                    return ('G', False)
            if _len_arg(r) == batch and is_rest(l):
                if op is ast.Lt:
                    return ('G', True)
                if op is ast.GtE:
                    return ('G', False)
        return None
    return atomise


def oracle_family(prog, qual):
    """The wrapper and the private helpers of its module that (transitively)
    receive the objective: [(Function, name of its oracle parameter)]."""
    from . import roles
    root = prog.func(qual)
    out, todo, seen = [], [(root, root.params[0])], set()
    while todo:
        fn, opar = todo.pop(0)
        if fn.qualname in seen:
            continue
        seen.add(fn.qualname)
        out.append((fn, opar))
        # nested closures that call the objective as a free variable
        for sub_ in ast.walk(fn.node):
            if isinstance(sub_, ast.FunctionDef) and sub_ is not fn.node and \
                    opar not in [a.arg for a in sub_.args.args] and any(
                        isinstance(c, ast.Call) and
                        isinstance(c.func, ast.Name) and c.func.id == opar
                        for c in ast.walk(sub_)):
                nested = prog.functions.get(fn.qualname + '.' + sub_.name)
                if nested is not None:
                    todo.append((nested, opar))
        for node in ast.walk(fn.node):
            if not isinstance(node, ast.Call):
                continue
            try:
                callee = roles.callee_of(prog, fn.module, node)
            except Exception:
                callee = None
            if callee is None or callee.module is not fn.module or \
                    isinstance(callee.node, ast.Lambda):
                continue
            amap = roles.arg_names(prog, fn.module, node) or {}
            for p, a in amap.items():
                if isinstance(a, ast.Name) and a.id == opar:
                    todo.append((callee, p))
    return out


def check_func_eval(prog, rep, qual='cross._func_eval'):
    """P-budget, P-count on the objective wrapper and on the helpers it hands
    the objective to."""
    fam = oracle_family(prog, qual)
    n_calls = 0
    for fn, opar in fam:
        n_calls += _check_wrapper(prog, rep, fn, opar, qual,
                                  [f.qualname for f, _ in fam])
    if n_calls < 1:
        rep.error('%s: no call of the objective found' % qual)


def check_request_siblings(prog, rep, qual='cross._func_eval'):
    """P-sibling: the cached and the uncached request path are two
    implementations of one request.  Besides the cache lookup itself (tests
    that mention the cache or a batch) and the budget test, whatever decides
    whether the objective is asked at all must be the same on both paths --
    otherwise a run with a cache asks for values a run without one does not
    (or the other way round).  Compared only when the function itself holds
    exactly one objective call per path."""
    from .paths import guard_atoms
    fn = prog.func(qual)
    mod = fn.module
    params = fn.params
    if len(params) < 4:
        return
    cache = params[3] if 'cache' not in params else 'cache'
    calls = [c for c in oracle_calls(fn)
             if model.enclosing_function(prog, mod, c) is fn]
    if len(calls) != 2:
        return

    def names_in(t):
        return {x.id for x in ast.walk(t) if isinstance(x, ast.Name)}
    # names bound to a batch: the batch parameter and anything derived from it
    batch = {params[1]}
    changed = True
    while changed:
        changed = False
        for st in ast.walk(fn.node):
            if isinstance(st, ast.Assign) and \
                    isinstance(st.targets[0], ast.Name) and \
                    st.targets[0].id not in batch and \
                    names_in(st.value) & batch:
                batch.add(st.targets[0].id)
                changed = True
    sides = []
    for c in calls:
        gs = norm_guards(prog, fn, c)
        extra = set()
        on_cache = None
        for t, pol in guard_atoms(gs):
            nm = names_in(t)
            if cache in nm and isinstance(t, ast.Compare) and \
                    len(t.ops) == 1 and isinstance(t.ops[0],
                                                   (ast.Is, ast.IsNot)):
                on_cache = (isinstance(t.ops[0], ast.IsNot)) == bool(pol)
                continue
            if cache in nm or nm & batch:
                continue
            if any(_is_sub(x, 'info', 'm_max') or _is_sub(x, 'info', 'm')
                   for x in ast.walk(t)):
                continue            # the budget test (P-budget)
            extra.add((ast.dump(t), bool(pol), src(mod, t)))
        sides.append((on_cache, extra, c))
    if {s[0] for s in sides} != {True, False}:
        return
    a, b = sides
    diff = (a[1] - b[1]) | (b[1] - a[1])
    rep.add('P-sibling', qual, 'the cached and the uncached request are '
            'asked under the same conditions',
            'ok' if not diff else 'violation',
            '' if not diff else 'only one of the two request paths is guarded '
            'by %s: with and without a cache the objective is then asked a '
            'different number of times' % sorted(
                '%s is %s' % (x[2], x[1]) for x in diff),
            line=calls[0].lineno, file=mod.path)


def _check_wrapper(prog, rep, fn, opar, root_qual, family):
    """All tests are read with their temporaries inlined; the budget rule is
    a propositional entailment (any spelling / nesting / negation of the same
    two atoms)."""
    from . import roles
    qual = fn.qualname
    mod = fn.module
    params = fn.params
    scope = list(fn.all_params)
    anc = fn.parent
    while anc is not None:
        scope += list(anc.all_params)
        anc = anc.parent
    info = 'info' if 'info' in scope else (
        params[2] if len(params) > 2 else None)
    if info is None:
        return 0
    closures = {f_.split('.')[-1] for f_ in family
                if f_.startswith(qual + '.')}
    batch_param = params[1] if len(params) > 1 else 'I'
    _LEN_CTX[0] = fn.node
    own_nested = [x for x in ast.walk(fn.node)
                  if isinstance(x, ast.FunctionDef) and x is not fn.node]

    def _in_nested(c):
        return any(c in list(ast.walk(x)) for x in own_nested)
    escapes = [c for c in ast.walk(fn.node) if isinstance(c, ast.Call) and
               not _in_nested(c) and
               not (isinstance(c.func, ast.Name) and c.func.id == opar) and
               (any(isinstance(a, ast.Name) and a.id == opar
                    for a in list(c.args) + [k.value for k in c.keywords]) or
                (isinstance(c.func, ast.Name) and c.func.id in closures))]
    n_calls = 0
    oc_ = [c for c in ast.walk(fn.node) if isinstance(c, ast.Call) and
           isinstance(c.func, ast.Name) and c.func.id == opar and
           not _in_nested(c)]
    for call in oc_:
        n_calls += 1
        construct = src(mod, call)
        if len(call.args) != 1 or not isinstance(call.args[0], ast.Name):
            rep.unknown('P-budget', qual, construct, 'batch is not a name')
            continue
        batch = call.args[0].id
        gs = norm_guards(prog, fn, call)
        at = budget_atomiser(info, batch)
        ent = paths.entails(gs, at, lambda a: a['N'] or not a['G'])
        mentions = any(_is_sub(x, info, 'm_max')
                       for t, _ in gs for x in ast.walk(t))
        if ent:
            rep.ok('P-budget', qual, construct,
                   detail='dominated by the budget test on batch %s' % batch)
        elif ent is None:
            rep.unknown('P-budget', qual, construct, 'too many atoms')
        elif mentions and not any(
                isinstance(x, ast.Compare) and
                any(_is_sub(y, info, 'm_max') for y in ast.walk(x)) and
                any(_is_sub(y, info, 'm') for y in ast.walk(x)) and
                any(_len_arg(y) for y in ast.walk(x))
                for t, _ in gs for x in ast.walk(t)):
            # a test on info['m_max'] dominates the call, but it is not
            # written in a form whose meaning is decided here (a helper
            # predicate, a temporary for the batch length, the budget kept
            # as "what is left"): not a violation
            rep.unknown('P-budget', qual, construct,
                        'the dominating budget test is not in a recognised '
                        'form (guards: %s)' % '; '.join(
                            '%s is %s' % (ast.unparse(t), p) for t, p in gs))
        else:
            rep.violation('P-budget', qual, construct,
                          'the objective is called on batch %s although the '
                          'guards do not imply  info["m_max"] is None or '
                          'info["m"] + len(%s) <= info["m_max"]  (guards: %s)'
                          % (batch, batch,
                             '; '.join('%s is %s' % (ast.unparse(t), p)
                                       for t, p in gs) or 'none'),
                          line=call.lineno, file=mod.path)
        # the budget branch must record stop='m' and leave: the If whose
        # failing guards the call, when it holds
        for node in ast.walk(fn.node):
            if not isinstance(node, ast.If):
                continue
            t = _norm(prog, fn, node.test)
            for arm, pol in ((node.body, True), (node.orelse, False)):
                if not arm:
                    continue
                # in this arm the budget is exceeded for sure
                exceeded = paths.entails(
                    [(t, pol)], at, lambda a: (not a['N']) and a['G'])
                if not exceeded:
                    continue
                st = [v for s_ in arm for _, tg, v in stores_of_key(s_, 'stop')
                      if isinstance(v, ast.Constant)]
                if any(v.value == 'm' for v in st) and \
                        paths.always_exits(arm):
                    rep.ok('P-stop-m', qual, src(mod, node.test))
                else:
                    rep.violation('P-stop-m', qual, src(mod, node.test),
                                  'the budget branch does not record '
                                  'stop="m" and return',
                                  line=node.lineno, file=mod.path)
    # --- P-count over event paths (contradictory paths -- the same stable
    # test taken both ways -- are not paths of the program)
    stable = set(roles.single_assignments(fn.node)) | set(fn.all_params)
    multi = {n.id for n in ast.walk(fn.node)
             if isinstance(n, ast.Name) and isinstance(n.ctx, ast.Store)} \
        - set(roles.single_assignments(fn.node))

    def feasible(path):
        gs_ = []
        serial = [0]

        def atomise(node):
            # an atom over a name that is re-bound, or with a call in it, may
            # differ between two evaluations: a free atom of its own
            unstable = any(isinstance(x, ast.Name) and x.id in multi
                           for x in ast.walk(node)) or any(
                isinstance(x, ast.Call) and not (
                    isinstance(x.func, ast.Name) and x.func.id == 'len')
                for x in ast.walk(node))
            if unstable:
                serial[0] += 1
                return ('free%d' % serial[0], True)
            return None
        for e in path:
            if e.kind == 'test' and isinstance(e.node, ast.expr):
                gs_.append((_norm(prog, fn, e.node), e.pol))
        return not paths.entails(gs_, atomise, lambda a: False)
    ps = [p for p in paths.paths(fn.node) if feasible(p)]

    path_amount = {}

    def inc_amount(node):
        got = _len_arg(_norm(prog, fn, node.value))
        if got is None:
            # the amount is a name bound on THIS path to len(<batch>) (a
            # temporary that is re-used elsewhere in the function)
            got = path_amount.get(id(node))
        return got
    for path in ps:
        called = None      # (batch, result var, stmt)
        none_branch = None
        incs = []
        empty_batches = set()
        tests = []
        escaped = False
        last_len = {}
        for ev in path:
            if ev.kind == 'stmt' and isinstance(ev.node, ast.Assign) and \
                    len(ev.node.targets) == 1 and \
                    isinstance(ev.node.targets[0], ast.Name):
                ln_ = _len_arg(ev.node.value)
                if ln_:
                    last_len[ev.node.targets[0].id] = ln_
                else:
                    last_len.pop(ev.node.targets[0].id, None)
            if ev.kind == 'stmt' and isinstance(ev.node, ast.AugAssign) and \
                    isinstance(ev.node.value, ast.Name) and \
                    ev.node.value.id in last_len:
                path_amount[id(ev.node)] = last_len[ev.node.value.id]
            if ev.kind == 'stmt':
                for c in paths.calls_in(ev.node):
                    if c in escapes:
                        escaped = True      # the objective may be called there
                    if isinstance(c.func, ast.Name) and \
                            c.func.id == opar and c.args and \
                            isinstance(c.args[0], ast.Name):
                        res = None
                        if isinstance(ev.node, ast.Assign) and \
                                isinstance(ev.node.targets[0], ast.Name):
                            res = ev.node.targets[0].id
                        called = (c.args[0].id, res, ev.node)
                if isinstance(ev.node, ast.AugAssign) and \
                        _is_sub(ev.node.target, info, 'm') and \
                        isinstance(ev.node.op, ast.Add):
                    incs.append(ev.node)
            elif ev.kind == 'test' and isinstance(ev.node, ast.expr):
                tests.append((_norm(prog, fn, ev.node), ev.pol))
        for t, pol in paths.guard_atoms(tests):
            if called and called[1] and isinstance(t, ast.Compare) and \
                    isinstance(t.left, ast.Name) and \
                    t.left.id == called[1] and len(t.ops) == 1 and \
                    isinstance(t.ops[0], (ast.Is, ast.IsNot)) and \
                    isinstance(t.comparators[0], ast.Constant) and \
                    t.comparators[0].value is None:
                none_branch = (isinstance(t.ops[0], ast.Is) == pol)
            # an empty batch:  len(X) falsy, len(X) > 0 false, len(X) == 0
            ln = _len_arg(t)
            if ln and pol is False:
                empty_batches.add(ln)
            if isinstance(t, ast.Compare) and len(t.ops) == 1 and \
                    isinstance(t.comparators[0], ast.Constant) and \
                    t.comparators[0].value == 0 and _len_arg(t.left):
                op = type(t.ops[0])
                if (op in (ast.Gt, ast.NotEq) and pol is False) or \
                        (op in (ast.Eq, ast.LtE) and pol is True):
                    empty_batches.add(_len_arg(t.left))
        desc = 'path[%s]' % ','.join(
            str(getattr(e.node, 'lineno', '?')) + ('' if e.pol is None
                                                   else '+-'[not e.pol])
            for e in path if e.kind == 'test')
        if called:
            batch = called[0]
            # the batch may be an alias of another name (I_new = I)
            names = {batch}
            for nm, vs in ((nm, roles.assigned_value(fn.node, nm))
                           for nm in list(names)):
                for v in vs:
                    if isinstance(v, ast.Name):
                        names.add(v.id)
            after = [i for i in incs if i.lineno > called[2].lineno]
            if none_branch is True:
                if after:
                    rep.violation('P-count', qual,
                                  'info["m"] += ... after a None result',
                                  'evaluations are counted on the path where '
                                  'the objective returned None (%s)' % desc,
                                  line=after[0].lineno, file=mod.path)
                else:
                    rep.ok('P-count', qual, 'not counted when objective '
                           'returned None (%s)' % desc)
            elif not after and called[1] and qual != root_qual and \
                    path and path[-1].kind == 'end' and \
                    isinstance(path[-1].node, ast.Return) and \
                    isinstance(path[-1].node.value, ast.Name) and \
                    path[-1].node.value.id == called[1]:
                rep.unknown('P-count', qual, 'result of f(%s) returned to '
                            'the caller (%s)' % (batch, desc), 'the helper '
                            'hands the result back: the count is made by its '
                            'caller', line=called[2].lineno, file=mod.path)
            else:
                good = [i for i in after if inc_amount(i) in names]
                if len(good) == 1 and len(after) == 1:
                    rep.ok('P-count', qual, 'counted once by len(%s) after a '
                           'successful call (%s)' % (batch, desc))
                else:
                    rep.violation('P-count', qual,
                                  'info["m"] accounting after f(%s)' % batch,
                                  'after a successful objective call on %s the '
                                  'counter must be increased exactly once by '
                                  'len(%s); found %d increment(s) (%s)'
                                  % (batch, batch, len(after), desc),
                                  line=called[2].lineno, file=mod.path)
        elif escaped:
            for i in incs:
                rep.unknown('P-count', qual, src(mod, i), 'the objective is '
                            'handed to a helper on this path (%s): the count '
                            'is not followed across the call' % desc,
                            line=i.lineno, file=mod.path)
        else:
            for i in incs:
                ln = inc_amount(i)
                if ln in empty_batches:
                    rep.ok('P-count', qual, 'increment by len(%s) of an empty '
                           'batch on a path without a call (%s)' % (ln, desc))
                else:
                    rep.violation('P-count', qual,
                                  src(mod, i),
                                  'info["m"] is increased on a path that '
                                  'never called the objective (%s)' % desc,
                                  line=i.lineno, file=mod.path)
    if 'cache' not in fn.all_params or not any(
            isinstance(x, ast.Compare) and any(
                isinstance(o, (ast.In, ast.NotIn)) for o in x.ops) and
            any(isinstance(c, ast.Name) and c.id == 'cache'
                for c in x.comparators) for x in ast.walk(fn.node)):
        return n_calls
    # --- cached branch: only unseen indices are evaluated, m_cache accounting
    org = roles.origins(fn.node, fn.all_params)
    comps = []
    for node in ast.walk(fn.node):
        if isinstance(node, ast.ListComp) and len(node.generators) == 1:
            g = node.generators[0]
            from_batch = any(batch_param in org.get(x.id, ())
                             for x in ast.walk(g.iter)
                             if isinstance(x, ast.Name))
            if not from_batch:
                continue
            uses_cache = any(isinstance(x, ast.Name) and x.id == 'cache'
                             for x in ast.walk(node))
            filt = any(isinstance(c, ast.Compare) and len(c.ops) == 1 and
                       isinstance(c.ops[0], ast.NotIn) and
                       isinstance(c.comparators[0], ast.Name) and
                       c.comparators[0].id == 'cache'
                       for part in list(g.ifs) + [node.elt]
                       for c in ast.walk(part))
            comps.append((node, filt, uses_cache))
    # the batch handed to the objective in the cached mode derives from a
    # comprehension filtered by  ... not in cache
    flt = [c for c in comps if c[1]]
    if flt:
        rep.ok('P-cache-filter', qual, src(mod, flt[0][0]))
    else:
        # a comprehension that builds the new batch without the filter is the
        # violation; no recognisable construction at all is not decided
        # (only the comprehension that builds the batch HANDED ON counts: a
        # key table over the whole batch is not the request; a filter through
        # a set of absent keys -- itself filtered by "not in cache" -- is the
        # same filter in two steps)
        handed = set()
        for c_ in ast.walk(fn.node):
            if isinstance(c_, ast.Call) and c_.args:
                for a_ in c_.args[:2]:
                    if isinstance(a_, ast.Name) and a_.id != batch_param:
                        handed.add(a_.id)

        def _defs(nm):
            return [n_.value for n_ in ast.walk(fn.node)
                    if isinstance(n_, ast.Assign) and
                    isinstance(n_.targets[0], ast.Name) and
                    n_.targets[0].id == nm]
        absent_sets = {n_.targets[0].id for n_ in ast.walk(fn.node)
                       if isinstance(n_, ast.Assign) and
                       isinstance(n_.targets[0], ast.Name) and
                       isinstance(n_.value, (ast.SetComp, ast.ListComp,
                                             ast.DictComp)) and
                       any(isinstance(c2, ast.Compare) and
                           isinstance(c2.ops[0], ast.NotIn) and
                           isinstance(c2.comparators[0], ast.Name) and
                           c2.comparators[0].id == 'cache'
                           for g2 in n_.value.generators for f2 in g2.ifs
                           for c2 in ast.walk(f2))}
        two_step = False
        unfiltered = []
        for c in comps:
            node_ = c[0]
            owner = [nm for nm in handed if any(
                node_ in list(ast.walk(v_)) for v_ in _defs(nm))]
            if not owner:
                continue
            ifs_ = node_.generators[0].ifs
            if any(isinstance(c2, ast.Compare) and
                   isinstance(c2.ops[0], ast.In) and
                   isinstance(c2.comparators[0], ast.Name) and
                   c2.comparators[0].id in absent_sets
                   for f2 in ifs_ for c2 in ast.walk(f2)):
                two_step = True
            elif not ifs_:
                unfiltered.append(c)
        built = [c for c in unfiltered if not c[2]]
        rep.add('P-cache-filter', qual, 'I_new = [i for i in I if ... '
                'not in cache]', 'ok' if two_step else (
                    'violation' if built else 'unknown'),
                'the cached branch no longer restricts the batch to '
                'indices that are not in the cache',
                line=fn.node.lineno, file=mod.path)
    ok_mc = False
    found_mc = False
    for node in ast.walk(fn.node):
        if isinstance(node, ast.AugAssign) and \
                _is_sub(node.target, info, 'm_cache') and \
                isinstance(node.op, ast.Add):
            found_mc = True
            v = _norm(prog, fn, node.value)
            if isinstance(v, ast.BinOp) and isinstance(v.op, ast.Sub) and \
                    _len_arg(v.left) == batch_param and \
                    _len_arg(v.right) is not None and \
                    _len_arg(v.right) != batch_param:
                ok_mc = True
                rep.ok('P-count-cache', qual, src(mod, node))
    if not ok_mc:
        rep.add('P-count-cache', qual, 'info["m_cache"] += len(I) - '
                'len(I_new)', 'violation' if found_mc or not comps else
                'unknown', 'cache-hit accounting missing or changed',
                line=fn.node.lineno, file=mod.path)
    # every path of the cached branch that returns the values counts the
    # request exactly once: info['m'] and info['m_cache'] each get one
    # increment (a batch that is answered entirely from the cache included)
    for path in ps:
        end = path[-1].node if path and path[-1].kind == 'end' else None
        if not (isinstance(end, ast.Return) and end.value is not None and
                not (isinstance(end.value, ast.Constant) and
                     end.value.value is None)):
            continue
        gs_ = [(_norm(prog, fn, e.node), e.pol) for e in path
               if e.kind == 'test' and isinstance(e.node, ast.expr)]
        cached = paths.holds(gs_, 'cache', ast.IsNot, 'None')
        if not cached:
            continue
        n_m = n_c = 0
        for e in path:
            if e.kind == 'stmt' and isinstance(e.node, ast.AugAssign) and \
                    isinstance(e.node.op, ast.Add):
                if _is_sub(e.node.target, info, 'm'):
                    n_m += 1
                if _is_sub(e.node.target, info, 'm_cache'):
                    n_c += 1
        desc = 'path[%s]' % ','.join(
            str(getattr(e.node, 'lineno', '?')) + ('' if e.pol is None
                                                   else '+-'[not e.pol])
            for e in path if e.kind == 'test')
        ok_ = n_m == 1 and n_c == 1
        rep.add('P-count-cache', qual, 'cached request answered on %s: one '
                'increment of info["m"] and of info["m_cache"]' % desc,
                'ok' if ok_ else 'violation',
                '' if ok_ else 'on this successful path of the cached branch '
                'info["m"] is increased %d time(s) and info["m_cache"] %d '
                'time(s): requests served from the cache are not counted'
                % (n_m, n_c), line=end.lineno, file=mod.path)
    # cache stores pair I_new[k] with y_new[k] of one enumeration (a loop with
    # a store, or cache.update over an enumerating generator)
    def pair_ok(tgt, key_expr, val_expr):
        kname = tgt.elts[0].id if isinstance(tgt, ast.Tuple) and \
            isinstance(tgt.elts[0], ast.Name) else None
        iname = tgt.elts[1].id if isinstance(tgt, ast.Tuple) and \
            len(tgt.elts) > 1 and isinstance(tgt.elts[1], ast.Name) else None
        key_uses_i = any(isinstance(x, ast.Name) and x.id == iname
                         for x in ast.walk(key_expr))
        val_uses_k = any(isinstance(x, ast.Subscript) and
                         isinstance(x.slice, ast.Name) and
                         x.slice.id == kname for x in ast.walk(val_expr))
        return key_uses_i and val_uses_k

    def is_enum(it):
        return isinstance(it, ast.Call) and isinstance(it.func, ast.Name) \
            and it.func.id == 'enumerate'
    for node in ast.walk(fn.node):
        if isinstance(node, ast.For) and is_enum(node.iter):
            for st in node.body:
                for t, v in paths.stores_in(st):
                    if isinstance(t, ast.Subscript) and \
                            isinstance(t.value, ast.Name) and \
                            t.value.id == 'cache':
                        ok_ = pair_ok(node.target, t.slice, v)
                        rep.add('P-cache-pair', qual, src(mod, st),
                                'ok' if ok_ else 'violation',
                                '' if ok_ else 'cache key and value are not '
                                'taken from the same enumeration index',
                                line=st.lineno, file=mod.path)
        if isinstance(node, ast.Call) and \
                isinstance(node.func, ast.Attribute) and \
                node.func.attr == 'update' and \
                isinstance(node.func.value, ast.Name) and \
                node.func.value.id == 'cache' and node.args and \
                isinstance(node.args[0], (ast.GeneratorExp, ast.ListComp,
                                          ast.DictComp)):
            ge = node.args[0]
            if len(ge.generators) == 1 and is_enum(ge.generators[0].iter):
                if isinstance(ge, ast.DictComp):
                    k_, v_ = ge.key, ge.value
                elif isinstance(ge.elt, ast.Tuple) and len(ge.elt.elts) == 2:
                    k_, v_ = ge.elt.elts
                else:
                    continue
                ok_ = pair_ok(ge.generators[0].target, k_, v_)
                rep.add('P-cache-pair', qual, src(mod, node),
                        'ok' if ok_ else 'violation',
                        '' if ok_ else 'cache key and value are not taken '
                        'from the same enumeration index',
                        line=node.lineno, file=mod.path)
    return n_calls


# ---------------------------------------------------------------------------
STOP_TABLE = {
    # (function, literal) -> predicate name
    ('cross._func_eval', 'm'): 'budget',
    ('cross._func_eval', 'func'): 'none-result',
    ('cross.cross', 'conv'): 'cache-conv',
    ('cross.cross', 'cb'): 'callback',
    ('als.als', 'cb'): 'callback',
    ('utils._info_appr', 'e_vld'): 'thr:e_vld',
    ('utils._info_appr', 'e'): 'thr:e',
    ('utils._info_appr', 'nswp'): 'nswp',
}
DOCUMENTED_STOPS = {'func', 'm', 'e', 'nswp', 'conv', 'e_vld', 'cb'}


def _fact(gs, lpred, op, rpred):
    """A comparison ``l <op> r`` implied by the guards (either spelling) whose
    operands satisfy the predicates."""
    from .paths import cmp_facts
    for _, oc, _, l, r in cmp_facts(gs):
        if oc is op and lpred(l) and rpred(r):
            return True
    return False


def _is_none(x):
    return isinstance(x, ast.Constant) and x.value is None


def _given(gs, name):
    """``<name> is not None`` holds (0 is a valid threshold / sweep count, so
    a truth-value test of the criterion does not count)."""
    return _fact(gs, lambda l: isinstance(l, ast.Name) and l.id == name,
                 ast.IsNot, _is_none)


def _stop_is_none(gs):
    return _fact(gs, lambda l: _is_sub(l, 'info', 'stop'), ast.Is, _is_none)


def _thr_guard_ok(mod, gs, key):
    """info[key] <= key  and  info[key] >= 0  and  not isinf(info[key]),
    all under  info['stop'] is None  (any spelling of the comparisons)."""
    from .paths import guard_atoms
    is_val = lambda x: _is_sub(x, 'info', key)
    le = _fact(gs, is_val, ast.LtE,
               lambda r: isinstance(r, ast.Name) and r.id == key)
    ge = _fact(gs, is_val, ast.GtE,
               lambda r: isinstance(r, ast.Constant) and r.value == 0)
    fin = any(isinstance(t, ast.Call) and
              isinstance(t.func, ast.Attribute) and t.args and
              is_val(t.args[0]) and (
                  ((not pol) and t.func.attr == 'isinf') or
                  (pol and t.func.attr == 'isfinite'))
              for t, pol in guard_atoms(gs))
    return _stop_is_none(gs) and le and ge and fin and _given(gs, key)


def check_stop_writers(prog, rep, functions=None):
    """Who may write info['stop'], with which literal, under which guard."""
    seen = set()
    order = []
    computed = set()        # functions with a non-literal writer
    mods = None if functions is None else {q.split('.')[0] for q in functions}

    def in_scope(fn):
        if functions is None or fn.qualname in functions:
            return True
        # a private helper of a listed module (code moved out of a listed
        # function keeps its obligations)
        parts = fn.qualname.split('.')
        for k_ in range(2, len(parts)):
            if '.'.join(parts[:k_]) in functions:
                return True         # closure nested in a listed function
        return parts[0] in mods and len(parts) == 2 and \
            parts[1].startswith('_') and parts[0] != 'utils'
    for fn in prog.all_functions():
        if isinstance(fn.node, ast.Lambda):
            continue
        if not in_scope(fn):
            continue
        mod = fn.module
        for st, t, v in stores_of_key(fn.node, 'stop'):
            if model.enclosing_function(prog, mod, st) is not fn:
                continue
            lit = None
            if isinstance(v, ast.Constant):
                lit = v.value
            elif isinstance(v, ast.BoolOp) and isinstance(v.op, ast.Or) and \
                    isinstance(v.values[-1], ast.Constant):
                lit = v.values[-1].value
            construct = src(mod, st)
            if lit is None and isinstance(v, ast.Constant) and v.value is None:
                rep.ok('P-stop-writers', fn.qualname, construct,
                       detail='reset to None')
                continue
            if lit is None and not isinstance(v, ast.Constant):
                # the reason is computed (looked up in a table, returned by a
                # helper): which literal is written under which condition is
                # not decided here
                computed.add(fn.qualname)
                kept = _keeps_earlier(prog, fn, st, v)
                if kept is False:
                    rep.violation(
                        'P-stop-writers', fn.qualname, construct,
                        'the earlier stop reason is only the fallback of the '
                        'newly computed one: a reason that is already set '
                        '(budget, None result, callback) is overwritten; the '
                        'first reason must win', line=st.lineno,
                        file=mod.path)
                    continue
                rep.unknown('P-stop-writers', fn.qualname, construct,
                            'the stop reason is a computed value',
                            line=st.lineno, file=mod.path)
                continue
            if lit not in DOCUMENTED_STOPS:
                rep.violation('P-stop-writers', fn.qualname, construct,
                              'stop reason %r is not one of the documented '
                              'reasons %s' % (lit, sorted(DOCUMENTED_STOPS)),
                              line=st.lineno, file=mod.path)
                continue
            pred = STOP_TABLE.get((fn.qualname, lit))
            table_fn = fn.qualname
            root_ = fn
            while root_.parent is not None:
                root_ = root_.parent
            if pred is None and root_ is not fn and \
                    (root_.qualname, lit) in STOP_TABLE:
                table_fn = root_.qualname       # closure of the table's function
                pred = STOP_TABLE[(table_fn, lit)]
            if pred is None and fn.qualname.split('.')[-1].startswith('_'):
                # helper of the function the table names for this reason
                cands = [q for (q, l) in STOP_TABLE if l == lit and
                         q.split('.')[0] == fn.qualname.split('.')[0]]
                if len(cands) == 1:
                    table_fn = cands[0]
                    pred = STOP_TABLE[(table_fn, lit)]
            if pred is None:
                rep.violation('P-stop-writers', fn.qualname, construct,
                              'unexpected writer of stop=%r (not in the '
                              'writer table frozen from the documented '
                              'protocol)' % lit, line=st.lineno, file=mod.path)
                continue
            seen.add((table_fn, lit))
            gs = norm_guards(prog, fn, st)
            ok, why = _stop_guard(mod, fn, st, v, gs, pred, lit)
            order.append((fn.qualname, lit, st.lineno))
            if ok:
                rep.ok('P-stop-writers', fn.qualname, construct, detail=why)
            else:
                rep.violation('P-stop-writers', fn.qualname, construct,
                              'stop=%r is written under the wrong condition: '
                              '%s (guards: %s)'
                              % (lit, why, '; '.join(
                                  '%s is %s' % (src(mod, t), p)
                                  for t, p in gs) or 'none'),
                              line=st.lineno, file=mod.path)
    for key in STOP_TABLE:
        if functions is not None and key[0] not in functions:
            continue
        if key not in seen:
            rep.add('P-stop-writers', key[0], "info['stop'] = %r" % key[1],
                    'unknown' if key[0] in computed else 'violation',
                    'the documented stop reason %r is no longer '
                    'reported by %s' % (key[1], key[0]))
    # priority e_vld > e > nswp in _info_appr
    ia = [(l, ln) for q, l, ln in order if q == 'utils._info_appr']
    if ia:
        lits = [l for l, ln in sorted(ia, key=lambda x: x[1])]
        if lits == ['e_vld', 'e', 'nswp']:
            rep.ok('P-stop-priority', 'utils._info_appr',
                   'e_vld > e > nswp')
        elif sorted(lits) != sorted(['e_vld', 'e', 'nswp']):
            # some reasons are written through a table / a loop: the order
            # of the literal writers alone does not decide the priority
            rep.unknown('P-stop-priority', 'utils._info_appr',
                        'order of stop criteria: %s' % ' > '.join(lits),
                        'not all three criteria are literal writers')
        else:
            rep.violation('P-stop-priority', 'utils._info_appr',
                          'order of stop criteria: %s' % ' > '.join(lits),
                          'documented priority is e_vld > e > nswp')


def _mentions_stop(prog, fn, e, depth=0):
    """Does the value of ``e`` depend on info['stop'] (directly or through a
    helper of the repository whose body reads the key)?  None = not known."""
    for x in ast.walk(e):
        if isinstance(x, ast.Subscript) and _is_sub(x, 'info', 'stop'):
            return True
        if isinstance(x, ast.Constant) and x.value == 'stop':
            return True
    for x in ast.walk(e):
        if isinstance(x, ast.Call):
            r = prog.resolve_dotted(fn.module, prog.dotted(x.func))
            if r is not None and r[0] == 'ext':
                continue
            if r is None and isinstance(x.func, ast.Name) and \
                    x.func.id in ('len', 'min', 'max', 'abs', 'float', 'int',
                                  'bool', 'str'):
                continue
            if r is None or r[0] != 'teneva' or \
                    not hasattr(r[1], 'node') or \
                    not isinstance(r[1].node, ast.FunctionDef):
                return None
            callee = r[1]
            if depth > 2:
                return None
            sub = _mentions_stop(prog, callee, callee.node, depth + 1)
            if sub is not False:
                return sub
    return False


def _keeps_earlier(prog, fn, st, v):
    """A computed stop reason written outside an ``info['stop'] is None``
    guard: True = the earlier reason has precedence (``info['stop'] or new``),
    False = the earlier reason is only the fallback (``new or info['stop']``
    with ``new`` independent of it), None = not decided."""
    gs = norm_guards(prog, fn, st)
    if _stop_is_none(gs):
        return True
    if isinstance(v, ast.BoolOp) and isinstance(v.op, ast.Or):
        pos = [i for i, x in enumerate(v.values)
               if _is_sub(x, 'info', 'stop')]
        if pos and pos[0] == 0:
            return True
        if pos:
            dep = [_mentions_stop(prog, fn, x) for x in v.values[:pos[0]]]
            if all(d is False for d in dep):
                return False
        return None
    if isinstance(v, ast.IfExp):
        t = v.test
        # new if new [is not None] else info['stop']
        if _is_sub(v.orelse, 'info', 'stop') and \
                not _is_sub(v.body, 'info', 'stop') and \
                _mentions_stop(prog, fn, v.body) is False and \
                _mentions_stop(prog, fn, t) is False:
            return False
    return None


def _stop_guard(mod, fn, st, v, gs, pred, lit):
    from .paths import guard_atoms
    any_ = lambda x: True
    if pred == 'budget':
        ok = any(pol and isinstance(t, ast.Compare) and
                 any(_is_sub(x, 'info', 'm_max') for x in ast.walk(t))
                 for t, pol in guard_atoms(gs))
        if not ok:
            # any spelling: the guards imply  m_max is not None and
            # info['m'] + len(<some batch>) > m_max
            batches = {_len_arg(x) for t, _ in gs for x in ast.walk(t)
                       if _len_arg(x)}
            for b in batches:
                if paths.entails(gs, budget_atomiser('info', b),
                                 lambda a: (not a['N']) and a['G']):
                    ok = True
        return ok, 'under the budget test'
    if pred == 'none-result':
        ok = _fact(gs, lambda l: isinstance(l, ast.Name), ast.Is, _is_none)
        return ok, 'under  <objective result> is None'
    if pred == 'cache-conv':
        ok = _fact(gs, lambda l: _is_sub(l, 'info', 'm_cache'), ast.Gt,
                   lambda r: any(_is_sub(x, 'info', 'm')
                                 for x in ast.walk(r)))
        return ok, 'under  info["m_cache"] > m_cache_scale * info["m"]'
    if pred == 'callback':
        cb_ok = _fact(gs, lambda l: isinstance(l, ast.Call) and
                      isinstance(l.func, ast.Name) and l.func.id == 'cb',
                      ast.Is, lambda r: isinstance(r, ast.Constant) and
                      r.value is True)
        keep = isinstance(v, ast.BoolOp) and isinstance(v.op, ast.Or) and \
            any(_is_sub(x, 'info', 'stop') for x in v.values[:-1])
        # the same thing as a guard:  if ... and not info['stop']: ... = 'cb'
        keep = keep or _stop_is_none(gs) or any(
            _is_sub(t_, 'info', 'stop') and pol_ is False
            for t_, pol_ in guard_atoms(gs))
        # the callback test may be spelt  cb(...) is True  or, for a callback
        # documented to return True / None, just  cb(...)
        cb_ok = cb_ok or any(
            pol_ and isinstance(t_, ast.Call) and
            isinstance(t_.func, ast.Name) and t_.func.id == 'cb'
            for t_, pol_ in guard_atoms(gs))
        return cb_ok and keep, 'under  cb(...) is True, keeping an earlier ' \
            'reason (info["stop"] or "cb")'
    if pred.startswith('thr:'):
        key = pred[4:]
        return _thr_guard_ok(mod, gs, key), \
            'under  info["stop"] is None, %s is not None, 0 <= info[%r] <= ' \
            '%s, not inf' % (key, key, key)
    if pred == 'nswp':
        ge = _fact(gs, lambda l: _is_sub(l, 'info', 'nswp'), ast.GtE,
                   lambda r: isinstance(r, ast.Name) and r.id == 'nswp')
        return _stop_is_none(gs) and ge and _given(gs, 'nswp'), \
            'under  info["stop"] is None, nswp is not None (0 is a valid ' \
            'sweep count) and info["nswp"] >= nswp'
    return False, 'unknown predicate'


# ---------------------------------------------------------------------------
def _loop_direction(loop):
    """range(d) -> 'ltr';  range(d-1, -1, -1) -> 'rtl'."""
    it = loop.iter
    if isinstance(it, ast.Call) and isinstance(it.func, ast.Name) and \
            it.func.id == 'range':
        if len(it.args) == 1:
            return 'ltr'
        if len(it.args) == 3:
            stp = it.args[2]
            if isinstance(stp, ast.UnaryOp) and isinstance(stp.op, ast.USub):
                return 'rtl'
            if isinstance(stp, ast.Constant) and stp.value > 0:
                return 'ltr'
        if len(it.args) == 2:
            return 'ltr'
    return None


def _tensordot_args(node):
    """np.tensordot(A, B, 1) -> (src A, src B) as dumps."""
    if isinstance(node, ast.Call) and isinstance(node.func, ast.Attribute) \
            and node.func.attr == 'tensordot' and len(node.args) >= 2:
        return ast.dump(node.args[0]), ast.dump(node.args[1])
    return None


def check_interrupt(prog, rep, qual='cross.cross'):
    """Each oracle request inside a half-sweep is immediately followed by a
    stop test whose branch folds the pending factor on the correct side,
    refreshes info from the returned tensor and returns it."""
    fn = prog.func(qual)
    mod = fn.module
    # reference folds: the pre-iteration loops  G = np.tensordot(<fold>)
    ref = {}
    for node in ast.walk(fn.node):
        if isinstance(node, ast.For):
            d = _loop_direction(node)
            if d is None or not node.body:
                continue
            first = node.body[0]
            if isinstance(first, ast.Assign) and \
                    _tensordot_args(first.value) and d not in ref and \
                    not any(isinstance(x, ast.If) for x in node.body):
                ref[d] = _tensordot_args(first.value)
    n = 0
    for node in ast.walk(fn.node):
        if not isinstance(node, ast.For):
            continue
        d = _loop_direction(node)
        for i, st in enumerate(node.body):
            if not (isinstance(st, ast.Assign) and
                    isinstance(st.value, ast.Call) and
                    isinstance(st.value.func, ast.BoolOp)):
                continue
            n += 1
            construct = '[%s half-sweep] %s' % (d, src(mod, st))
            nxt = node.body[i + 1] if i + 1 < len(node.body) else None
            if not (isinstance(nxt, ast.If) and _is_sub(nxt.test, 'info',
                                                         'stop')):
                rep.violation('P-interrupt', qual, construct,
                              'the request is not immediately followed by a '
                              'test of info["stop"]', line=st.lineno,
                              file=mod.path)
                continue
            body = nxt.body
            fold = None
            fold_idx = None
            for j, b in enumerate(body):
                if isinstance(b, ast.Assign) and \
                        _tensordot_args(b.value) is not None and \
                        isinstance(b.targets[0], ast.Subscript):
                    fold = b
                    fold_idx = j
                    break
            ret = body[-1] if body and isinstance(body[-1], ast.Return) \
                else None
            if fold is None:
                rep.violation('P-interrupt', qual, construct,
                              'the stop branch does not fold the pending '
                              'factor R into the current core before '
                              'returning', line=nxt.lineno, file=mod.path)
                continue
            if ret is None or not isinstance(ret.value, ast.Name):
                rep.violation('P-interrupt', qual, construct,
                              'the stop branch does not return the tensor',
                              line=nxt.lineno, file=mod.path)
                continue
            # the folded core is the loop's current core of the returned list
            tgt = fold.targets[0]
            tgt_ok = isinstance(tgt.value, ast.Name) and \
                tgt.value.id == ret.value.id and \
                isinstance(tgt.slice, ast.Name) and \
                isinstance(node.target, ast.Name) and \
                tgt.slice.id == node.target.id
            side_ok = d in ref and _tensordot_args(fold.value) == ref[d]
            if tgt_ok and side_ok:
                rep.ok('P-interrupt', qual, construct,
                       detail='%s half-sweep: %s' % (d, src(mod, fold)))
            else:
                rep.violation('P-interrupt', qual, src(mod, fold),
                              'interruption fold of the %s half-sweep must be '
                              'the same contraction as the pre-iteration fold '
                              'of that direction into core %s[%s] '
                              '(side swapped or wrong core)'
                              % (d, ret.value.id,
                                 getattr(node.target, 'id', '?')),
                              line=fold.lineno, file=mod.path)
            # info refreshed from the returned tensor after the fold
            need = {'r': False, 'e': False, 'e_vld': False}
            for b in body[fold_idx + 1:]:
                for t, v in paths.stores_in(b):
                    sk = subscript_key(t)
                    if sk and sk[0] == 'info' and sk[1] in need:
                        uses = any(isinstance(x, ast.Name) and
                                   x.id == ret.value.id for x in ast.walk(v))
                        need[sk[1]] = uses
            stale = [k for k, v in need.items() if not v]
            early = [k for b in body[:fold_idx] for t, v in paths.stores_in(b)
                     for k in ([subscript_key(t)[1]] if subscript_key(t) and
                               subscript_key(t)[0] == 'info' else [])]
            if stale or early:
                rep.violation('P-fresh-info', qual, construct,
                              'on interruption info[%s] is not recomputed '
                              'from the returned tensor after the fold'
                              % ', '.join(repr(k) for k in (stale or early)),
                              line=nxt.lineno, file=mod.path)
            else:
                rep.ok('P-fresh-info', qual, construct)
    if n < 2:
        rep.error('%s: expected 2 oracle request sites in the sweep loops, '
                  'found %d' % (qual, n))


def check_sweep_epilogue(prog, rep, qual):
    """Per sweep of the outer ``while True``: nswp += 1 exactly once, then
    info r / e / e_vld recomputed from the current tensor, then (cross) the
    cache-convergence test, the callback, and finally _info_appr."""
    fn = prog.func(qual)
    mod = fn.module
    loops = [n for n in ast.walk(fn.node) if isinstance(n, ast.While) and
             isinstance(n.test, ast.Constant) and n.test.value is True]
    if len(loops) != 1:
        rep.error('%s: expected one outer "while True" sweep loop' % qual)
        return
    wl = loops[0]
    incs = [st for st in wl.body if isinstance(st, ast.AugAssign) and
            _is_sub(st.target, 'info', 'nswp')]
    deep = [n for n in ast.walk(wl) if isinstance(n, ast.AugAssign) and
            _is_sub(n.target, 'info', 'nswp')]
    if len(incs) == 1 and len(deep) == 1 and \
            isinstance(incs[0].value, ast.Constant) and \
            incs[0].value.value == 1 and isinstance(incs[0].op, ast.Add):
        rep.ok('P-sweep-count', qual, src(mod, incs[0]))
    else:
        rep.violation('P-sweep-count', qual, 'info["nswp"] += 1',
                      'the sweep counter must be increased exactly once per '
                      'iteration of the outer loop, unconditionally '
                      '(found %d top-level / %d nested)'
                      % (len(incs), len(deep)), line=wl.lineno, file=mod.path)
        return
    idx = wl.body.index(incs[0])
    # all half-sweep loops precede the increment: a later loop that calls
    # what the loops before the increment call (the core update / the oracle
    # request) is a half-sweep after the counter; clean-up loops are not
    def _callees(st):
        out = set()
        for c in ast.walk(st):
            if isinstance(c, ast.Call):
                d_ = prog.dotted(c.func)
                if d_ and not d_.startswith(('numpy.', 'np.')) and \
                        d_.split('.')[-1] not in (
                            'range', 'enumerate', 'zip', 'reversed', 'len',
                            'list', 'tuple', 'copy', 'min', 'max', 'abs'):
                    out.add(d_.split('.')[-1])
        return out
    early_calls = set()
    for st in wl.body[:idx]:
        if isinstance(st, (ast.For, ast.While)):
            early_calls |= _callees(st)
    late = [st for st in wl.body[idx + 1:]
            if isinstance(st, (ast.For, ast.While)) and
            (_callees(st) & early_calls)]
    if late:
        rep.violation('P-sweep-count', qual, src(mod, incs[0]),
                      'the sweep counter is increased before a half-sweep',
                      line=incs[0].lineno, file=mod.path)
    # the loop ends with  if _info_appr(...): return Y
    last = wl.body[-1]
    ok_last = isinstance(last, ast.If) and isinstance(last.test, ast.Call) \
        and (prog.dotted(last.test.func) or '').endswith('_info_appr') and \
        paths.always_exits(last.body)
    if not ok_last:
        # the other spelling:  if not _info_appr(...): continue  followed by
        # clean-up statements and the return
        for j_, st in enumerate(wl.body):
            t_ = st.test if isinstance(st, ast.If) else None
            neg = False
            while isinstance(t_, ast.UnaryOp) and isinstance(t_.op, ast.Not):
                t_, neg = t_.operand, not neg
            if isinstance(t_, ast.Call) and \
                    (prog.dotted(t_.func) or '').endswith('_info_appr'):
                rest = wl.body[j_ + 1:]
                if neg and st.body and all(isinstance(b, ast.Continue)
                                           for b in st.body) and rest and \
                        paths.always_exits(rest) and not any(
                            isinstance(r_, (ast.For, ast.While)) and
                            (_callees(r_) & early_calls) for r_ in rest):
                    ok_last = True
                    last = st
    any_call = any(isinstance(c, ast.Call) and
                   (prog.dotted(c.func) or '').endswith('_info_appr')
                   for c in ast.walk(wl))
    if ok_last:
        rep.ok('P-sweep-end', qual, src(mod, last.test))
    else:
        rep.add('P-sweep-end', qual, 'if teneva._info_appr(...): return',
                'unknown' if any_call else 'violation',
                'the sweep no longer ends with the shared stop-criterion '
                'evaluation', line=last.lineno, file=mod.path)
    # info['e'] is accuracy(Y, Yold) with Yold a copy taken at the loop head
    first = wl.body[0]
    yold = None
    if isinstance(first, ast.Assign) and isinstance(first.value, ast.Call) and \
            (prog.dotted(first.value.func) or '').endswith('copy') and \
            isinstance(first.targets[0], ast.Name):
        yold = first.targets[0].id
        rep.ok('P-yold-copy', qual, src(mod, first))
    else:
        rep.violation('P-yold-copy', qual, src(mod, first),
                      'the sweep does not start by taking a copy of the '
                      'current tensor (the convergence value would compare '
                      'the tensor with itself)', line=first.lineno,
                      file=mod.path)
    return wl


def check_validation(prog, rep, qual='cross.cross'):
    """The ValueError rejections dominate the first effect (info.update)."""
    fn = prog.func(qual)
    mod = fn.module
    raises = [n for n in ast.walk(fn.node) if isinstance(n, ast.Raise)]
    first_effect = None
    from .paths import linear as _linear
    for st in _linear(fn.node.body):
        if isinstance(st, ast.Expr) and isinstance(st.value, ast.Constant):
            continue
        if isinstance(st, ast.If) and _pure_rejection(st):
            continue
        # a pure boolean / scalar temporary is not an effect
        from . import roles as _roles
        if isinstance(st, ast.Assign) and len(st.targets) == 1 and \
                isinstance(st.targets[0], ast.Name) and \
                isinstance(st.value, (ast.BoolOp, ast.Compare, ast.UnaryOp)) \
                and _roles.scalarish(st.value):
            continue
        first_effect = st
        break
    n_before = [r for r in raises if first_effect is None or
                r.lineno < first_effect.lineno]
    return fn, mod, raises, n_before, first_effect


def _pure_rejection(ifnode):
    """The If only rejects: its exiting arm (the other arm, when present, is
    the continuation spliced in by ``linear``) holds nothing but nested
    rejections, raise statements and the assignment of their message."""
    from .paths import always_exits
    if ifnode.orelse and always_exits(ifnode.body):
        arms = [ifnode.body]
    elif ifnode.orelse and always_exits(ifnode.orelse):
        arms = [ifnode.orelse]
    else:
        arms = [ifnode.body, ifnode.orelse]
    for arm in arms:
        for x in arm:
            if isinstance(x, ast.Raise):
                continue
            if isinstance(x, ast.If) and _pure_rejection(x):
                continue
            if isinstance(x, ast.Assign) and \
                    isinstance(x.value, (ast.Constant, ast.JoinedStr)):
                continue
            return False
    return True


def _flat(ifnode):
    out = []
    for b in ifnode.body + ifnode.orelse:
        out.append(b)
        if isinstance(b, ast.If):
            out.extend(_flat(b))
    return out


# ---------------------------------------------------------------------------
# P-forward-name: a function that has a parameter p and calls a teneva
# function that also has a parameter named p must pass it on.
FORWARD_ALLOWED = {
    ('act_many.add_many', 'transformation.truncate', 'r'):
        'the intermediate rounding of a running sum deliberately ignores the '
        'rank cap (only the final rounding applies it)',
    ('act_one.norm', 'act_two.mul_scalar', 'use_stab'):
        'call in the plain (use_stab=False) branch',
    ('transformation.truncate', 'transformation.orthogonalize', 'use_stab'):
        'call in the plain (use_stab=False) branch',
    ('als_func.als_func', 'func.func_get', 'a'):
        'the basis closures passed as funcs= already capture the box',
    ('als_func.als_func', 'func.func_get', 'b'):
        'the basis closures passed as funcs= already capture the box',
    ('cross.cross', 'cross._iter', 'tau'):
        'maxvol pre-iteration uses the plain maxvol (documented)',
    ('cross.cross', 'cross._iter', 'dr_min'):
        'maxvol pre-iteration uses the plain maxvol (documented)',
    ('cross.cross', 'cross._iter', 'dr_max'):
        'maxvol pre-iteration uses the plain maxvol (documented)',
    ('func.func_gets', 'func.func_basis', 'kind'):
        'call inside the kind == "cheb" branch',
    ('func.func_get.gen_def_func', 'func.func_basis', 'kind'):
        'func_get only supports the Chebyshev kind; its kind parameter is '
        'reserved and unused on the pinned tree',
}
FORWARD_ALLOWED_COUNT = {('cross.cross', 'cross._iter'): 2,
                         ('als_func.als_func', 'func.func_get'): 2}


def check_param_forwarding(prog, rep, callers=None, rule='P-forward-name'):
    n = 0
    for fn in prog.all_functions():
        if isinstance(fn.node, ast.Lambda):
            continue
        if callers is not None and fn.qualname not in callers:
            continue
        mod = fn.module
        own = set(fn.all_params)
        g = fn.parent
        while g is not None:
            own |= set(g.all_params)
            g = g.parent
        seen = {}
        for node in ast.walk(fn.node):
            if not isinstance(node, ast.Call):
                continue
            if model.enclosing_function(prog, mod, node) is not fn:
                continue
            d = prog.dotted(node.func)
            r = prog.resolve_dotted(mod, d, ()) if d else None
            callee = None
            if r and r[0] == 'teneva':
                callee = r[1]
                if isinstance(callee, model.ClassInfo):
                    callee = callee.methods.get('__init__')
            if callee is None or \
                    any(isinstance(a, ast.Starred) for a in node.args):
                continue
            ps = callee.params
            if callee.cls is not None and ps and ps[0] == 'self':
                ps = ps[1:]
            bound = set(ps[:len(node.args)]) | {k.arg for k in node.keywords
                                                if k.arg}
            # **opts with opts = dict(k=v, ...) / {'k': v} bound once: the
            # keys count as passed; any other ** argument is not followed
            star_unknown = False
            for k in node.keywords:
                if k.arg is not None:
                    continue
                keys_ = None
                v_ = k.value
                if isinstance(v_, ast.Name):
                    from . import roles as _roles
                    v_ = _roles.single_assignments(fn.node).get(v_.id)
                if isinstance(v_, ast.Call) and \
                        isinstance(v_.func, ast.Name) and \
                        v_.func.id == 'dict' and not v_.args and \
                        all(kk.arg is not None for kk in v_.keywords):
                    keys_ = {kk.arg for kk in v_.keywords}
                elif isinstance(v_, ast.Dict) and all(
                        isinstance(kk, ast.Constant) and
                        isinstance(kk.value, str) for kk in v_.keys):
                    keys_ = {kk.value for kk in v_.keys}
                if keys_ is None:
                    star_unknown = True
                else:
                    bound |= keys_
            if star_unknown:
                continue
            # crossed hand-over: the caller's own parameters p and q, which
            # the callee also calls p and q, are bound the other way round
            amap_ = dict(zip(ps, node.args))
            amap_.update({k.arg: k.value for k in node.keywords if k.arg})
            for p_ in sorted(amap_):
                a_ = amap_[p_]
                if not (isinstance(a_, ast.Name) and a_.id != p_ and
                        a_.id in own and a_.id in amap_ and p_ in own):
                    continue
                b_ = amap_[a_.id]
                if isinstance(b_, ast.Name) and b_.id == p_ and p_ < a_.id:
                    n += 1
                    rep.violation(
                        rule, fn.qualname, '%s(...) : parameters %s / %s'
                        % (src(mod, node.func), p_, a_.id),
                        '%s hands its parameter "%s" to the parameter "%s" '
                        'of %s and its "%s" to "%s": the two are crossed'
                        % (fn.qualname, a_.id, p_, callee.qualname, p_,
                           a_.id), line=node.lineno, file=mod.path)
            for p in callee.all_params:
                if p == 'self' or p not in own:
                    continue
                n += 1
                construct = '%s(...) : parameter %s' % (
                    src(mod, node.func), p)
                if p in bound:
                    rep.ok(rule, fn.qualname, construct)
                    continue
                root = fn
                while root.parent is not None:
                    root = root.parent
                key = (fn.qualname, callee.qualname, p)
                if key not in FORWARD_ALLOWED:
                    key = (root.qualname, callee.qualname, p)
                if key not in FORWARD_ALLOWED and \
                        callee.qualname.split('.')[-1].startswith('_') and \
                        callee.module is fn.module:
                    # a private helper that hands its own parameter p on to
                    # the routine the table allows: the same omission
                    from . import roles as _roles
                    for c2 in ast.walk(callee.node):
                        if not isinstance(c2, ast.Call):
                            continue
                        try:
                            tgt = _roles.callee_of(prog, callee.module, c2)
                            amap = _roles.arg_names(prog, callee.module, c2)
                        except Exception:
                            tgt, amap = None, None
                        if tgt is None or not amap:
                            continue
                        a_ = amap.get(p)
                        if isinstance(a_, ast.Name) and a_.id == p and \
                                (root.qualname, tgt.qualname, p) in \
                                FORWARD_ALLOWED:
                            key = (root.qualname, tgt.qualname, p)
                            break
                if key not in FORWARD_ALLOWED and \
                        fn.qualname.split('.')[-1].startswith('_') and \
                        fn.parent is None:
                    # code moved out of a public function into a private
                    # helper of the same module keeps that function's
                    # documented omissions
                    for (q_, c_, p_), why_ in FORWARD_ALLOWED.items():
                        if c_ == callee.qualname and p_ == p and \
                                q_.split('.')[0] == fn.module.name:
                            key = (q_, c_, p_)
                            break
                cnt = seen[key] = seen.get(key, 0) + 1
                lim = FORWARD_ALLOWED_COUNT.get(key[:2], 1)
                if key in FORWARD_ALLOWED and cnt <= lim:
                    rep.ok(rule, fn.qualname, construct + ' (omitted)',
                           detail='allowed: ' + FORWARD_ALLOWED[key])
                else:
                    rep.violation(
                        rule, fn.qualname, construct + ' (omitted)',
                        '%s has its own parameter "%s" but calls %s without '
                        'passing it: the callee silently falls back to its '
                        'default' % (fn.qualname, p, callee.qualname),
                        line=node.lineno, file=mod.path)
    return n


# ---------------------------------------------------------------------------
# P-none-vs-zero: an optional numeric parameter (default None) is tested with
# ``is None`` / ``is not None``; a truth-value test treats the valid value 0
# like "not given"
NONE_ZERO_ALLOWED = {
    ('cross.cross', 'm'): 'budget 0 is outside the quantifier of the '
                          'properties (budgets from 1); "no budget" and 0 '
                          'are both mapped to None on purpose',
}


def _truth_tested(test):
    """Names whose truth value decides the test (bare names under not / and /
    or)."""
    out = []
    if isinstance(test, ast.Name):
        out.append(test)
    elif isinstance(test, ast.UnaryOp) and isinstance(test.op, ast.Not):
        out += _truth_tested(test.operand)
    elif isinstance(test, ast.BoolOp):
        for v in test.values:
            out += _truth_tested(v)
    return out


def check_none_vs_zero(prog, rep, modules=None, rule='P-none-vs-zero'):
    n = 0
    for fn in prog.all_functions():
        if isinstance(fn.node, ast.Lambda):
            continue
        if modules is not None and fn.module.name not in modules:
            continue
        dflt = fn.defaults()
        opt = {p for p in fn.all_params
               if isinstance(dflt.get(p), ast.Constant) and
               dflt[p].value is None}
        if not opt:
            continue
        # numeric use: operand of arithmetic, or argument of int() / float()
        numeric = set()
        for node in ast.walk(fn.node):
            if isinstance(node, ast.BinOp) and isinstance(
                    node.op, (ast.Add, ast.Sub, ast.Mult, ast.Div,
                              ast.FloorDiv, ast.Pow, ast.Mod)):
                for x in (node.left, node.right):
                    if isinstance(x, ast.Name) and x.id in opt:
                        numeric.add(x.id)
            if isinstance(node, ast.Call) and isinstance(node.func, ast.Name) \
                    and node.func.id in ('int', 'float') and node.args and \
                    isinstance(node.args[0], ast.Name) and \
                    node.args[0].id in opt:
                numeric.add(node.args[0].id)
            if isinstance(node, ast.Compare) and len(node.ops) == 1 and \
                    isinstance(node.ops[0], (ast.Lt, ast.LtE, ast.Gt,
                                             ast.GtE)):
                for x in (node.left, node.comparators[0]):
                    if isinstance(x, ast.Name) and x.id in opt:
                        numeric.add(x.id)
        for p in sorted(numeric):
            n += 1
            bad = None
            for node in ast.walk(fn.node):
                t = node.test if isinstance(node, (ast.If, ast.IfExp,
                                                   ast.While, ast.Assert)) \
                    else None
                if t is None:
                    continue
                if any(x.id == p for x in _truth_tested(t)):
                    bad = node
            allowed = NONE_ZERO_ALLOWED.get((fn.qualname, p))
            construct = 'optional numeric parameter %s is tested with ' \
                        '"is None", not by its truth value' % p
            if bad is None:
                rep.ok(rule, fn.qualname, construct)
            elif allowed:
                rep.ok(rule, fn.qualname, construct,
                       detail='allowed: ' + allowed)
            else:
                rep.violation(
                    rule, fn.qualname, construct,
                    'the test "%s" treats %s = 0 like %s = None although the '
                    'parameter is used as a number: the valid value 0 '
                    'silently selects the "not given" behaviour'
                    % (src(fn.module, bad.test), p, p),
                    line=bad.lineno, file=fn.module.path)
    return n
