"""X — callability of every resolved NumPy / SciPy / opt_einsum call.

X1: ``inspect.signature(callee).bind(...)`` with the call's positional count
    and keyword names must succeed (the third-party callables are imported,
    teneva is not).  X3: the dotted attribute must exist in the installed
    library.  Callables without an introspectable signature are counted as
    'unknown' (ufuncs, some C functions).
"""
import ast
import importlib
import inspect

from . import model


def resolve_ext_object(name):
    parts = name.split('.')
    obj = None
    # attribute chain from the root package first (opt_einsum.contract is a
    # function re-exported by the package *and* a submodule)
    try:
        obj = importlib.import_module(parts[0])
        for r in parts[1:]:
            try:
                obj = getattr(obj, r)
            except AttributeError:
                obj = importlib.import_module(
                    obj.__name__ + '.' + r) if inspect.ismodule(obj) else None
                if obj is None:
                    raise
        return obj, None
    except Exception:
        obj = None
    for i in range(len(parts), 0, -1):
        modname = '.'.join(parts[:i])
        try:
            obj = importlib.import_module(modname)
        except Exception:
            continue
        rest = parts[i:]
        try:
            for r in rest:
                obj = getattr(obj, r)
        except AttributeError:
            return None, 'attribute %s missing in %s' % ('.'.join(rest), modname)
        return obj, None
    return None, 'module not importable'


def ext_calls(prog, roots=('numpy', 'scipy', 'opt_einsum')):
    """Yield (mod, fn_qualname, call node, qualified name)."""
    for mod in prog.modules.values():
        for node in ast.walk(mod.tree):
            if not isinstance(node, ast.Call):
                continue
            dotted = prog.dotted(node.func)
            if dotted is None:
                continue
            fn = model.enclosing_function(prog, mod, node)
            local = set()
            if fn is not None:
                local = _locals(fn)
            r = prog.resolve_dotted(mod, dotted, local)
            if r and r[0] == 'ext' and r[1].split('.')[0] in roots:
                yield mod, (fn.qualname if fn else mod.name), node, r[1]


def _locals(fn):
    names = set(fn.all_params)
    for n in ast.walk(fn.node):
        if isinstance(n, ast.Name) and isinstance(n.ctx, ast.Store):
            names.add(n.id)
    return names


def check_calls(prog, rep, rule_prefix='X', wheres=None):
    n = 0
    for mod, where, node, name in ext_calls(prog):
        if wheres is not None and where not in wheres:
            continue
        n += 1
        construct = model.norm_src(mod, node.func) + '(' + ', '.join(
            ['_'] * len([a for a in node.args
                         if not isinstance(a, ast.Starred)]) +
            ['*'] * len([a for a in node.args if isinstance(a, ast.Starred)]) +
            [(k.arg + '=') if k.arg else '**' for k in node.keywords]) + ')'
        obj, err = resolve_ext_object(name)
        if obj is None:
            rep.violation(rule_prefix + '3-attr', where, construct,
                          '%s: %s' % (name, err), line=node.lineno,
                          file=mod.path)
            continue
        rep.ok(rule_prefix + '3-attr', where, construct)
        if any(isinstance(a, ast.Starred) for a in node.args) or \
                any(k.arg is None for k in node.keywords):
            rep.unknown(rule_prefix + '1-bind', where, construct,
                        'star arguments', line=node.lineno, file=mod.path)
            continue
        try:
            sig = inspect.signature(obj)
        except (ValueError, TypeError):
            rep.unknown(rule_prefix + '1-bind', where, construct,
                        'no introspectable signature (%s)'
                        % type(obj).__name__, line=node.lineno, file=mod.path)
            continue
        try:
            sig.bind(*([None] * len(node.args)),
                     **{k.arg: None for k in node.keywords})
        except TypeError as e:
            rep.violation(rule_prefix + '1-bind', where, construct,
                          'call of %s does not bind against the installed '
                          'signature %s: %s' % (name, sig, e),
                          line=node.lineno, file=mod.path)
            continue
        rep.ok(rule_prefix + '1-bind', where, construct)
    return n


def undefined_names(prog, rep, wheres=None, rule='X2-name'):
    """Names read in a function that are bound nowhere (params, locals,
    enclosing scopes, module globals, imports, builtins)."""
    import builtins
    bnames = set(dir(builtins))
    for fn in prog.all_functions():
        if wheres is not None and fn.qualname not in wheres:
            continue
        mod = fn.module
        bound = set(mod.imports) | set(mod.functions) | set(mod.classes) | \
            set(mod.globals)
        f = fn
        while f is not None:
            bound |= _locals(f)
            for n in ast.walk(f.node):
                if isinstance(n, (ast.FunctionDef, ast.ClassDef)):
                    bound.add(n.name)
                elif isinstance(n, ast.ExceptHandler) and n.name:
                    bound.add(n.name)
                elif isinstance(n, ast.arg):
                    bound.add(n.arg)
                elif isinstance(n, (ast.Import, ast.ImportFrom)):
                    for al in n.names:
                        bound.add((al.asname or al.name).split('.')[0])
            f = f.parent
        for n in ast.walk(fn.node):
            if isinstance(n, ast.Name) and isinstance(n.ctx, ast.Load):
                if n.id not in bound and n.id not in bnames:
                    yield fn, n


MEMO_DECORATORS = {'lru_cache', 'cache', 'cached_property', 'memoize'}


def check_memoised(prog, rep, modules=None, rule='A-memo'):
    """A memoised function hands the SAME object to every caller; when that
    object is mutable (ndarray / list / dict) one caller's in-place edit
    changes what every later call returns.  Positive rule: expected count on
    the pinned tree is 0 (there is no memoisation), the self-test keeps a
    positive example."""
    from . import interp as _interp
    n = 0
    for fn in prog.all_functions():
        node = fn.node
        if not isinstance(node, ast.FunctionDef):
            continue
        if modules is not None and fn.module.name not in modules:
            continue
        decos = []
        for d in node.decorator_list:
            f = d.func if isinstance(d, ast.Call) else d
            name = f.attr if isinstance(f, ast.Attribute) else (
                f.id if isinstance(f, ast.Name) else None)
            if name in MEMO_DECORATORS:
                decos.append(name)
        if not decos:
            continue
        n += 1
        I = _interp.Interp(prog, {})
        try:
            res = I.run_function(fn, {})
        except Exception:
            res = None
        kind = res.k if res is not None else 'top'
        mutable = kind in ('arr', 'list', 'dict', 'obj')
        status = 'violation' if mutable else (
            'ok' if kind in ('int', 'float', 'bool', 'str', 'none', 'tuple')
            else 'unknown')
        rep.add(rule, fn.qualname, '@%s on a function returning %s'
                % (decos[0], kind), status,
                '' if status != 'violation' else 'the memoised function '
                'returns one shared mutable %s to every caller: an in-place '
                'edit of a result changes what later calls with equal '
                'arguments return' % {'arr': 'array'}.get(kind, kind),
                line=node.lineno, file=fn.module.path)
    return n
