"""A-state: hidden state that makes a result depend on EARLIER calls (the
"history" quantifier of the properties), and memo tables whose key does not
determine the memoised value.

Four rules, all purely structural and package wide; on the pinned tree the
expected count of violations is zero (the self-test corpus keeps a positive
example for each):

* a module-level mutable object (dict / list / set display or constructor)
  that a function of the module modifies, or a ``global`` name a function
  rebinds;
* a module-level ``functools.lru_cache(..)(f)`` / ``functools.cache(f)``
  wrapper around a function of the package (arguments such as a NumPy
  Generator are hashed by identity, the result is one shared object);
* a mutable default argument that the function itself modifies (the
  documented ``info`` / ``cache`` dictionaries are the caller's by design and
  are exempt);
* a memo kept on ``self`` by the ``try: return self._x / except
  AttributeError`` idiom inside a method that has further parameters, and a
  local / closure memo table ``if key not in tab: tab[key] = value`` whose
  value reads a loop- or call-varying item that the key does not contain.
"""
import ast

from . import model

MUTATORS = {'append', 'extend', 'insert', 'pop', 'update', 'clear', 'remove',
            'setdefault', 'add', 'discard', 'popitem', 'sort', 'reverse',
            'fill', 'resize', 'put'}
MUTABLE_CTORS = {'dict', 'list', 'set', 'defaultdict', 'OrderedDict',
                 'Counter', 'deque', 'bytearray'}
MEMO_WRAPPERS = {'lru_cache', 'cache', 'cached_property'}
# caller-owned protocol dictionaries (documented exceptions of C06 / C09)
EXEMPT_DEFAULTS = {'info', 'cache'}


def _is_mutable_expr(v):
    if isinstance(v, (ast.Dict, ast.List, ast.Set, ast.ListComp, ast.DictComp,
                      ast.SetComp)):
        return True
    if isinstance(v, ast.Call):
        f = v.func
        name = f.attr if isinstance(f, ast.Attribute) else (
            f.id if isinstance(f, ast.Name) else None)
        return name in MUTABLE_CTORS
    return False


def _memo_wrapper_call(v):
    """functools.lru_cache(maxsize=..)(f) / functools.cache(f) -> wrapped
    expression, else None."""
    if not isinstance(v, ast.Call) or not v.args:
        return None
    f = v.func
    if isinstance(f, ast.Call):
        f = f.func
    name = f.attr if isinstance(f, ast.Attribute) else (
        f.id if isinstance(f, ast.Name) else None)
    return v.args[0] if name in MEMO_WRAPPERS else None


def _writes_to(fn_node, name):
    """Statements of the function that modify the object bound to ``name``
    (the name must not be re-bound locally)."""
    local = set()
    for n in ast.walk(fn_node):
        if isinstance(n, ast.Name) and isinstance(n.ctx, ast.Store) and \
                n.id == name:
            local.add(n)
        if isinstance(n, ast.arg) and n.arg == name:
            return []
    globs = {g for n in ast.walk(fn_node) if isinstance(n, ast.Global)
             for g in n.names}
    if local and name not in globs:
        return []                   # a local of the same name
    out = []
    for n in ast.walk(fn_node):
        if isinstance(n, (ast.Assign, ast.AugAssign, ast.Delete)):
            tgts = n.targets if isinstance(n, (ast.Assign, ast.Delete)) \
                else [n.target]
            for t in tgts:
                if isinstance(t, ast.Subscript) and \
                        isinstance(t.value, ast.Name) and t.value.id == name:
                    out.append(n)
                if isinstance(t, ast.Name) and t.id == name and \
                        name in globs:
                    out.append(n)
        if isinstance(n, ast.Call) and isinstance(n.func, ast.Attribute) and \
                isinstance(n.func.value, ast.Name) and \
                n.func.value.id == name and n.func.attr in MUTATORS:
            out.append(n)
    return out


def _varying_atoms(expr, varying):
    """Maximal Name / Subscript / Attribute chains of ``expr`` that mention a
    varying name -> {dump: source}."""
    out = {}

    def chain(n):
        return isinstance(n, (ast.Name, ast.Subscript, ast.Attribute))

    def visit(n):
        if chain(n):
            names = {x.id for x in ast.walk(n) if isinstance(x, ast.Name)}
            if names & varying:
                # descend through calls inside the subscript only when the
                # chain itself is not rooted in a name (f(x)[j])
                root = n
                while isinstance(root, (ast.Subscript, ast.Attribute)):
                    root = root.value
                if isinstance(root, ast.Name):
                    out[ast.dump(n)] = ast.unparse(n)
                    return
        for c in ast.iter_child_nodes(n):
            visit(c)
    visit(expr)
    return out


def check_hidden_state(prog, rep, modules=None, rule='A-state'):
    n_sites = 0
    for mod in prog.modules.values():
        if modules is not None and mod.name not in modules:
            continue
        tree = mod.tree if hasattr(mod, 'tree') else ast.parse(mod.src)
        fns = [f for f in prog.all_functions() if f.module is mod and
               isinstance(f.node, ast.FunctionDef)]
        # --- 1 / 2: module-level mutable objects and memo wrappers
        for st in tree.body:
            if not isinstance(st, (ast.Assign, ast.AnnAssign)):
                continue
            tgts = st.targets if isinstance(st, ast.Assign) else [st.target]
            val = st.value
            if val is None:
                continue
            for t in tgts:
                if not isinstance(t, ast.Name):
                    continue
                wrapped = _memo_wrapper_call(val)
                if wrapped is not None:
                    n_sites += 1
                    rep.violation(
                        rule, mod.name, model.norm_src(mod, st),
                        'module-level memo wrapper around %s: arguments are '
                        'hashed (a NumPy Generator by identity, whatever its '
                        'state) and every caller gets the same result object'
                        % ast.unparse(wrapped), line=st.lineno, file=mod.path)
                    continue
                if not _is_mutable_expr(val):
                    continue
                for f in fns:
                    ws = _writes_to(f.node, t.id)
                    if ws:
                        n_sites += 1
                        rep.violation(
                            rule, f.qualname, model.norm_src(mod, ws[0]),
                            'the module-level object %s is modified inside '
                            '%s: what a call returns depends on the calls '
                            'made before it in the same process'
                            % (t.id, f.qualname), line=ws[0].lineno,
                            file=mod.path)
        for f in fns:
            node = f.node
            # global rebinding of any module name
            for g in [n for n in ast.walk(node) if isinstance(n, ast.Global)]:
                for name in g.names:
                    ws = _writes_to(node, name)
                    if ws:
                        n_sites += 1
                        rep.violation(
                            rule, f.qualname, model.norm_src(mod, ws[0]),
                            'the module-level name %s is re-bound inside %s '
                            '(state that survives the call)' % (name,
                                                                f.qualname),
                            line=ws[0].lineno, file=mod.path)
            # --- 3: mutable default argument modified by the function
            a = node.args
            pos = a.posonlyargs + a.args
            defaults = dict(zip([x.arg for x in pos[len(pos) -
                                                    len(a.defaults):]],
                                a.defaults))
            defaults.update({k.arg: d for k, d in zip(a.kwonlyargs,
                                                      a.kw_defaults)
                             if d is not None})
            for pname, dv in defaults.items():
                if pname in EXEMPT_DEFAULTS or not _is_mutable_expr(dv):
                    continue
                ws = []
                for n in ast.walk(node):
                    if isinstance(n, (ast.Assign, ast.AugAssign)):
                        tg = n.targets if isinstance(n, ast.Assign) \
                            else [n.target]
                        for t in tg:
                            if isinstance(t, ast.Subscript) and \
                                    isinstance(t.value, ast.Name) and \
                                    t.value.id == pname:
                                ws.append(n)
                    if isinstance(n, ast.Call) and \
                            isinstance(n.func, ast.Attribute) and \
                            isinstance(n.func.value, ast.Name) and \
                            n.func.value.id == pname and \
                            n.func.attr in MUTATORS:
                        ws.append(n)
                if ws:
                    n_sites += 1
                    rep.violation(
                        rule, f.qualname, model.norm_src(mod, ws[0]),
                        'the mutable default of parameter %s is modified: '
                        'it is one object shared by all calls that do not '
                        'pass the argument' % pname, line=ws[0].lineno,
                        file=mod.path)
            # --- 4a: attribute memo in a method that has further parameters
            if f.cls is not None and len(pos) > 1:
                for tr in [n for n in ast.walk(node)
                           if isinstance(n, ast.Try)]:
                    if not (tr.body and isinstance(tr.body[0], ast.Return) and
                            isinstance(tr.body[0].value, ast.Attribute) and
                            isinstance(tr.body[0].value.value, ast.Name) and
                            tr.body[0].value.value.id == pos[0].arg):
                        continue
                    if not any(h.type is not None and 'AttributeError' in
                               ast.unparse(h.type) for h in tr.handlers):
                        continue
                    used = {x.id for x in ast.walk(node)
                            if isinstance(x, ast.Name) and
                            isinstance(x.ctx, ast.Load)}
                    extra = [p.arg for p in pos[1:] + a.kwonlyargs
                             if p.arg in used]
                    if extra:
                        n_sites += 1
                        rep.violation(
                            rule, f.qualname, model.norm_src(mod, tr.body[0]),
                            'the result is remembered on the object without '
                            'regard to the parameter(s) %s: a later call '
                            'with other arguments gets the first result'
                            % extra, line=tr.lineno, file=mod.path)
            # --- 4b: local / closure memo table with an insufficient key
            for iff in [n for n in ast.walk(node) if isinstance(n, ast.If)]:
                t = iff.test
                if not (isinstance(t, ast.Compare) and len(t.ops) == 1 and
                        isinstance(t.ops[0], ast.NotIn) and
                        isinstance(t.comparators[0], ast.Name)):
                    continue
                tab = t.comparators[0].id
                key = t.left
                store = None
                for b in iff.body:
                    if isinstance(b, ast.Assign) and \
                            isinstance(b.targets[0], ast.Subscript) and \
                            isinstance(b.targets[0].value, ast.Name) and \
                            b.targets[0].value.id == tab and \
                            ast.dump(b.targets[0].slice) == ast.dump(key):
                        store = b
                if store is None:
                    continue
                # the key may be a temporary: inline its single definition
                key_expr = key
                if isinstance(key, ast.Name):
                    defs = [n for n in ast.walk(node)
                            if isinstance(n, ast.Assign) and
                            isinstance(n.targets[0], ast.Name) and
                            n.targets[0].id == key.id]
                    if len(defs) == 1:
                        key_expr = defs[0].value
                inner = model.enclosing_function(prog, mod, iff)
                if inner is not f:
                    continue            # reported for the innermost def only
                # the table lives from the statement that creates it: only
                # what can change between two lookups of THAT table varies --
                # targets of the loops and parameters of the (nested)
                # functions between the creation and the memo statement.  A
                # table that is a parameter / attribute has an unknown
                # lifetime and is not judged.
                creator = None
                fscope = f
                is_param = False
                g_ = f
                while g_ is not None:
                    if tab in g_.all_params:
                        is_param = True
                    g_ = g_.parent
                if is_param:
                    continue            # the caller's table
                while fscope is not None and creator is None:
                    for n_ in ast.walk(fscope.node):
                        if isinstance(n_, ast.Assign) and \
                                isinstance(n_.targets[0], ast.Name) and \
                                n_.targets[0].id == tab and \
                                _is_mutable_expr(n_.value) and \
                                model.enclosing_function(prog, mod, n_) \
                                is fscope:
                            creator = (fscope, n_)
                            break
                    if creator is None:
                        fscope = fscope.parent
                if creator is None:
                    continue
                cnode = creator[0].node
                varying = set()
                cur = getattr(iff, '_parent', None)
                while cur is not None and cur is not cnode:
                    if isinstance(cur, ast.For):
                        # a loop that also (re)creates the table does not
                        # outlive one iteration
                        if not any(x is creator[1] for x in ast.walk(cur)):
                            varying |= {x.id for x in ast.walk(cur.target)
                                        if isinstance(x, ast.Name)}
                    if isinstance(cur, (ast.FunctionDef, ast.Lambda)):
                        a2 = cur.args
                        varying |= {x.arg for x in a2.posonlyargs + a2.args +
                                    a2.kwonlyargs}
                    cur = getattr(cur, '_parent', None)
                varying.discard('self')
                varying.discard(tab)
                if isinstance(key, ast.Name):
                    varying.discard(key.id)
                need = _varying_atoms(store.value, varying)
                have = _varying_atoms(key_expr, varying)
                # names that the key contains as plain elements: everything
                # computed from them alone is determined by the key
                elts = key_expr.elts if isinstance(key_expr, ast.Tuple) \
                    else [key_expr]
                bare = set()
                for e_ in elts:
                    while isinstance(e_, ast.Call) and len(e_.args) == 1 and \
                            isinstance(e_.func, ast.Name) and \
                            e_.func.id in ('int', 'float', 'str', 'tuple'):
                        e_ = e_.args[0]
                    if isinstance(e_, ast.Name):
                        bare.add(e_.id)
                # a name that occurs in the key outside of any subscript
                # INDEX (tuple(i.tolist()), i.tobytes(), (k, x)) enters the
                # key as a whole
                in_index = set()
                for sub_ in ast.walk(key_expr):
                    if isinstance(sub_, ast.Subscript):
                        in_index |= {id(x) for x in ast.walk(sub_.slice)}
                for x in ast.walk(key_expr):
                    if isinstance(x, ast.Name) and id(x) not in in_index:
                        bare.add(x.id)
                missing = []
                for d_, s_ in need.items():
                    if d_ in have:
                        continue
                    vn = {x.id for x in ast.walk(ast.parse(s_, mode='eval'))
                          if isinstance(x, ast.Name)} & varying
                    if vn <= bare:
                        continue
                    missing.append(s_)
                n_sites += 1
                if missing:
                    rep.violation(
                        rule, f.qualname, model.norm_src(mod, store),
                        'the memoised value reads %s, which the key %s does '
                        'not determine: a later lookup with an equal key '
                        'gets a value computed for other data'
                        % (sorted(missing), ast.unparse(key_expr)),
                        line=store.lineno, file=mod.path)
                else:
                    rep.ok(rule, f.qualname, model.norm_src(mod, store),
                           detail='memo key covers the varying items')
    rep.ok(rule, 'package', 'hidden-state scan of %s'
           % ('all modules' if modules is None else sorted(modules)),
           detail='%d sites' % n_sites)
    return n_sites
