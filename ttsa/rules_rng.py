"""R — provenance of randomness and other sources of nondeterminism.

All rules here are whole-package syntactic / def-use queries on the ast; the
interpreter adds the interprocedural R-draw provenance (props/C10.py).
"""
import ast

from . import model, paths
from .npcalls import DRAW_METHODS


def _fn_of(prog, mod, node):
    fn = model.enclosing_function(prog, mod, node)
    return fn.qualname if fn else mod.name


# ---------------------------------------------------------------------------
# R-global: references to numpy.random.*
GLOBAL_ALLOWED = {
    ('utils._rand', 'numpy.random.default_rng'):
        'the one place where a Generator is constructed from the seed',
    ('tensors.rand_custom', 'numpy.random.randn'):
        'documented default of rand_custom(f=...): the function takes no seed, '
        'the distribution is the caller\'s',
}


def global_random_refs(prog):
    """Yield (mod, where, node, qualified) for every reference to the
    process-wide numpy.random namespace (calls and bare references)."""
    for mod in prog.modules.values():
        seen = set()
        for node in ast.walk(mod.tree):
            if not isinstance(node, ast.Attribute):
                continue
            par = getattr(node, '_parent', None)
            if isinstance(par, ast.Attribute) and par.value is node:
                continue          # inner part of a longer chain
            dotted = prog.dotted(node)
            if dotted is None:
                continue
            r = prog.resolve_dotted(mod, dotted)
            if r and r[0] == 'ext' and r[1].startswith('numpy.random.'):
                yield mod, _fn_of(prog, mod, node), node, r[1]
        # from numpy.random import x
        for local, target in mod.imports.items():
            if target.startswith('numpy.random') and local not in seen:
                seen.add(local)
                for node in ast.walk(mod.tree):
                    if isinstance(node, ast.Name) and node.id == local and \
                            isinstance(node.ctx, ast.Load):
                        yield mod, _fn_of(prog, mod, node), node, target


def check_global(prog, rep, rule='R-global'):
    n = 0
    for mod, where, node, name in global_random_refs(prog):
        n += 1
        construct = model.norm_src(mod, node)
        if (where, name) in GLOBAL_ALLOWED:
            rep.ok(rule, where, construct,
                   detail='allowed: ' + GLOBAL_ALLOWED[(where, name)])
        else:
            rep.violation(rule, where, construct,
                          'reference to the process-wide NumPy generator '
                          '(%s); seeded functions must draw from '
                          'teneva._rand(seed) only' % name,
                          line=node.lineno, file=mod.path)
    return n


# ---------------------------------------------------------------------------
# R-draw (local provenance): receiver of every draw method
def draw_sites(prog):
    for mod in prog.modules.values():
        for node in ast.walk(mod.tree):
            if isinstance(node, ast.Call) and \
                    isinstance(node.func, ast.Attribute) and \
                    node.func.attr in DRAW_METHODS:
                dotted = prog.dotted(node.func)
                r = prog.resolve_dotted(mod, dotted) if dotted else None
                if r and r[0] in ('ext', 'teneva', 'teneva-unknown', 'pkg'):
                    continue      # numpy.random.* handled by R-global;
                                  # teneva.rand(...) is a function, not a draw
                fn = model.enclosing_function(prog, mod, node)
                yield mod, fn, node


def _assigned_from_rand(fn, name):
    """Is local ``name`` assigned (only) from teneva._rand(<param seed>)?"""
    vals = []
    f = fn
    while f is not None:
        for n in ast.walk(f.node):
            if isinstance(n, ast.Assign):
                for t in n.targets:
                    if isinstance(t, ast.Name) and t.id == name:
                        vals.append((f, n.value))
        if vals:
            break
        f = f.parent
    if not vals:
        return None
    ok = True
    for f, v in vals:
        if not (isinstance(v, ast.Call) and
                isinstance(v.func, ast.Attribute) and v.func.attr == '_rand'
                and len(v.args) == 1 and isinstance(v.args[0], ast.Name)
                and v.args[0].id in f.all_params):
            ok = False
    return ok


def local_provenance(prog, mod, fn, call):
    """-> ('seeded'|'param'|'self'|'unknown', text)"""
    recv = call.func.value
    if isinstance(recv, ast.Name):
        if fn is None:
            return 'unknown', recv.id
        f = fn
        while f is not None:
            if recv.id in f.all_params:
                return 'param', recv.id
            f = f.parent
        a = _assigned_from_rand(fn, recv.id)
        if a is True:
            return 'seeded', recv.id
        return 'unknown', recv.id
    if isinstance(recv, ast.Attribute) and isinstance(recv.value, ast.Name) \
            and recv.value.id == 'self':
        # self.rand must be assigned from _rand(seed) in __init__
        ci = fn.cls if fn else None
        if ci and '__init__' in ci.methods:
            init = ci.methods['__init__']
            for n in ast.walk(init.node):
                if isinstance(n, ast.Assign) and any(
                        isinstance(t, ast.Attribute) and t.attr == recv.attr
                        and isinstance(t.value, ast.Name) and
                        t.value.id == 'self' for t in n.targets):
                    v = n.value
                    if isinstance(v, ast.Call) and \
                            isinstance(v.func, ast.Attribute) and \
                            v.func.attr == '_rand' and len(v.args) == 1 and \
                            isinstance(v.args[0], ast.Name) and \
                            v.args[0].id in init.all_params:
                        return 'self', 'self.' + recv.attr
        return 'unknown', 'self.' + recv.attr
    return 'unknown', ast.dump(recv)[:40]


# ---------------------------------------------------------------------------
# R-forward: a seeded function forwards its seed / generator
def seeded_functions(prog):
    out = []
    for f in prog.all_functions():
        g = f
        while g is not None:
            if 'seed' in g.all_params or 'rand' in g.all_params:
                out.append(f)
                break
            g = g.parent
    return out


def check_forward(prog, rep, rule='R-forward'):
    n = 0
    for fn in seeded_functions(prog):
        mod = fn.module
        own = {p for p in fn.all_params if p in ('seed', 'rand')}
        f = fn.parent
        while f is not None:
            own |= {p for p in f.all_params if p in ('seed', 'rand')}
            f = f.parent
        derived = set(own)
        for node in ast.walk(fn.node):
            if isinstance(node, ast.Assign) and isinstance(node.value, ast.Call) \
                    and isinstance(node.value.func, ast.Attribute) and \
                    node.value.func.attr == '_rand':
                for t in node.targets:
                    if isinstance(t, ast.Name):
                        derived.add(t.id)
        for node in ast.walk(fn.node):
            if not isinstance(node, ast.Call):
                continue
            if model.enclosing_function(prog, mod, node) is not fn:
                continue
            dotted = prog.dotted(node.func)
            r = prog.resolve_dotted(mod, dotted, ()) if dotted else None
            if not r or r[0] != 'teneva' or \
                    not isinstance(r[1], model.Function):
                continue
            callee = r[1]
            if callee.name == '_rand':
                continue
            for sp in ('seed', 'rand'):
                if sp not in callee.all_params:
                    continue
                n += 1
                construct = model.norm_src(mod, node)
                arg = None
                for k in node.keywords:
                    if k.arg == sp:
                        arg = k.value
                if arg is None:
                    ps = callee.params
                    if callee.cls is not None and ps and ps[0] == 'self':
                        ps = ps[1:]
                    if sp in ps and ps.index(sp) < len(node.args):
                        arg = node.args[ps.index(sp)]
                if arg is None:
                    rep.violation(rule, fn.qualname, construct,
                                  'seeded function calls %s without passing '
                                  'its %s: the callee falls back to an '
                                  'unseeded generator' % (callee.qualname, sp),
                                  line=node.lineno, file=mod.path)
                elif isinstance(arg, ast.Name) and arg.id in derived:
                    rep.ok(rule, fn.qualname, construct)
                elif isinstance(arg, ast.Attribute) and \
                        isinstance(arg.value, ast.Name) and \
                        arg.value.id == 'self':
                    rep.ok(rule, fn.qualname, construct)
                else:
                    rep.violation(rule, fn.qualname, construct,
                                  'the %s passed to %s is not derived from '
                                  'this function\'s own seed / generator'
                                  % (sp, callee.qualname),
                                  line=node.lineno, file=mod.path)
    return n


# ---------------------------------------------------------------------------
# R-defaults: mutable default arguments
def mutable_defaults(prog):
    for fn in prog.all_functions():
        if isinstance(fn.node, ast.Lambda):
            continue
        for p, d in fn.defaults().items():
            if isinstance(d, (ast.Dict, ast.List, ast.Set)) or (
                    isinstance(d, ast.Call) and isinstance(d.func, ast.Name)
                    and d.func.id in ('dict', 'list', 'set')):
                yield fn, p, d


def _key_uses(prog, fn, pname, seen=None, depth=0):
    """Keys read / written through parameter ``pname`` in fn and in teneva
    callees that receive it.  -> (reads {key: node}, writes {key}, other)"""
    seen = seen if seen is not None else set()
    if (fn.qualname, pname) in seen or depth > 4:
        return {}, set(), []
    seen.add((fn.qualname, pname))
    reads, writes, other = {}, set(), []
    via_call = {}       # key -> line of the call through which it is read
    mod = fn.module
    for node in ast.walk(fn.node):
        if isinstance(node, ast.Subscript) and isinstance(node.value, ast.Name) \
                and node.value.id == pname:
            key = node.slice.value if isinstance(node.slice, ast.Constant) \
                else None
            par = getattr(node, '_parent', None)
            if isinstance(node.ctx, ast.Store):
                if key is not None:
                    writes.add(key)
                else:
                    other.append(node)
            else:
                if isinstance(par, ast.AugAssign) and par.target is node:
                    pass
                if key is not None:
                    reads.setdefault(key, node)
                else:
                    other.append(node)
            if isinstance(par, ast.AugAssign) and par.target is node and \
                    key is not None:
                reads.setdefault(key, node)
                writes.add(key)
        elif isinstance(node, ast.Compare) and len(node.ops) == 1 and \
                isinstance(node.ops[0], (ast.In, ast.NotIn)) and \
                isinstance(node.comparators[0], ast.Name) and \
                node.comparators[0].id == pname:
            if isinstance(node.left, ast.Constant):
                reads.setdefault(node.left.value, node)
            else:
                other.append(node)
        elif isinstance(node, ast.Call):
            # method on the dict
            if isinstance(node.func, ast.Attribute) and \
                    isinstance(node.func.value, ast.Name) and \
                    node.func.value.id == pname:
                if node.func.attr == 'update' and \
                        update_items(node) is not None:
                    for k, _v in update_items(node):
                        writes.add(k)
                elif node.func.attr in ('get',) and node.args and \
                        isinstance(node.args[0], ast.Constant):
                    reads.setdefault(node.args[0].value, node)
                elif node.func.attr in ('keys', 'values', 'items'):
                    other.append(node)
            # passed on to a teneva callee
            dotted = prog.dotted(node.func)
            r = prog.resolve_dotted(mod, dotted, ()) if dotted else None
            callee = r[1] if r and r[0] == 'teneva' and \
                isinstance(r[1], model.Function) else None
            if callee is None and isinstance(node.func, ast.BoolOp):
                # (func or _func)(...)
                for v in node.func.values:
                    d2 = prog.dotted(v)
                    r2 = prog.resolve_dotted(mod, d2, fn.all_params) \
                        if d2 else None
                    if r2 and r2[0] == 'teneva' and \
                            isinstance(r2[1], model.Function):
                        callee = r2[1]
            if callee is not None:
                ps = callee.params
                for i, a in enumerate(node.args):
                    if isinstance(a, ast.Name) and a.id == pname and \
                            i < len(ps):
                        r_, w_, o_ = _key_uses(prog, callee, ps[i], seen,
                                               depth + 1)
                        for k, v in r_.items():
                            if k not in reads:
                                via_call[k] = node.lineno
                            reads.setdefault(k, v)
                        writes |= w_
                        other += o_
                for k in node.keywords:
                    if isinstance(k.value, ast.Name) and k.value.id == pname \
                            and k.arg in callee.all_params:
                        r_, w_, o_ = _key_uses(prog, callee, k.arg, seen,
                                               depth + 1)
                        for kk, v in r_.items():
                            if kk not in reads:
                                via_call[kk] = node.lineno
                            reads.setdefault(kk, v)
                        writes |= w_
                        other += o_
    # a key assigned by a top-level statement of this function before it is
    # read here is (re)initialised locally: not a carried-over read
    top = {}
    for st in paths.linear(fn.node.body):
        if isinstance(st, ast.Assign) and len(st.targets) == 1:
            sk = paths.subscript_key(st.targets[0])
            if sk and sk[0] == pname and sk[1] not in top:
                top[sk[1]] = st.lineno
    for k in list(reads):
        if k in top and getattr(reads[k], 'lineno', 0) > top[k] and \
                model.enclosing_function(prog, mod, reads[k]) is fn:
            del reads[k]
        elif k in top and k in via_call and via_call[k] > top[k]:
            # read in a callee that is called after the local (re)assignment
            del reads[k]
    return reads, writes, other


def top_resets(prog, fn, p, depth=0):
    """Keys of the dict parameter ``p`` that are (re)assigned by the leading
    statements of ``fn`` before any other use of p: ``p.update(<literal>)``,
    ``p['k'] = <expr not reading p>``, or a call of a package helper that
    receives p and does the same at ITS top."""
    mod = fn.module
    reset = set()
    for st in paths.linear(fn.node.body):
        uses = [x for x in paths.own_walk(st)
                if isinstance(x, ast.Name) and x.id == p]
        if not uses:
            continue
        is_reset = False
        if isinstance(st, ast.Expr) and isinstance(st.value, ast.Call) and \
                isinstance(st.value.func, ast.Attribute) and \
                st.value.func.attr == 'update' and \
                isinstance(st.value.func.value, ast.Name) and \
                st.value.func.value.id == p and \
                update_items(st.value):
            # values of the literal must not read p itself
            its_ = update_items(st.value)
            vals_use = [x for _k, v in its_
                        for x in ast.walk(v)
                        if isinstance(x, ast.Name) and x.id == p]
            if not vals_use:
                is_reset = True
                for k, _v in its_:
                    reset.add(k)
        elif isinstance(st, ast.Assign) and len(st.targets) == 1 and \
                paths.subscript_key(st.targets[0]) and \
                paths.subscript_key(st.targets[0])[0] == p and \
                not [x for x in ast.walk(st.value)
                     if isinstance(x, ast.Name) and x.id == p]:
            is_reset = True
            reset.add(paths.subscript_key(st.targets[0])[1])
        elif isinstance(st, ast.Expr) and isinstance(st.value, ast.Call) and \
                depth < 2:
            from . import roles as _roles
            try:
                callee = _roles.callee_of(prog, mod, st.value)
                amap = _roles.arg_names(prog, mod, st.value) or {}
            except Exception:
                callee, amap = None, {}
            pars = [q for q, a in amap.items()
                    if isinstance(a, ast.Name) and a.id == p]
            others = [a for q, a in amap.items() if q not in pars and any(
                isinstance(x, ast.Name) and x.id == p for x in ast.walk(a))]
            if callee is not None and len(pars) == 1 and not others:
                sub = top_resets(prog, callee, pars[0], depth + 1)
                if sub:
                    is_reset = True
                    reset |= sub
        if not is_reset:
            break
    return reset


def check_defaults(prog, rep, rule='R-defaults'):
    n = 0
    for fn, p, d in mutable_defaults(prog):
        n += 1
        mod = fn.module
        where = fn.qualname
        construct = '%s=%s' % (p, model.norm_src(mod, d))
        # reset keys: a top-level  p.update({...})  and top-level p['k'] = ...
        # statements that precede every other use of p (also inside a helper
        # that is called at the top with p as an argument)
        reset = top_resets(prog, fn, p)
        reads, writes, other = _key_uses(prog, fn, p)
        stale = sorted(k for k in reads
                       if k not in reset and k in writes)
        # an update() at the top whose argument is not a literal table (built
        # by a call, a comprehension, ...) may reset anything: not decided
        opaque = any(
            isinstance(st_, ast.Expr) and isinstance(st_.value, ast.Call) and
            isinstance(st_.value.func, ast.Attribute) and
            st_.value.func.attr == 'update' and
            isinstance(st_.value.func.value, ast.Name) and
            st_.value.func.value.id == p and update_items(st_.value) is None
            for st_ in paths.linear(fn.node.body)[:6])
        if stale and opaque:
            rep.unknown(rule, where, construct,
                        'the reset at entry is %s.update(<computed table>)'
                        % p, line=fn.node.lineno, file=mod.path)
        elif stale:
            k = stale[0]
            rep.violation(rule, where, construct,
                          'key %r of the default %s object is read (line %d) '
                          'but not reset at entry, and some call writes it: '
                          'state carries over between calls that omit %s'
                          % (k, p, reads[k].lineno, p),
                          line=fn.node.lineno, file=mod.path)
        else:
            rep.ok(rule, where, construct,
                   detail='reset at entry: %s; read: %s'
                   % (sorted(map(str, reset)), sorted(map(str, reads))))
    return n


def update_items(call):
    """(key, value) pairs written by ``d.update(...)`` in any of its literal
    spellings: a dict display, keyword arguments, ``dict(k=v, ...)``; None
    when the argument is not literal."""
    items = []
    for a in call.args:
        if isinstance(a, ast.Name):
            # a module-level constant table:  info.update(_INFO_RESET)
            root = call
            while getattr(root, '_parent', None) is not None:
                root = root._parent
            found = None
            for st in getattr(root, 'body', []):
                if isinstance(st, ast.Assign) and any(
                        isinstance(t, ast.Name) and t.id == a.id
                        for t in st.targets):
                    found = st.value
            if found is None:
                return None
            a = found
        if isinstance(a, (ast.Tuple, ast.List)) and all(
                isinstance(e_, (ast.Tuple, ast.List)) and len(e_.elts) == 2
                and isinstance(e_.elts[0], ast.Constant) for e_ in a.elts):
            # an iterable of (key, value) pairs
            items.extend((e_.elts[0].value, e_.elts[1]) for e_ in a.elts)
        elif isinstance(a, ast.Dict):
            for k, v in zip(a.keys, a.values):
                if not isinstance(k, ast.Constant):
                    return None
                items.append((k.value, v))
        elif isinstance(a, ast.Call) and isinstance(a.func, ast.Name) and \
                a.func.id == 'dict' and not a.args and \
                all(k.arg is not None for k in a.keywords):
            items.extend((k.arg, k.value) for k in a.keywords)
        else:
            return None
    for k in call.keywords:
        if k.arg is None:
            return None
        items.append((k.arg, k.value))
    return items


# ---------------------------------------------------------------------------
# R-uninit: np.empty arrays
def empty_sites(prog):
    for mod in prog.modules.values():
        for node in ast.walk(mod.tree):
            if isinstance(node, ast.Call):
                dotted = prog.dotted(node.func)
                r = prog.resolve_dotted(mod, dotted) if dotted else None
                if r and r[0] == 'ext' and r[1] in ('numpy.empty',
                                                    'numpy.empty_like'):
                    fn = model.enclosing_function(prog, mod, node)
                    yield mod, fn, node


def _loop_has_conditional_skip_before(loop, store_stmt):
    """Is there an `if ...: continue/break` before store_stmt in the loop body
    chain (any enclosing loop level up to `loop`)?"""
    pm = paths.parent_map(loop)
    node = store_stmt
    while node is not loop:
        par = pm.get(node)
        if par is None:
            break
        for name, block in paths._blocks(par):
            if node in block:
                idx = block.index(node)
                for prev in block[:idx]:
                    if isinstance(prev, ast.If) and (
                            paths.always_exits(prev.body) or
                            paths.always_exits(prev.orelse or [])):
                        return prev
                if isinstance(par, ast.If):
                    return par
        node = par
    return None


def check_uninit(prog, rep, rule='R-uninit'):
    """Positive rule: an np.empty array whose every store sits behind a
    condition (an `if`, or a preceding `if ...: continue`) inside a loop, and
    which is read as a whole afterwards, may expose uninitialised memory.
    A partial slice store (bounded slice on some axis) followed by a whole
    read is flagged the same way.  Sites filled unconditionally are 'ok'."""
    n = 0
    for mod, fn, call in empty_sites(prog):
        n += 1
        where = fn.qualname if fn else mod.name
        par = getattr(call, '_parent', None)
        # x = <other> if c else np.empty(..): the buffer is uninitialised on
        # one arm, which is enough
        while isinstance(par, ast.IfExp):
            par = getattr(par, '_parent', None)
        construct = model.norm_src(mod, par if isinstance(par, ast.Assign)
                                   else call)
        if not (isinstance(par, ast.Assign) and len(par.targets) == 1 and
                isinstance(par.targets[0], ast.Name)) or fn is None:
            rep.unknown(rule, where, construct, 'np.empty not bound to a name')
            continue
        var = par.targets[0].id
        # an array with a literal zero extent has no entry to initialise
        shp = call.args[0] if call.args else None
        if isinstance(shp, (ast.Tuple, ast.List)) and any(
                isinstance(x, ast.Constant) and x.value == 0
                for x in shp.elts):
            rep.ok(rule, where, construct, detail='zero-size buffer')
            continue
        # aliases: row views through  for ... in zip(..., var, ...)  / var
        views = {}        # view name -> loop node
        for node in ast.walk(fn.node):
            if isinstance(node, ast.For):
                it = node.iter
                srcs = []
                if isinstance(it, ast.Name):
                    srcs = [(it, node.target)]
                elif isinstance(it, ast.Call) and isinstance(it.func, ast.Name) \
                        and it.func.id == 'zip' and \
                        isinstance(node.target, ast.Tuple) and \
                        len(node.target.elts) == len(it.args):
                    srcs = list(zip(it.args, node.target.elts))
                for s, t in srcs:
                    if isinstance(s, ast.Name) and s.id == var and \
                            isinstance(t, ast.Name) and \
                            s.lineno > par.lineno:
                        views[t.id] = node
        # views bound by assignment:  col = var[:, k]  (basic indexing), also
        # inside a parallel assignment  k, col = n[i], var[:, i]
        aviews = set()
        unpaired = False

        def _is_view(v_):
            return isinstance(v_, ast.Subscript) and \
                isinstance(v_.value, ast.Name) and v_.value.id == var
        for node in ast.walk(fn.node):
            if not (isinstance(node, ast.Assign) and len(node.targets) == 1
                    and node.lineno > par.lineno):
                continue
            t_, v_ = node.targets[0], node.value
            if isinstance(t_, ast.Name) and _is_view(v_):
                aviews.add(t_.id)
            elif isinstance(t_, ast.Tuple) and isinstance(v_, ast.Tuple) and \
                    len(t_.elts) == len(v_.elts):
                for a_, b_ in zip(t_.elts, v_.elts):
                    if _is_view(b_):
                        if isinstance(a_, ast.Name):
                            aviews.add(a_.id)
                        else:
                            unpaired = True
            elif any(_is_view(x) for x in ast.walk(v_)) and \
                    isinstance(v_, (ast.Tuple, ast.List)):
                unpaired = True
        stores = []
        escapes = []
        for node in ast.walk(fn.node):
            if isinstance(node, (ast.Assign, ast.AugAssign)):
                tg0 = node.targets if isinstance(node, ast.Assign) else \
                    [node.target]
                # chained assignment: a = b[i] = v ; parallel assignment:
                # p, b[i] = f()
                tg = []
                for t in tg0:
                    if isinstance(t, (ast.Tuple, ast.List)):
                        tg.extend(x for x in ast.walk(t)
                                  if isinstance(x, ast.Subscript) and
                                  isinstance(x.ctx, ast.Store))
                    else:
                        tg.append(t)
                for t in tg:
                    if isinstance(t, ast.Subscript) and \
                            isinstance(t.value, ast.Name) and \
                            node.lineno > par.lineno:
                        if t.value.id == var or t.value.id in aviews:
                            stores.append((node, t, None))
                        elif t.value.id in views and \
                                _inside(views[t.value.id], node):
                            stores.append((node, t, views[t.value.id]))
            if isinstance(node, ast.Call) and node is not call and \
                    getattr(node, 'lineno', 0) > par.lineno:
                # the buffer handed to a callee (out=..., a helper that fills
                # it): it may be written there
                for a_ in list(node.args) + [k.value for k in node.keywords]:
                    base_ = a_
                    while isinstance(base_, ast.Subscript):
                        base_ = base_.value
                    if isinstance(base_, ast.Name) and (
                            base_.id == var or base_.id in aviews or
                            base_.id in views):
                        fname_ = prog.dotted(node.func) or ''
                        if fname_ in ('len', 'numpy.shape', 'numpy.ndim'):
                            continue
                        is_out = any(k.arg == 'out' and k.value is a_
                                     for k in node.keywords)
                        callee_ = None
                        try:
                            from . import roles as _roles
                            callee_ = _roles.callee_of(prog, mod, node)
                        except Exception:
                            callee_ = None
                        if is_out or callee_ is not None:
                            escapes.append(node)
        if not stores:
            if unpaired:
                rep.unknown(rule, where, construct, 'views of %s are bound '
                            'in a way that is not followed' % var)
            elif escapes:
                rep.unknown(rule, where, construct,
                            'np.empty array %s is filled through a call '
                            '(line %d): not followed' % (var,
                                                         escapes[0].lineno))
            else:
                rep.violation(rule, where, construct,
                              'np.empty array %s is never assigned' % var,
                              line=call.lineno, file=mod.path)
            continue
        cond = []
        pm = paths.parent_map(fn.node)

        def _ancestors(n_):
            out_ = []
            while n_ in pm:
                n_ = pm[n_]
                out_.append(n_)
            return out_
        anc_create = set(map(id, _ancestors(par)))
        for st, t, viewloop in stores:
            # loops that enclose the store but not the creation of the buffer
            # (innermost first): a store in the SAME iteration as the
            # np.empty is judged relative to that iteration
            loops_ = [x for x in _ancestors(st)
                      if isinstance(x, (ast.For, ast.While)) and
                      id(x) not in anc_create]
            guard = None
            if loops_:
                guard = _loop_has_conditional_skip_before(loops_[-1], st)
            cond.append(guard)
        if all(g is not None for g in cond) and not escapes:
            g = cond[0]
            rep.violation(rule, where, construct,
                          'every store into the np.empty array %s is '
                          'conditional (line %d: %s) while the array is used '
                          'as a whole afterwards: unassigned entries are '
                          'uninitialised memory'
                          % (var, g.lineno, model.norm_src(mod, g.test)),
                          line=call.lineno, file=mod.path)
            continue
        if all(g is not None for g in cond):
            rep.unknown(rule, where, construct, 'conditional stores plus a '
                        'fill through a call: not followed')
            continue
        rep.ok(rule, where, construct,
               detail='%d store site(s), at least one unconditional'
               % len(stores))
    return n


def _inside(outer, node):
    for n in ast.walk(outer):
        if n is node:
            return True
    return False


def _enclosing_loop(fn_node, node):
    pm = paths.parent_map(fn_node)
    cur = node
    while cur in pm:
        cur = pm[cur]
        if isinstance(cur, (ast.For, ast.While)):
            return cur
    return None


# ---------------------------------------------------------------------------
# R-clock: perf_counter values reach only info['t'] and log text
def check_clock(prog, rep, rule='R-clock'):
    n = 0
    for fn in prog.all_functions():
        if isinstance(fn.node, ast.Lambda):
            continue
        mod = fn.module
        clock_names = {l for l, t in mod.imports.items()
                       if t in ('time.perf_counter', 'time.time',
                                'time.monotonic')}

        def is_clock_call(x):
            if isinstance(x, ast.Call):
                d = prog.dotted(x.func)
                if d in clock_names:
                    return True
                r = prog.resolve_dotted(mod, d) if d else None
                if r and r[0] == 'ext' and r[1].startswith('time.') and \
                        r[1].split('.')[-1] in ('perf_counter', 'time',
                                                'monotonic', 'process_time'):
                    return True
            return False
        tainted = set()
        # parameters that receive a clock value (t of _info_appr)
        if fn.qualname == 'utils._info_appr' and 't' in fn.all_params:
            tainted.add('t')
        changed = True
        own_nodes = [x for x in ast.walk(fn.node)]
        while changed:
            changed = False
            for x in own_nodes:
                if isinstance(x, ast.Assign) and _has_clock(x.value, tainted,
                                                            is_clock_call):
                    for t in x.targets:
                        if isinstance(t, ast.Name) and t.id not in tainted:
                            tainted.add(t.id)
                            changed = True
        if not tainted and not any(is_clock_call(x) for x in own_nodes) and \
                not any(_has_clock(x, tainted, is_clock_call)
                        for x in own_nodes if isinstance(x, ast.stmt)):
            continue
        for x in own_nodes:
            if not isinstance(x, ast.stmt):
                continue
            if isinstance(x, (ast.FunctionDef, ast.If, ast.For, ast.While,
                              ast.With, ast.Try)):
                # only the header expressions
                hdr = []
                if isinstance(x, (ast.If, ast.While)):
                    hdr = [x.test]
                elif isinstance(x, ast.For):
                    hdr = [x.iter]
                exprs = hdr
            else:
                exprs = [x]
            for e in exprs:
                if not _has_clock(e, tainted, is_clock_call):
                    continue
                n += 1
                construct = model.norm_src(mod, x if e is x else e)
                ok = False
                # every clock value of the expression is an ARGUMENT of the
                # shared stop-criterion / log routine (whatever is done with
                # the routine's result: tested, negated, stored, returned)
                def _in_sink(nd, top):
                    cur = getattr(nd, '_parent', None)
                    prev = nd
                    while cur is not None and prev is not top:
                        if isinstance(cur, ast.Call) and prev is not cur.func:
                            dd = prog.dotted(cur.func)
                            if dd and dd.split('.')[-1] in (
                                    '_info_appr', '_log', 'print'):
                                return True
                        prev, cur = cur, getattr(cur, '_parent', None)
                    return False
                srcs = [y for y in ast.walk(e) if is_clock_call(y) or (
                    isinstance(y, ast.Name) and
                    isinstance(y.ctx, ast.Load) and y.id in tainted)]
                if srcs and all(_in_sink(y, e) for y in srcs) and \
                        not any(isinstance(y, ast.Subscript) and
                                isinstance(y.slice, ast.Constant) and
                                y.slice.value == 't' for y in ast.walk(e)):
                    ok = True
                if ok:
                    pass
                elif isinstance(x, ast.Assign) and e is x:
                    tg = x.targets
                    if all(isinstance(t, ast.Name) for t in tg):
                        ok = True
                    elif all(paths.subscript_key(t) and
                             paths.subscript_key(t)[1] == 't' for t in tg):
                        ok = True
                elif isinstance(x, ast.Expr) and isinstance(x.value, ast.Call):
                    d = prog.dotted(x.value.func)
                    if d and d.split('.')[-1] in ('_info_appr', '_log',
                                                  'print'):
                        ok = True
                elif isinstance(x, (ast.If, ast.Return)) and \
                        isinstance(getattr(x, 'test', getattr(x, 'value', None)),
                                   ast.Call):
                    c = getattr(x, 'test', getattr(x, 'value', None))
                    d = prog.dotted(c.func)
                    if d and d.split('.')[-1] == '_info_appr':
                        ok = True
                elif isinstance(x, ast.AugAssign) and \
                        isinstance(x.target, ast.Name) and \
                        x.target.id == 'text':
                    ok = True
                if ok:
                    rep.ok(rule, fn.qualname, construct)
                else:
                    rep.violation(rule, fn.qualname, construct,
                                  'a wall-clock value flows somewhere other '
                                  'than info["t"] / log text',
                                  line=x.lineno, file=mod.path)
    return n


def _has_clock(node, tainted, is_clock_call):
    for x in ast.walk(node):
        if is_clock_call(x):
            return True
        if isinstance(x, ast.Subscript) and isinstance(x.ctx, ast.Load) and \
                isinstance(x.slice, ast.Constant) and x.slice.value == 't' \
                and isinstance(x.value, ast.Name) and x.value.id == 'info':
            par = getattr(x, '_parent', None)
            if not isinstance(par, ast.FormattedValue):
                return True
        if isinstance(x, ast.Name) and isinstance(x.ctx, ast.Load) and \
                x.id in tainted:
            return True
    return False


# ---------------------------------------------------------------------------
# R-iter-order: iteration over sets / hash- or id-dependent ordering
def check_iter_order(prog, rep, rule='R-iter-order'):
    n = 0
    for mod in prog.modules.values():
        for node in ast.walk(mod.tree):
            its = []
            if isinstance(node, ast.For):
                its.append(node.iter)
            elif isinstance(node, ast.comprehension):
                its.append(node.iter)
            for it in its:
                n += 1
                bad = isinstance(it, (ast.Set, ast.SetComp)) or (
                    isinstance(it, ast.Call) and isinstance(it.func, ast.Name)
                    and it.func.id in ('set', 'frozenset'))
                where = _fn_of(prog, mod, node if isinstance(node, ast.For)
                               else it)
                if bad:
                    rep.violation(rule, where, model.norm_src(mod, it),
                                  'iteration over a set: order depends on '
                                  'hashing', line=it.lineno, file=mod.path)
            if isinstance(node, ast.Call) and isinstance(node.func, ast.Name) \
                    and node.func.id in ('hash', 'id'):
                rep.violation(rule, _fn_of(prog, mod, node),
                              model.norm_src(mod, node),
                              'hash()/id() dependent value',
                              line=node.lineno, file=mod.path)
    rep.ok(rule, '<package>', '%d loops / comprehensions scanned' % n)
    return n


# ---------------------------------------------------------------------------
def check_rand_ctor(prog, rep, rule='R-seed-ctor', qual='utils._rand'):
    """In the seed normaliser every constructed generator receives the seed;
    an unseeded construction is allowed only under  seed is None ."""
    fn = prog.func(qual)
    mod = fn.module
    seedp = fn.params[0] if fn.params else 'seed'
    n = 0
    for node in ast.walk(fn.node):
        if isinstance(node, ast.Call):
            d = prog.dotted(node.func) or ''
            r = prog.resolve_dotted(mod, d)
            if not (r and r[0] == 'ext' and r[1].startswith('numpy.random.')):
                continue
            n += 1
            passes = any(isinstance(a, ast.Name) and a.id == seedp
                         for a in node.args) or any(
                isinstance(k.value, ast.Name) and k.value.id == seedp
                for k in node.keywords)
            gs = paths.guards_of(fn.node, node)
            construct = model.norm_src(mod, node)
            if passes:
                # the guard must admit every int: truthiness tests lose seed 0
                truthy = [t for t, pol in gs
                          if isinstance(t, ast.Name) and t.id == seedp] + \
                         [t for t, pol in gs
                          if isinstance(t, ast.UnaryOp) and
                          isinstance(t.op, ast.Not) and
                          isinstance(t.operand, ast.Name) and
                          t.operand.id == seedp]
                if truthy:
                    rep.violation(rule, qual, construct,
                                  'the seeded construction is guarded by the '
                                  'truth value of the seed: seed 0 is treated '
                                  'like "no seed"', line=node.lineno,
                                  file=mod.path)
                else:
                    rep.ok(rule, qual, construct)
            else:
                only_none = any(
                    pol and isinstance(t, ast.Compare) and
                    isinstance(t.left, ast.Name) and t.left.id == seedp and
                    isinstance(t.ops[0], ast.Is) and
                    isinstance(t.comparators[0], ast.Constant) and
                    t.comparators[0].value is None for t, pol in gs)
                if only_none:
                    rep.ok(rule, qual, construct, detail='under seed is None')
                else:
                    rep.violation(rule, qual, construct,
                                  'a generator is constructed without the '
                                  'seed on a path that is not restricted to '
                                  '"seed is None" (e.g. integer seed 0 would '
                                  'give fresh entropy)', line=node.lineno,
                                  file=mod.path)
    if n == 0:
        rep.error('%s: no generator construction found' % qual)
