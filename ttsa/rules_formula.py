"""F — small closed-form rules decided on extracted expressions.

* ``selector_tables``   comparisons of two integer names (finite set of
  orderings lt / eq / gt): truth vectors are compared, so `m <= n` and
  `not (m > n)` agree while `m < n` does not.
* ``rank_formula``      the integer rank expression of the truncated
  factorisations, constant-folded by the checker's own evaluator over a
  bounded grid and compared with  max(1, min(cap, len - dropped)).
"""
import ast
import itertools

from . import model, paths


def _cmp_vector(test, a, b):
    """Truth vector of a comparison of names a, b over (lt, eq, gt), or None
    when the test is not such a comparison."""
    vec = []
    for va, vb in ((1, 2), (2, 2), (2, 1)):
        try:
            val = _eval_cmp(test, {a: va, b: vb})
        except Exception:
            return None
        if val is None:
            return None
        vec.append(bool(val))
    return tuple(vec)


def _eval_cmp(node, env):
    if isinstance(node, ast.Compare) and len(node.ops) == 1:
        l = _eval_int(node.left, env)
        r = _eval_int(node.comparators[0], env)
        if l is None or r is None:
            return None
        op = type(node.ops[0])
        return {ast.Lt: l < r, ast.LtE: l <= r, ast.Gt: l > r,
                ast.GtE: l >= r, ast.Eq: l == r, ast.NotEq: l != r}.get(op)
    if isinstance(node, ast.UnaryOp) and isinstance(node.op, ast.Not):
        v = _eval_cmp(node.operand, env)
        return None if v is None else (not v)
    return None


def _eval_int(node, env):
    """Evaluate an integer expression over +,-,*,//,min,max,int,len-atoms."""
    if isinstance(node, ast.Constant) and isinstance(node.value, (int, float)):
        return node.value
    if isinstance(node, ast.Name):
        return env.get(node.id)
    if isinstance(node, ast.BinOp):
        l, r = _eval_int(node.left, env), _eval_int(node.right, env)
        if l is None or r is None:
            return None
        if isinstance(node.op, ast.Add):
            return l + r
        if isinstance(node.op, ast.Sub):
            return l - r
        if isinstance(node.op, ast.Mult):
            return l * r
        if isinstance(node.op, ast.FloorDiv) and r != 0:
            return l // r
        return None
    if isinstance(node, ast.UnaryOp) and isinstance(node.op, ast.USub):
        v = _eval_int(node.operand, env)
        return None if v is None else -v
    if isinstance(node, ast.Call) and isinstance(node.func, ast.Name):
        args = [_eval_int(a, env) for a in node.args]
        if node.func.id == 'len' and len(node.args) == 1 and \
                isinstance(node.args[0], ast.Name):
            return env.get('len(%s)' % node.args[0].id)
        if any(a is None for a in args):
            return None
        if node.func.id == 'min':
            return min(args)
        if node.func.id == 'max':
            return max(args)
        if node.func.id == 'int' and len(args) == 1:
            return int(args[0])
    return None


def check_selectors(prog, rep, qual='svd.matrix_svd', a='m', b='n',
                    rule='O-gram'):
    """All tests of the function that compare a with b select the same set of
    orderings (Gram side, right factor and left factor must be chosen by one
    predicate)."""
    fn = prog.func(qual)
    mod = fn.module
    vecs = []
    for node in ast.walk(fn.node):
        t = None
        if isinstance(node, (ast.If, ast.IfExp)):
            t = node.test
        if t is None:
            continue
        v = _cmp_vector(t, a, b)
        if v is not None:
            vecs.append((v, t))
    if len(vecs) < 3:
        rep.error('%s: expected three %s-vs-%s selectors, found %d'
                  % (qual, a, b, len(vecs)))
        return
    ref = vecs[0][0]
    for v, t in vecs:
        ok = v == ref
        rep.add(rule, qual, 'selector %s' % paths.src(mod, t) +
                ' (#%d)' % (vecs.index((v, t)) + 1),
                'ok' if ok else 'violation',
                '' if ok else 'this selector is true for orderings %s of '
                '(%s,%s) while the first one (%s) is true for %s: the Gram '
                'side and the factor formulas are chosen inconsistently'
                % (_ord(v), a, b, paths.src(mod, vecs[0][1]), _ord(ref)),
                line=t.lineno, file=mod.path)


def _ord(v):
    return [n for n, x in zip(('<', '=', '>'), v) if x]


def check_rank_formula(prog, rep, qual, rule='F-rank'):
    """rank == max(1, min(int(r), len(s) - dlen)) on a bounded grid."""
    fn = prog.func(qual)
    mod = fn.module
    target = None
    for node in ast.walk(fn.node):
        if isinstance(node, ast.Assign) and isinstance(node.value, ast.Call) \
                and isinstance(node.value.func, ast.Name) and \
                node.value.func.id == 'max' and \
                isinstance(node.targets[0], ast.Name):
            names = {x.id for x in ast.walk(node.value)
                     if isinstance(x, ast.Name)}
            if 'dlen' in names and 'r' in names:
                target = node
    if target is None:
        rep.violation(rule, qual, 'rank = max(1, min(int(r), len(s) - dlen))',
                      'the rank selection expression was not found',
                      line=fn.node.lineno, file=mod.path)
        return
    bad = None
    n = 0
    for cap, ln, dl in itertools.product(range(1, 7), range(1, 7),
                                         range(0, 7)):
        if dl > ln:
            continue
        n += 1
        env = {'r': cap, 'dlen': dl, 'len(s)': ln, 'len(w)': ln}
        got = _eval_int(target.value, env)
        want = max(1, min(cap, ln - dl))
        if got is None:
            rep.unknown(rule, qual, paths.src(mod, target),
                        'expression not evaluable by the checker')
            return
        if got != want:
            bad = (cap, ln, dl, got, want)
            break
    rep.add(rule, qual, paths.src(mod, target),
            'ok' if bad is None else 'violation',
            'folded on %d (cap, len, dropped) triples' % n if bad is None else
            'for cap r=%d, %d singular values and %d droppable ones the '
            'expression gives rank %d, the tail-energy rule requires '
            'max(1, min(r, len - dropped)) = %d' % bad,
            line=target.lineno, file=mod.path)
    # dlen: number of droppable values = 1 + last index of the cumulative
    # tail energy that is <= e**2
    ok_cmp = False
    for node in ast.walk(fn.node):
        if isinstance(node, ast.Compare) and len(node.ops) == 1 and \
                isinstance(node.ops[0], ast.LtE):
            txt = paths.src(mod, node).replace(' ', '')
            if 'cumsum' in txt and 'e**2' in txt and '[::-1]' in txt:
                ok_cmp = True
    rep.add(rule + '-tail', qual, 'cumsum(tail energies) <= e**2',
            'ok' if ok_cmp else 'violation',
            '' if ok_cmp else 'the droppable tail is no longer the longest '
            'tail whose cumulative energy is <= e**2 (reversed cumulative sum, '
            'non-strict comparison)', line=fn.node.lineno, file=mod.path)


def check_cheb_siblings(prog, rep):
    """(thorough) three-term recurrence  T_k = 2 x T_{k-1} - T_{k-2}  in the
    three copies; Clenshaw-Curtis weights 2/(1-k^2) in both integrators."""
    import re
    for qual in ('func.func_basis', 'optima_func._cheb_my_poly',
                 'sample_func._cheb_my_poly'):
        fn = prog.func(qual)
        mod = fn.module
        ok = False
        for node in ast.walk(fn.node):
            if isinstance(node, ast.For):
                for st in node.body:
                    if isinstance(st, ast.Assign) and \
                            isinstance(st.value, ast.BinOp) and \
                            isinstance(st.value.op, ast.Sub):
                        txt = paths.src(mod, st.value).replace(' ', '')
                        if re.match(r'^2\.?\*X\*\w+\[(:,)?\w+-1\]-\w+\[(:,)?'
                                    r'\w+-2\]$', txt):
                            ok = True
        rep.add('F-recurrence', qual, 'T[k] = 2 X T[k-1] - T[k-2]',
                'ok' if ok else 'violation',
                '' if ok else 'the Chebyshev three-term recurrence changed',
                line=fn.node.lineno, file=mod.path)
