"""F — small closed-form rules decided on extracted expressions.

* ``selector_tables``   comparisons of two integer names (finite set of
  orderings lt / eq / gt): truth vectors are compared, so `m <= n` and
  `not (m > n)` agree while `m < n` does not.
* ``rank_formula``      the integer rank expression of the truncated
  factorisations, constant-folded by the checker's own evaluator over a
  bounded grid and compared with  max(1, min(cap, len - dropped)).
"""
import ast
import itertools

from . import model, paths


def _cmp_vector(test, a, b):
    """Truth vector of a comparison of names a, b over (lt, eq, gt), or None
    when the test is not such a comparison."""
    vec = []
    for va, vb in ((1, 2), (2, 2), (2, 1)):
        try:
            val = _eval_cmp(test, {a: va, b: vb})
        except Exception:
            return None
        if val is None:
            return None
        vec.append(bool(val))
    return tuple(vec)


def _eval_cmp(node, env):
    if isinstance(node, ast.Compare) and len(node.ops) == 1:
        l = _eval_int(node.left, env)
        r = _eval_int(node.comparators[0], env)
        if l is None or r is None:
            return None
        op = type(node.ops[0])
        return {ast.Lt: l < r, ast.LtE: l <= r, ast.Gt: l > r,
                ast.GtE: l >= r, ast.Eq: l == r, ast.NotEq: l != r}.get(op)
    if isinstance(node, ast.UnaryOp) and isinstance(node.op, ast.Not):
        v = _eval_cmp(node.operand, env)
        return None if v is None else (not v)
    return None


def _eval_int(node, env):
    """Evaluate an integer expression over +,-,*,//,min,max,int,len-atoms."""
    if isinstance(node, ast.Constant) and isinstance(node.value, (int, float)):
        return node.value
    if isinstance(node, ast.Name):
        return env.get(node.id)
    if isinstance(node, ast.BinOp):
        l, r = _eval_int(node.left, env), _eval_int(node.right, env)
        if l is None or r is None:
            return None
        if isinstance(node.op, ast.Add):
            return l + r
        if isinstance(node.op, ast.Sub):
            return l - r
        if isinstance(node.op, ast.Mult):
            return l * r
        if isinstance(node.op, ast.FloorDiv) and r != 0:
            return l // r
        return None
    if isinstance(node, ast.UnaryOp) and isinstance(node.op, ast.USub):
        v = _eval_int(node.operand, env)
        return None if v is None else -v
    if isinstance(node, ast.Call) and isinstance(node.func, ast.Name):
        args = [_eval_int(a, env) for a in node.args]
        if node.func.id == 'len' and len(node.args) == 1 and \
                isinstance(node.args[0], ast.Name):
            return env.get('len(%s)' % node.args[0].id)
        if any(a is None for a in args):
            return None
        if node.func.id == 'min':
            return min(args)
        if node.func.id == 'max':
            return max(args)
        if node.func.id == 'int' and len(args) == 1:
            return int(args[0])
    return None


def check_selectors(prog, rep, qual='svd.matrix_svd', a='m', b='n',
                    rule='O-gram'):
    """All tests of the function that compare a with b select the same set of
    orderings (Gram side, right factor and left factor must be chosen by one
    predicate)."""
    fn = prog.func(qual)
    mod = fn.module
    from . import roles
    sh = roles.shape_names(fn, 0)
    if sh is not None and len(sh) == 2:
        a, b = sh           # the two extents of the matrix argument
    vecs = []
    for node in ast.walk(fn.node):
        t = None
        if isinstance(node, (ast.If, ast.IfExp)):
            t = node.test
        if t is None:
            continue
        # a predicate kept in a boolean temporary (is_wide = m <= n) is the
        # same selector wherever the temporary is tested
        v = _cmp_vector(roles.inline(fn.node, t), a, b)
        if v is not None:
            vecs.append((v, t))
    if len(vecs) < 2:
        rep.error('%s: expected the %s-vs-%s selectors (Gram side, factor '
                  'formulas), found %d' % (qual, a, b, len(vecs)))
        return
    ref = vecs[0][0]
    for v, t in vecs:
        # the same predicate or its negation: one partition of the orderings
        ok = v == ref or v == tuple(not x for x in ref)
        rep.add(rule, qual, 'selector %s' % paths.src(mod, t) +
                ' (#%d)' % (vecs.index((v, t)) + 1),
                'ok' if ok else 'violation',
                '' if ok else 'this selector is true for orderings %s of '
                '(%s,%s) while the first one (%s) is true for %s: the Gram '
                'side and the factor formulas are chosen inconsistently'
                % (_ord(v), a, b, paths.src(mod, vecs[0][1]), _ord(ref)),
                line=t.lineno, file=mod.path)


def _ord(v):
    return [n for n, x in zip(('<', '=', '>'), v) if x]


def check_rank_formula(prog, rep, qual, rule='F-rank'):
    """rank == max(1, min(int(r), len(s) - dlen)) on a bounded grid."""
    fn = prog.func(qual)
    mod = fn.module
    # the rank variable = the name used as the upper bound of the factor
    # slices  X[:, :v] / X[:v];  its final value is obtained by folding, in
    # order, every straight-line assignment to it (no variable names assumed)
    from .paths import linear
    bounds = []
    for node in ast.walk(fn.node):
        if isinstance(node, ast.Slice) and node.lower is None and \
                isinstance(node.upper, ast.Name) and node.step is None:
            bounds.append(node.upper.id)
    if not bounds:
        rep.unknown(rule, qual, 'rank = max(1, min(cap, len - dropped))',
                    'no factor slice bounded by a rank variable was found',
                    line=fn.node.lineno, file=mod.path)
        return
    rank = max(set(bounds), key=bounds.count)
    assigns = [st for st in linear(fn.node.body)
               if isinstance(st, ast.Assign) and
               isinstance(st.targets[0], ast.Name) and
               st.targets[0].id == rank and
               any(isinstance(x, ast.Call) and isinstance(x.func, ast.Name)
                   and x.func.id in ('max', 'min') for x in ast.walk(st.value))]
    if not assigns:
        rep.unknown(rule, qual, 'rank = max(1, min(cap, len - dropped))',
                    'the rank selection expression was not found',
                    line=fn.node.lineno, file=mod.path)
        return
    target = assigns[-1]
    lens, free = set(), set()
    for st in assigns:
        lens |= {x.args[0].id for x in ast.walk(st.value)
                 if isinstance(x, ast.Call) and isinstance(x.func, ast.Name)
                 and x.func.id == 'len' and len(x.args) == 1 and
                 isinstance(x.args[0], ast.Name)}
        free |= {x.id for x in ast.walk(st.value) if isinstance(x, ast.Name)}
    free = free - {'max', 'min', 'int', 'len'} - lens - {rank} | \
        ({rank} & set(fn.all_params))
    caps = sorted(n for n in free if n in fn.all_params)
    drops = sorted(n for n in free if n not in fn.all_params)
    if len(caps) != 1 or len(drops) != 1:
        rep.unknown(rule, qual, paths.src(mod, target),
                    'cap / dropped-count operands not identified (%s / %s)'
                    % (caps, drops))
        return
    cap_name, drop_name = caps[0], drops[0]
    bad = None
    n = 0
    for cap, ln, dl in itertools.product(range(1, 7), range(1, 7),
                                         range(0, 7)):
        if dl > ln:
            continue
        n += 1
        env = {cap_name: cap, drop_name: dl}
        for l_ in lens:
            env['len(%s)' % l_] = ln
        got = None
        for st in assigns:
            got = _eval_int(st.value, env)
            if got is None:
                break
            env[rank] = got
        want = max(1, min(cap, ln - dl))
        if got is None:
            rep.unknown(rule, qual, paths.src(mod, target),
                        'expression not evaluable by the checker')
            return
        if got != want:
            bad = (cap, ln, dl, got, want)
            break
    rep.add(rule, qual, 'rank = max(1, min(cap, len - dropped))',
            'ok' if bad is None else 'violation',
            'folded on %d (cap, len, dropped) triples' % n if bad is None else
            'for cap r=%d, %d singular values and %d droppable ones the '
            'expression gives rank %d, the tail-energy rule requires '
            'max(1, min(r, len - dropped)) = %d' % bad,
            line=target.lineno, file=mod.path)
    # dropped count = 1 + last index at which the cumulative tail energy
    # (cumsum over the reversed vector) is <= e**2: non-strict, cumsum on the
    # small side -- in either spelling of the comparison
    st, detail = 'unknown', 'tail comparison not found'

    def has_rev_cumsum(x):
        for c in ast.walk(x):
            if isinstance(c, ast.Call) and \
                    (prog.dotted(c.func) or '').endswith('cumsum'):
                for sl in ast.walk(c):
                    if isinstance(sl, ast.Slice) and sl.lower is None and \
                            sl.upper is None and sl.step is not None and \
                            isinstance(sl.step, ast.UnaryOp) and \
                            isinstance(sl.step.op, ast.USub):
                        return True
        return False

    def is_e2(x):
        return isinstance(x, ast.BinOp) and isinstance(x.op, ast.Pow) and \
            isinstance(x.left, ast.Name) and x.left.id in fn.all_params and \
            isinstance(x.right, ast.Constant) and x.right.value == 2
    for node in ast.walk(fn.node):
        if isinstance(node, ast.Compare) and len(node.ops) == 1:
            l, r_ = node.left, node.comparators[0]
            op = type(node.ops[0])
            if has_rev_cumsum(l) and is_e2(r_):
                good = op is ast.LtE
            elif has_rev_cumsum(r_) and is_e2(l):
                good = op is ast.GtE
            else:
                continue
            st = 'ok' if good else 'violation'
            detail = '' if good else (
                'the droppable tail is no longer the longest tail whose '
                'cumulative energy is <= e**2 (reversed cumulative sum, '
                'non-strict comparison); found %s' % paths.src(mod, node))
    rep.add(rule + '-tail', qual, 'cumsum(tail energies) <= e**2',
            st, detail, line=fn.node.lineno, file=mod.path)


def check_cheb_siblings(prog, rep):
    """(thorough) three-term recurrence  T_k = 2 x T_{k-1} - T_{k-2}  in the
    three copies, decided as a polynomial identity over the atoms x, T_{k-1},
    T_{k-2} (any spelling / operand order)."""
    for qual in ('func.func_basis', 'optima_func._cheb_my_poly',
                 'sample_func._cheb_my_poly'):
        fn = prog.func(qual)
        mod = fn.module
        st_, detail = 'unknown', 'recurrence statement not found'
        for loop in ast.walk(fn.node):
            if not (isinstance(loop, ast.For) and
                    isinstance(loop.target, ast.Name)):
                continue
            kv = loop.target.id
            for st in loop.body:
                if not (isinstance(st, ast.Assign) and
                        isinstance(st.targets[0], ast.Subscript) and
                        isinstance(st.targets[0].value, ast.Name)):
                    continue
                base = st.targets[0].value.id

                def lag(node):
                    """T[.., k - j, ..] of the same array -> j."""
                    if not (isinstance(node, ast.Subscript) and
                            isinstance(node.value, ast.Name) and
                            node.value.id == base):
                        return None
                    for x in ast.walk(node.slice):
                        if isinstance(x, ast.BinOp) and \
                                isinstance(x.op, ast.Sub) and \
                                isinstance(x.left, ast.Name) and \
                                x.left.id == kv and \
                                isinstance(x.right, ast.Constant):
                            return x.right.value
                    return None

                class Sub(ast.NodeTransformer):
                    def visit_Subscript(self, n):
                        j = lag(n)
                        if j is not None:
                            return ast.Name(id='T_%d' % j, ctx=ast.Load())
                        return n
                import copy
                try:
                    val = rat_eval(Sub().visit(copy.deepcopy(st.value)), {})
                except ValueError:
                    continue
                xname = fn.params[0]
                want = Rat(Poly.const(2) * Poly.sym(xname) * Poly.sym('T_1')
                           - Poly.sym('T_2'))
                if not any(a_ in ('T_1', 'T_2') for a_ in val.n.atoms()):
                    continue
                good = val.eq(want)
                st_ = 'ok' if good else 'violation'
                detail = '' if good else 'the Chebyshev three-term ' \
                    'recurrence changed: %r' % (val.reduced(),)
        rep.add('F-recurrence', qual, 'T[k] = 2 X T[k-1] - T[k-2]',
                st_, detail, line=fn.node.lineno, file=mod.path)


# ---------------------------------------------------------------------------
# Rational-function normal forms of straight-line arithmetic (F-inverse)
from .poly import Poly, ONE as _ONE


class Rat:
    """num / den with Poly parts (no automatic cancellation; equality is
    decided by cross multiplication)."""

    def __init__(self, num, den=None):
        self.n = Poly.coerce(num)
        self.d = Poly.coerce(den) if den is not None else _ONE

    def __add__(self, o):
        return Rat(self.n * o.d + o.n * self.d, self.d * o.d)

    def __sub__(self, o):
        return Rat(self.n * o.d - o.n * self.d, self.d * o.d)

    def __mul__(self, o):
        return Rat(self.n * o.n, self.d * o.d)

    def __truediv__(self, o):
        return Rat(self.n * o.d, self.d * o.n)

    def __neg__(self):
        return Rat(-self.n, self.d)

    def eq(self, o):
        return (self.n * o.d - o.n * self.d).is_zero()

    def key(self):
        return (self.n.key(), self.d.key())

    def reduced(self):
        q = self.n.div_exact(self.d)
        return Rat(q) if q is not None else self

    def __repr__(self):
        return '(%r)/(%r)' % (self.n, self.d)


def rat_eval(node, env):
    """AST arithmetic -> Rat over atoms; env: name -> Rat.  Raises
    ValueError on an unsupported construct."""
    from fractions import Fraction
    if isinstance(node, ast.Constant) and isinstance(node.value, (int, float)):
        return Rat(Poly.const(Fraction(node.value).limit_denominator(10**9)))
    if isinstance(node, ast.Name):
        if node.id in env:
            return env[node.id]
        return Rat(Poly.sym(node.id))
    if isinstance(node, ast.Attribute):
        if node.attr == 'pi':
            return Rat(Poly.sym('pi'))
        raise ValueError('attribute %s' % node.attr)
    if isinstance(node, ast.UnaryOp) and isinstance(node.op, (ast.USub,
                                                              ast.UAdd)):
        v = rat_eval(node.operand, env)
        return -v if isinstance(node.op, ast.USub) else v
    if isinstance(node, ast.BinOp):
        l, r = rat_eval(node.left, env), rat_eval(node.right, env)
        if isinstance(node.op, ast.Add):
            return l + r
        if isinstance(node.op, ast.Sub):
            return l - r
        if isinstance(node.op, ast.Mult):
            return l * r
        if isinstance(node.op, ast.Div):
            return l / r
        raise ValueError('operator')
    if isinstance(node, ast.Call):
        f = node.func
        name = f.attr if isinstance(f, ast.Attribute) else getattr(f, 'id', '')
        if name in env and isinstance(env[name], Rat):
            return env[name]          # opaque local helper, e.g. _get(m, j)
        if name == 'cos' and len(node.args) == 1:
            u = rat_eval(node.args[0], env).reduced()
            if u.n.is_zero():
                return Rat(1)
            if u.eq(Rat(Poly.sym('pi'))):
                return Rat(-1)
            return Rat(Poly.sym(('cos', u.key(), u)))
        if name == 'arccos' and len(node.args) == 1:
            x = rat_eval(node.args[0], env).reduced()
            q = x.n.div_exact(x.d)
            if q is not None and len(q.t) == 1:
                (m, c), = q.t.items()
                if c == 1 and len(m) == 1 and m[0][1] == 1 and \
                        isinstance(m[0][0], tuple) and m[0][0][0] == 'cos':
                    return m[0][0][2]      # arccos(cos(u)) = u on [0, pi]
            return Rat(Poly.sym(('arccos', x.key())))
        raise ValueError('call %s' % name)
    raise ValueError(type(node).__name__)


def returned_name(fn_node):
    names = [n.value.id for n in ast.walk(fn_node)
             if isinstance(n, ast.Return) and isinstance(n.value, ast.Name)]
    return max(set(names), key=names.count) if names else None


def branch_assign(fn_node, kind, target=None, selector='kind'):
    """The formula assigned to the result variable on the paths where
    ``<selector> == <kind>`` holds (any spelling / arm order of the test).
    ``target`` defaults to the name the function returns."""
    from . import paths as _paths
    target = target or returned_name(fn_node)
    for node in ast.walk(fn_node):
        if isinstance(node, ast.Assign) and \
                isinstance(node.targets[0], ast.Name) and \
                node.targets[0].id == target and \
                isinstance(node.value, ast.BinOp):
            gs = _paths.guards_of(fn_node, node)
            if _paths.holds(gs, ast.Name(id=selector, ctx=ast.Load()),
                            ast.Eq, ast.Constant(value=kind)):
                return node.value
    return None


def check_grid_inverse(prog, rep):
    """poi_to_ind (before rounding) o ind_to_poi == identity, endpoints."""
    from . import roles
    f_i2p = prog.func('grid.ind_to_poi')
    f_scale = prog.func('grid.poi_scale')
    f_p2i = prog.func('grid.poi_to_ind')
    in_i2p = f_i2p.params[0]                  # indices
    in_scale = f_scale.params[0]              # points
    in_p2i = roles.unpacked_from_call(prog, f_p2i, 'poi_scale', 0)
    for kind in ('uni', 'cheb'):
        ex_x = branch_assign(f_i2p.node, kind)
        ex_s = branch_assign(f_scale.node, kind)
        ex_i = branch_assign(f_p2i.node, kind)
        where = 'grid.ind_to_poi/poi_scale/poi_to_ind'
        if ex_x is None or ex_s is None or ex_i is None:
            rep.error('grid maps: branch kind=%r not found' % kind)
            continue
        try:
            X = rat_eval(ex_x, {in_i2p: Rat(Poly.sym('I'))})
            Xsc = rat_eval(ex_s, {in_scale: X})
            I2 = rat_eval(ex_i, {in_p2i: Xsc})
        except ValueError as e:
            rep.unknown('F-inverse', where, 'kind=%s' % kind,
                        'expression not in the supported fragment: %s' % e)
            continue
        ok = I2.eq(Rat(Poly.sym('I')))
        rep.add('F-inverse', where, 'poi_to_ind(ind_to_poi(I)) == I  '
                '(kind=%s, before rounding)' % kind,
                'ok' if ok else 'violation',
                '' if ok else 'the composition normalises to %r, not to I: '
                'the index -> point -> index round trip is not the identity'
                % (I2.reduced(),), line=ex_i.lineno, file=f_p2i.module.path)
        # endpoints
        a, b = Rat(Poly.sym('a')), Rat(Poly.sym('b'))
        lo = rat_eval(ex_x, {in_i2p: Rat(0)})
        hi = rat_eval(ex_x, {in_i2p: Rat(Poly.sym('n') - 1)})
        want_lo, want_hi = (a, b) if kind == 'uni' else (b, a)
        ok = lo.eq(want_lo) and hi.eq(want_hi)
        rep.add('F-endpoint', 'grid.ind_to_poi', 'index 0 / n-1 map to the '
                'box ends (kind=%s)' % kind, 'ok' if ok else 'violation',
                '' if ok else 'index 0 maps to %r and index n-1 to %r'
                % (lo.reduced(), hi.reduced()), line=ex_x.lineno,
                file=f_i2p.module.path)
        # scaling maps the box ends to the canonical ends
        s_lo = rat_eval(ex_s, {in_scale: a})
        s_hi = rat_eval(ex_s, {in_scale: b})
        w = (Rat(0), Rat(1)) if kind == 'uni' else (Rat(-1), Rat(1))
        ok = s_lo.eq(w[0]) and s_hi.eq(w[1])
        rep.add('F-endpoint', 'grid.poi_scale', 'a / b are scaled to the '
                'canonical ends (kind=%s)' % kind, 'ok' if ok else 'violation',
                '' if ok else 'a maps to %r and b to %r'
                % (s_lo.reduced(), s_hi.reduced()), line=ex_s.lineno,
                file=f_scale.module.path)


# ---------------------------------------------------------------------------
# T — transfer pattern of "sum of univariate terms" cores
def _mat_literal(node, env):
    """np.array([[..],[..]]) / np.array([..]) -> list of rows of Rat."""
    if isinstance(node, ast.Call) and node.args:
        node = node.args[0]
    if not isinstance(node, ast.List):
        raise ValueError('not a literal')
    if node.elts and isinstance(node.elts[0], ast.List):
        return [[_entry(e, env) for e in row.elts] for row in node.elts]
    return [[_entry(e, env) for e in node.elts]]


def _entry(e, env):
    env = dict(env)
    env['_get'] = Rat(Poly.sym('g'))
    return rat_eval(e, env)


def check_poly_pattern(prog, rep, qual='tensors.poly'):
    """first [1, g] ; middle [[1, g], [0, 1]] ; last [g*scale ; scale]:
    the row vector [1, S] is propagated to [1, S + g] and closed to
    scale * (S + g)."""
    fn = prog.func(qual)
    mod = fn.module
    lits = []
    for node in ast.walk(fn.node):
        if isinstance(node, ast.Assign) and \
                isinstance(node.targets[0], ast.Subscript) and \
                isinstance(node.value, ast.Call) and \
                (prog.dotted(node.value.func) or '').endswith('array'):
            tgt = paths.src(mod, node.targets[0]).replace(' ', '')
            try:
                lits.append((tgt, _mat_literal(node.value, {}), node))
            except ValueError as e:
                rep.unknown('T-pattern', qual, paths.src(mod, node), str(e))
    if len(lits) != 3:
        rep.error('%s: expected three core literals, found %d'
                  % (qual, len(lits)))
        return
    S = Rat(Poly.sym('S'))
    g = Rat(Poly.sym('g'))
    sc = Rat(Poly.sym('scale'))
    one, zero = Rat(1), Rat(0)
    first, mid, last = lits[0][1], lits[1][1], lits[2][1]
    ok1 = len(first) == 1 and len(first[0]) == 2 and first[0][0].eq(one) \
        and first[0][1].eq(g) and lits[0][0].endswith('[0,m,:]')
    rep.add('T-pattern', qual, 'first core row [1, g]',
            'ok' if ok1 else 'violation',
            '' if ok1 else 'first core is %r stored at %s' % (first,
                                                              lits[0][0]),
            line=lits[0][2].lineno, file=mod.path)
    ok2 = False
    if len(mid) == 2 and all(len(r) == 2 for r in mid) and \
            lits[1][0].endswith('[:,m,:]'):
        r0 = one * mid[0][0] + S * mid[1][0]
        r1 = one * mid[0][1] + S * mid[1][1]
        ok2 = r0.eq(one) and r1.eq(S + g)
    rep.add('T-pattern', qual, 'middle core: [1, S] -> [1, S + g]',
            'ok' if ok2 else 'violation',
            '' if ok2 else 'middle transfer matrix %r does not propagate the '
            'running sum' % (mid,), line=lits[1][2].lineno, file=mod.path)
    ok3 = False
    if len(last) == 1 and len(last[0]) == 2 and \
            lits[2][0].endswith('[:,m,0]'):
        tot = one * last[0][0] + S * last[0][1]
        ok3 = tot.eq(sc * (S + g))
    rep.add('T-pattern', qual, 'last core: [1, S] -> scale * (S + g)',
            'ok' if ok3 else 'violation',
            '' if ok3 else 'last core column %r does not close the sum to '
            'scale * (S + g)' % (last,), line=lits[2][2].lineno, file=mod.path)


def check_basis_values(prog, rep, qual, size_param, arg_param, first=None,
                       rule='F-basis', sizes=(1, 2, 3, 5)):
    """The rows / columns built by a Chebyshev basis routine, obtained by
    bounded symbolic execution of its statements for small basis sizes, are
    T_0 (or its documented normalisation), T_1 = x, T_k = 2 x T_{k-1} -
    T_{k-2} as polynomials in x."""
    from . import rules_sym
    fn = prog.func(qual)
    for size in sizes:
        rows = rules_sym.basis_rows(prog, fn, size, size_param, arg_param)
        if rows is None:
            rep.unknown(rule, qual, 'basis of size %d' % size,
                        'statements outside the supported fragment',
                        line=fn.node.lineno, file=fn.module.path)
            continue
        bad = None
        for k in range(size):
            want = rules_sym.cheb_expected(k, first=first)
            got = rows.get(k)
            if got is None or not got.eq(want):
                bad = (k, got.reduced() if got is not None else None,
                       want.reduced())
                break
        rep.add(rule, qual, 'basis of size %d equals T_0 .. T_%d'
                % (size, size - 1), 'ok' if bad is None else 'violation',
                '' if bad is None else 'entry %d of the basis is %r, expected '
                'the Chebyshev polynomial %r' % bad,
                line=fn.node.lineno, file=fn.module.path)


# ---------------------------------------------------------------------------
# Rank selection as a VALUE: the size polynomial of the truncated bond that the
# abstract interpreter computed (whatever statements, helpers or temporaries
# produced it) is compared with  max(1, min(cap, len - dropped))  on a grid of
# integer valuations of its leaves.  ``dropped`` is the data dependent count
# of the prefix mask  cumsum(reversed squares) <= e**2.
def check_rank_value(an, rep, qual, rule='F-rank', floor_rule='S-floor',
                     cap_rule='P-cap', variant_pred=None):
    from . import specs
    from . import poly as _poly
    from .poly import peval, leaf_atoms
    prog = an.prog
    fn = prog.func(qual)
    mod = fn.module
    n_done = 0
    for vi, v in enumerate(specs.variants(qual)):
        if variant_pred is not None and not variant_pred(v):
            continue
        r = an.run(qual, vi, 2)
        cap_sym = None
        if isinstance(v.get('r'), str) and v['r'].startswith('int:'):
            cap_sym = v['r'].split(':', 1)[1]
        for j, rv in enumerate(r.returns):
            if not (rv.k == 'tuple' and rv.items and len(rv.items) == 2 and
                    rv.items[0].k == 'arr' and rv.items[0].dims is not None
                    and len(rv.items[0].dims) == 2):
                continue
            P = rv.items[0].dims[1]
            what = 'truncated bond of return path %d (%s)' % (j, r.tag())
            if P is None:
                rep.unknown(rule, qual, what, 'bond not typed')
                continue
            leaves = leaf_atoms(P)
            counts = [a for a in leaves if isinstance(a, tuple) and
                      len(a) == 7 and a[0] == 'count']
            others = [a for a in leaves if a not in counts]
            if len(counts) != 1 or any(not isinstance(a, str)
                                       for a in others):
                rep.unknown(rule, qual, what, 'the bond %r is not a function '
                            'of one dropped-count and free sizes' % (P,))
                continue
            D = counts[0]
            Lp = D[4]
            syms = sorted(set(others) | {a for a in leaf_atoms(Lp)
                                         if isinstance(a, str)})
            if any(not isinstance(a, str) for a in leaf_atoms(Lp)):
                rep.unknown(rule, qual, what, 'length %r not free' % (Lp,))
                continue
            bad = bad_floor = bad_cap = None
            n = 0
            undecided = False
            grids = [(1, 2, 3, 5) if s == cap_sym else (1, 2, 3)
                     for s in syms]
            for vals in itertools.product(*grids):
                val = dict(zip(syms, vals))
                Lv = peval(Lp, val)
                if Lv is None:
                    undecided = True
                    break
                Lv = int(Lv)
                cap = val[cap_sym] if cap_sym is not None else None
                for dv in range(0, Lv + 1):
                    val[D] = dv
                    got = peval(P, val)
                    if got is None:
                        undecided = True
                        break
                    n += 1
                    # default cap 1e12: never binding on the grid
                    want = max(1, Lv - dv) if cap is None else \
                        max(1, min(cap, Lv - dv))
                    if got != want and bad is None:
                        bad = (dict(val), int(got), want)
                    if got < 1 and bad_floor is None:
                        bad_floor = (dict(val), int(got))
                    if cap is not None and got > max(cap, 1) and \
                            bad_cap is None:
                        bad_cap = (dict(val), int(got), cap)
                if undecided:
                    break
            if undecided:
                rep.unknown(rule, qual, what, 'the bond %r is not evaluable '
                            '(path alternatives)' % (P,))
                continue
            n_done += 1

            def show(val):
                return ', '.join('%s=%s' % (
                    'dropped' if k == D else k, x) for k, x in
                    sorted(val.items(), key=lambda kv: repr(kv[0])))
            rep.add(rule, qual, what + ': rank = max(1, min(cap, len - '
                    'dropped))', 'ok' if bad is None else 'violation',
                    'evaluated on %d valuations' % n if bad is None else
                    'for %s the bond is %d, the tail-energy rule requires '
                    'max(1, min(r, len - dropped)) = %d' % (
                        show(bad[0]), bad[1], bad[2]),
                    line=fn.node.lineno, file=mod.path)
            rep.add(floor_rule, qual, what + ': rank >= 1',
                    'ok' if bad_floor is None else 'violation',
                    '' if bad_floor is None else 'for %s the bond is %d: the '
                    'rank floor max(1, .) is gone, a bond of size 0 becomes '
                    'possible for the zero matrix' % (show(bad_floor[0]),
                                                      bad_floor[1]),
                    line=fn.node.lineno, file=mod.path)
            if cap_sym is not None:
                rep.add(cap_rule, qual, what + ': rank <= cap',
                        'ok' if bad_cap is None else 'violation',
                        '' if bad_cap is None else 'for %s the bond is %d, '
                        'above the requested cap %d' % (
                            show(bad_cap[0]), bad_cap[1], bad_cap[2]),
                        line=fn.node.lineno, file=mod.path)
            info = {'strict': D[5], 'rev': D[6], 'line': D[2]}
            good = (not info.get('strict')) and info.get('rev')
            rep.add(rule + '-tail', qual, what + ': dropped = longest tail '
                    'with cumsum(tail energies) <= e**2',
                    'ok' if good else 'violation',
                    '' if good else 'the droppable tail is no longer the '
                    'longest tail whose cumulative energy is <= e**2 (%s)' % (
                        'strict comparison' if info.get('strict') else
                        'the running sums do not start from the small end'),
                    line=info.get('line') or fn.node.lineno,
                    file=prog.modules[D[1].split('.')[0]].path
                    if D[1].split('.')[0] in prog.modules else mod.path)
    return n_done
