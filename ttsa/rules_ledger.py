"""U-ledger: power-of-two exponent bookkeeping as identities of linear forms.

Every abstract float/array carries ``lg`` with  stored = true * 2**lg ; an
exponent value carries its symbolic value in ``p``.  The rules below run the
abstract interpreter on the stabilised routines and require, per return path,
  (sum of lg over the returned mantissas) + (returned exponent) == lg(input).
"""
import ast

from . import specs, model, paths
from .poly import Poly, Lin
from .values import AV, ARR, INT, TUPLE
from .npmodel import _poly_to_lin


def _lin_of(v):
    if v is None:
        return None
    if v.k in ('int', 'float') and v.p is not None:
        return _poly_to_lin(v.p)
    if v.has_const() and isinstance(v.c, (int, float)):
        from fractions import Fraction
        return Lin(Fraction(v.c).limit_denominator(10**6))
    return None


def _sum_lg(v):
    if v.k in ('list', 'tuple') and v.items is not None:
        tot = Lin(0)
        for x in v.items:
            s = _sum_lg(x)
            if s is None:
                return None
            tot = tot + s
        return tot
    return v.lg


def check_pair(rep, where, what, mant, expo, expect=Lin(0), rule='U-ledger'):
    """mantissa AV (array / float / list of cores), exponent AV or None."""
    lg = _sum_lg(mant) if mant is not None else Lin(0)
    pe = _lin_of(expo) if expo is not None else Lin(0)
    if lg is None or pe is None:
        rep.unknown(rule, where, what, 'ledger not typed (lg=%s, exponent=%s)'
                    % (lg, pe))
        return
    tot = lg + pe - expect
    if tot.is_zero():
        rep.ok(rule, where, what, detail='lg(mantissa)=%s exponent=%s'
               % (lg, pe))
    else:
        rep.violation(rule, where, what,
                      'exponent ledger not conserved: stored mantissa is '
                      'true * 2**(%s) while the returned exponent is %s; '
                      'their sum must be %s (residual %s)'
                      % (lg, pe, expect, tot))


def run_core_stab(an, rep):
    from . import interp
    prog = an.prog
    fn = prog.func('core.core_stab')
    I = interp.Interp(prog, {})
    G = ARR((Poly.sym('r1'), Poly.sym('n'), Poly.sym('r2')), 'f', lg=Lin(0))
    p0 = INT(Poly.sym('p0'))
    I.run_function(fn, {'G': G, 'p0': p0})
    if len(I.entry_returns) < 2:
        rep.violation('G-log', 'core.core_stab', 'threshold branch',
                      'core_stab no longer has the early return for a core '
                      'whose largest modulus is below the threshold: log2 of '
                      '0 for a zero core')
    for j, rv in enumerate(I.entry_returns):
        if rv.k == 'tuple' and len(rv.items) == 2:
            check_pair(rep, 'core.core_stab', 'return path %d: (Q, p0 + p)' % j,
                       rv.items[0], rv.items[1], expect=Lin.sym('p0'))
            k = rv.items[1].k
            rep.add('P-int', 'core.core_stab', 'exponent kind on return path '
                    '%d' % j, 'ok' if k == 'int' else 'violation',
                    '' if k == 'int' else 'the exponent is a %s, not an '
                    'integer power of two' % k)
    for s in I.sites:
        if s.rule == 'G-log':
            rep.add('G-log', s.where, s.construct, s.status if s.status == 'ok'
                    else 'violation', s.detail if s.status == 'ok' else
                    'log2 of the largest modulus is not behind the '
                    '"v_max > thr" guard: -inf for a zero core',
                    line=s.node.lineno, file=s.mod.path)
    return I


def check_stab_per_step(prog, rep, qual='transformation.orthogonalize'):
    """Each sweep loop re-scales, under use_stab, the core that just received
    the triangular factor and feeds the exponent (P-stab-step)."""
    fn = prog.func(qual)
    mod = fn.module
    loops = [n for n in paths.linear(fn.node.body) if isinstance(n, ast.For)]
    if len(loops) != 2:
        rep.error('%s: expected two sweep loops' % qual)
        return
    for li, (loop, off) in enumerate(zip(loops, ('+', '-'))):
        ok = False
        for st in loop.body:
            if isinstance(st, ast.If) and isinstance(st.test, ast.Name) and \
                    st.test.id == 'use_stab':
                for b in st.body:
                    if isinstance(b, ast.Assign) and \
                            isinstance(b.targets[0], ast.Tuple) and \
                            isinstance(b.value, ast.Call) and \
                            (prog.dotted(b.value.func) or '').endswith(
                                'core_stab'):
                        from . import roles as _roles
                        t0 = b.targets[0].elts[0]
                        a0 = _roles.arg(prog, mod, b.value, 'G', 0)
                        a1 = _roles.arg(prog, mod, b.value, 'p0', 1)
                        same_core = a0 is not None and \
                            ast.dump(t0).replace('Store', 'Load') == \
                            ast.dump(a0)
                        idx = paths.src(mod, t0.slice).replace(' ', '') \
                            if isinstance(t0, ast.Subscript) else ''
                        var = loop.target.id if isinstance(loop.target,
                                                           ast.Name) else '?'
                        right_core = idx == '%s%s1' % (var, off)
                        p_fed = isinstance(a1, ast.Name) and \
                            isinstance(b.targets[0].elts[1], ast.Name) and \
                            a1.id == b.targets[0].elts[1].id
                        ok = same_core and right_core and p_fed
        rep.add('P-stab-step', qual, 'sweep loop %d (%s): per-step '
                'core_stab of the core that received the weight'
                % (li + 1, paths.src(mod, loop.iter)),
                'ok' if ok else 'violation',
                '' if ok else 'with use_stab every step of the sweep must '
                're-scale the core that just received the triangular factor '
                'and accumulate its exponent (otherwise the travelling core '
                'overflows before a single final rescale)',
                line=loop.lineno, file=mod.path)


def check_saturation(prog, rep, qual='act_two.accuracy'):
    fn = prog.func(qual)
    mod = fn.module
    n = 0
    for node in ast.walk(fn.node):
        if isinstance(node, ast.BinOp) and isinstance(node.op, ast.Pow) and \
                isinstance(node.left, ast.Constant) and \
                node.left.value in (2, 2.0):
            n += 1
            gs = paths.guards_of(fn.node, node)
            ex = paths.src(mod, node.right)
            dex = ast.dump(node.right)

            def _num(x):
                if isinstance(x, ast.Constant) and \
                        isinstance(x.value, (int, float)):
                    return x.value
                if isinstance(x, ast.UnaryOp) and \
                        isinstance(x.op, ast.USub) and \
                        isinstance(x.operand, ast.Constant):
                    return -x.operand.value
                return None
            hi = lo = False
            for l, oc, r, ln, rn in paths.cmp_facts(gs):
                if l != dex or _num(rn) is None:
                    continue
                if oc in (ast.LtE, ast.Lt) and _num(rn) > 0:
                    hi = True           # exponent bounded above
                if oc in (ast.GtE, ast.Gt) and _num(rn) < 0:
                    lo = True           # exponent bounded below
            rep.add('P-sat', qual, paths.src(mod, node),
                    'ok' if hi and lo else 'violation',
                    '' if hi and lo else 'the power 2**(%s) is not dominated '
                    'by both saturation guards (%s > c and %s < -c): '
                    'OverflowError / inf for far apart exponents' % (ex, ex, ex),
                    line=node.lineno, file=mod.path)
    if n == 0:
        rep.error('%s: exponent difference power not found' % qual)


def check_stab_unconditional(prog, rep, quals=('act_two.mul_scalar',
                                              'transformation.orthogonalize')):
    """Inside a loop over the cores the re-scaling ``core_stab`` is executed at
    EVERY step when the flag is set: it depends on ``use_stab`` only (a step
    that is skipped lets the running product over- / underflow before the
    next re-scaling)."""
    for qual in quals:
        fn = prog.func(qual)
        mod = fn.module
        n = 0
        for node in ast.walk(fn.node):
            if not (isinstance(node, ast.Call) and
                    (prog.dotted(node.func) or '').endswith('core_stab')):
                continue
            # only calls inside a loop
            cur = getattr(node, '_parent', None)
            loop = None
            while cur is not None and cur is not fn.node:
                if isinstance(cur, (ast.For, ast.While)) and loop is None:
                    loop = cur
                cur = getattr(cur, '_parent', None)
            if loop is None:
                continue
            n += 1
            # tests between the loop head and the call (inside one step)
            gs = paths.guard_atoms(paths.guards_of(loop, node))
            extra = [paths.src(mod, t) for t, pol in gs
                     if not (isinstance(t, ast.Name) and t.id == 'use_stab'
                             and pol)]
            rep.add('P-stab-every', qual, 'core_stab call #%d in the core '
                    'loop depends on use_stab only' % n,
                    'ok' if not extra else 'violation',
                    '' if not extra else 'the re-scaling is skipped under %s: '
                    'the un-scaled step lets the running product over- / '
                    'underflow for tensors of representable norm' % extra,
                    line=node.lineno, file=mod.path)
