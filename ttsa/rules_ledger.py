"""U-ledger: power-of-two exponent bookkeeping as identities of linear forms.

Every abstract float/array carries ``lg`` with  stored = true * 2**lg ; an
exponent value carries its symbolic value in ``p``.  The rules below run the
abstract interpreter on the stabilised routines and require, per return path,
  (sum of lg over the returned mantissas) + (returned exponent) == lg(input).
"""
import ast

from . import specs, model, paths
from .poly import Poly, Lin
from .values import AV, ARR, INT, TUPLE
from .npmodel import _poly_to_lin


def _lin_of(v):
    if v is None:
        return None
    if v.k in ('int', 'float') and v.p is not None:
        return _poly_to_lin(v.p)
    if v.has_const() and isinstance(v.c, (int, float)):
        from fractions import Fraction
        return Lin(Fraction(v.c).limit_denominator(10**6))
    return None


def _sum_lg(v):
    if v.k in ('list', 'tuple') and v.items is not None:
        tot = Lin(0)
        for x in v.items:
            s = _sum_lg(x)
            if s is None:
                return None
            tot = tot + s
        return tot
    return v.lg


def check_pair(rep, where, what, mant, expo, expect=Lin(0), rule='U-ledger'):
    """mantissa AV (array / float / list of cores), exponent AV or None."""
    lg = _sum_lg(mant) if mant is not None else Lin(0)
    pe = _lin_of(expo) if expo is not None else Lin(0)
    if lg is None or pe is None:
        rep.unknown(rule, where, what, 'ledger not typed (lg=%s, exponent=%s)'
                    % (lg, pe))
        return
    tot = lg + pe - expect
    if tot.is_zero():
        rep.ok(rule, where, what, detail='lg(mantissa)=%s exponent=%s'
               % (lg, pe))
    else:
        rep.violation(rule, where, what,
                      'exponent ledger not conserved: stored mantissa is '
                      'true * 2**(%s) while the returned exponent is %s; '
                      'their sum must be %s (residual %s)'
                      % (lg, pe, expect, tot))


def run_core_stab(an, rep):
    from . import interp
    prog = an.prog
    fn = prog.func('core.core_stab')
    I = interp.Interp(prog, {})
    G = ARR((Poly.sym('r1'), Poly.sym('n'), Poly.sym('r2')), 'f', lg=Lin(0))
    p0 = INT(Poly.sym('p0'))
    I.run_function(fn, {'G': G, 'p0': p0})
    if len(I.entry_returns) < 2:
        rep.violation('G-log', 'core.core_stab', 'threshold branch',
                      'core_stab no longer has the early return for a core '
                      'whose largest modulus is below the threshold: log2 of '
                      '0 for a zero core')
    for j, rv in enumerate(I.entry_returns):
        if rv.k == 'tuple' and len(rv.items) == 2:
            check_pair(rep, 'core.core_stab', 'return path %d: (Q, p0 + p)' % j,
                       rv.items[0], rv.items[1], expect=Lin.sym('p0'))
            k = rv.items[1].k
            rep.add('P-int', 'core.core_stab', 'exponent kind on return path '
                    '%d' % j, 'ok' if k == 'int' else 'violation',
                    '' if k == 'int' else 'the exponent is a %s, not an '
                    'integer power of two' % k)
    for s in I.sites:
        if s.rule == 'G-log':
            rep.add('G-log', s.where, s.construct, s.status if s.status == 'ok'
                    else 'violation', s.detail if s.status == 'ok' else
                    'log2 of the largest modulus is not behind the '
                    '"v_max > thr" guard: -inf for a zero core',
                    line=s.node.lineno, file=s.mod.path)
    return I


def check_stab_calls(rep, r, qual, what, expected):
    """Semantic form of "re-scale at EVERY step": in the abstract run ``r`` of
    ``qual`` with use_stab=True (d and the pivot concrete, so every loop is
    unrolled) the calls of core_stab are counted from the interpreter's call
    log.

    * P-stab-step: there are at least ``expected`` of them (one per sweep step
      / per core) and none re-scales a core whose typestate is 'orthonormal'
      (the core that just received the triangular factor is the one that
      grows; an orthonormal core has modulus <= 1).
    * P-stab-every: none of them sits under a branch the interpreter could not
      decide (a re-scaling that depends on a runtime value is skipped for some
      inputs)."""
    I = r.I
    fn_ = I.prog.func(qual)
    loc = dict(line=fn_.node.lineno, file=fn_.module.path)
    calls = [(a, m) for (q, a, _), m in zip(I.call_log, I.call_meta)
             if q == 'core.core_stab']
    indefinite = any(m['weak'] > 0 for a, m in calls)
    n = len(calls)
    if indefinite:
        st, detail = 'unknown', 'a re-scaling sits in a loop that was not ' \
            'unrolled: the count is not definite'
    elif n >= expected:
        st, detail = 'ok', ''
    else:
        st, detail = 'violation', 'with use_stab every step must re-scale ' \
            'the travelling core and accumulate its exponent: %d core_stab ' \
            'call(s) for %d step(s) (%s) -- the un-scaled steps let the ' \
            'running product over- / underflow before the next re-scaling' \
            % (n, expected, what)
    rep.add('P-stab-step', qual, '%s: %d re-scalings for %d steps'
            % (what, n, expected), st, detail, **loc)
    wrong = [i for i, (a, m) in enumerate(calls)
             if a.get('G') is not None and a['G'].k == 'arr' and
             a['G'].orth in ('cols3', 'rows3', 'cols', 'rows')]
    if calls:
        rep.add('P-stab-step', qual, '%s: the re-scaled core is the one that '
                'received the weight' % what,
                'violation' if wrong else 'ok',
                '' if not wrong else 'core_stab call(s) %s re-scale a core '
                'with orthonormal columns / rows (modulus <= 1) instead of '
                'the neighbour that just received the triangular factor, '
                'which keeps growing' % wrong, **loc)
        cond = [i for i, (a, m) in enumerate(calls) if m['cond'] > 0]
        # definitely data dependent: an open undecided test reads a float /
        # an array (a magnitude); any other undecided guard stays unknown
        mag = [i for i, (a, m) in enumerate(calls)
               if any(ks & {'float', 'arr'} for t, ks in m['tests'])]
        rep.add('P-stab-every', qual, '%s: re-scaling depends on use_stab '
                'only' % what, 'violation' if mag else
                ('unknown' if cond else 'ok'),
                '' if not cond else 'core_stab call(s) %s are executed under '
                'a test on a runtime value (%s): the skipped steps let the '
                'running product over- / underflow for tensors of '
                'representable norm' % (cond, sorted({
                    ast.unparse(t) for a, m in calls for t, ks in m['tests']})),
                **loc)


def check_saturation(prog, rep, qual='act_two.accuracy'):
    fn = prog.func(qual)
    mod = fn.module
    n = 0
    for node in ast.walk(fn.node):
        if isinstance(node, ast.BinOp) and isinstance(node.op, ast.Pow) and \
                isinstance(node.left, ast.Constant) and \
                node.left.value in (2, 2.0):
            n += 1
            gs = paths.guards_of(fn.node, node)
            ex = paths.src(mod, node.right)
            dex = ast.dump(node.right)

            def _num(x):
                if isinstance(x, ast.Constant) and \
                        isinstance(x.value, (int, float)):
                    return x.value
                if isinstance(x, ast.UnaryOp) and \
                        isinstance(x.op, ast.USub) and \
                        isinstance(x.operand, ast.Constant):
                    return -x.operand.value
                return None
            hi = lo = False
            for l, oc, r, ln, rn in paths.cmp_facts(gs):
                if l != dex or _num(rn) is None:
                    continue
                if oc in (ast.LtE, ast.Lt) and _num(rn) > 0:
                    hi = True           # exponent bounded above
                if oc in (ast.GtE, ast.Gt) and _num(rn) < 0:
                    lo = True           # exponent bounded below
            # other spellings of the two bounds: a bound that is a name (a
            # module-level constant), abs(x) <= c, a chained -c <= x <= c
            _NEG = {ast.Lt: ast.GtE, ast.LtE: ast.Gt, ast.Gt: ast.LtE,
                    ast.GtE: ast.Lt}
            _FLIP = {ast.Lt: ast.Gt, ast.LtE: ast.GtE, ast.Gt: ast.Lt,
                     ast.GtE: ast.LtE}
            ex_names = {x.id for x in ast.walk(node.right)
                        if isinstance(x, ast.Name)}
            mentioned = False

            def _is_bound(x):
                return _num(x) is not None or isinstance(x, ast.Name) or (
                    isinstance(x, ast.UnaryOp) and
                    isinstance(x.op, ast.USub) and
                    isinstance(x.operand, ast.Name))

            def _neg_bound(x):
                n_ = _num(x)
                if n_ is not None:
                    return n_ < 0
                return isinstance(x, ast.UnaryOp)
            for t, pol in paths.guard_atoms(gs):
                if ex_names & {x.id for x in ast.walk(t)
                               if isinstance(x, ast.Name)}:
                    mentioned = True
                if not isinstance(t, ast.Compare):
                    continue
                opnds = [t.left] + list(t.comparators)
                for i_, op_ in enumerate(t.ops):
                    a_, b_ = opnds[i_], opnds[i_ + 1]
                    oc = type(op_)
                    if oc not in _NEG:
                        continue
                    if not pol:
                        if len(t.ops) > 1:
                            continue    # negated chain: a disjunction
                        oc = _NEG[oc]
                    for x_, y_, o_ in ((a_, b_, oc), (b_, a_, _FLIP[oc])):
                        # x_ o_ y_  with x_ the exponent (or its modulus)
                        is_abs = isinstance(x_, ast.Call) and \
                            (prog.dotted(x_.func) or '').split('.')[-1] in (
                                'abs', 'fabs', 'absolute') and x_.args and \
                            ast.dump(x_.args[0]) == dex
                        if not (ast.dump(x_) == dex or is_abs) or \
                                not _is_bound(y_):
                            continue
                        if is_abs and o_ in (ast.Lt, ast.LtE):
                            hi = lo = True
                        elif not is_abs and o_ in (ast.Lt, ast.LtE) and \
                                not _neg_bound(y_):
                            hi = True
                        elif not is_abs and o_ in (ast.Gt, ast.GtE) and \
                                _neg_bound(y_):
                            lo = True
            # no dominating test mentions the exponent at all: the guard is
            # gone (violation); mentioned but not recognised: not decided
            rep.add('P-sat', qual, paths.src(mod, node),
                    'ok' if hi and lo else ('unknown' if mentioned
                                            else 'violation'),
                    '' if hi and lo else 'the power 2**(%s) is not dominated '
                    'by both saturation guards (%s > c and %s < -c): '
                    'OverflowError / inf for far apart exponents' % (ex, ex, ex),
                    line=node.lineno, file=mod.path)
    if n == 0:
        rep.error('%s: exponent difference power not found' % qual)


