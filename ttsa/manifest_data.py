"""Single source of the MANIFEST claims (tools/gen_manifest.py renders it)."""

NOTES = ('Static analysis only. Every check parses the current /repo/teneva/*.py, '
         'decides the structural clauses listed in level_claimed.text for symbolic '
         'sizes and reports a specific construct; the numerical core of each property '
         '(listed in level_note) is not decided and is not claimed. Exit codes: 0 ok, '
         '1 VIOLATION, 2 ANALYSIS-ERROR (anchor vanished / floor not met).')

CLAIMS = {
 'C09': dict(
  technique='interprocedural may-alias / effect analysis by abstract interpretation (whole public API)',
  text='Decides, for every exported function and every documented flag variant of the entry table '
       '(d = 2,3 cores, symbolic sizes): no write (subscript store, in-place operator, mutating method, '
       'out=, SciPy overwrite_*, shuffle) reaches storage that may belong to an argument, and no returned '
       'array/list may share storage with an argument; the documented exceptions (inplace flag, info/cache '
       'dictionaries, pass-through helpers) are an explicit table and the in-place footprint is checked to '
       'be exactly two adjacent cores. This is the whole property except the trust in the NumPy '
       'view-vs-copy table.',
  note='Trusted: view-vs-copy table of the NumPy model (errs toward "may be a view"); preconditions PRE-TT, '
       'PRE-DOC (undocumented parameters at defaults). User callbacks receive internal state by reference '
       '(not an argument of the caller).'),
 'C10': dict(
  technique='random-source provenance (def-use + abstract interpretation), mutable-default / np.empty / clock dataflow rules',
  text='Decides from source, package-wide: no reference to the process-wide numpy.random namespace outside '
       'the two documented places; every draw-method call has a receiver derived from teneva._rand(seed) or a '
       'generator parameter bound to one at every call site; seeded functions forward their seed; mutable '
       'default arguments are reset at entry for every key that is read; no np.empty buffer is filled only '
       'conditionally and then used whole; perf_counter values reach only info["t"] / log text; no set '
       'iteration, hash() or id().',
  note='Not decided: bit-identity of NumPy/BLAS kernels across calls (trusted). numpy.random.Generator is '
       'assumed deterministic for a given seed.'),
}

CLAIMS['C06'] = dict(
  technique='protocol rules on structured control flow (dominance, path events, who-may-write) + symbolic shape typing of every return path',
  text='Decides: every objective call in the request wrapper is dominated by the budget test on the same batch; the '
       'evaluation counter is increased exactly once by len(batch) after a successful call and on no None / uncalled '
       'path; only indices absent from the cache are evaluated and hits are counted; the complete package-wide set '
       'of writers of info["stop"] with literal, guarding condition and priority e_vld > e > nswp; every request '
       'inside a half-sweep is followed by a stop test whose branch folds the pending factor on the correct side '
       'into the current core, refreshes info from the returned tensor and returns it; nswp is increased once per '
       'sweep; the ValueError rejections precede the first effect; every return path (including interruption at '
       'every core of either half-sweep, d = 2,3) is a well-formed tensor of the original mode sizes; batches handed '
       'to the objective are int arrays of width d.',
  note='Not decided: finiteness of the returned cores, tightness of m, index values beyond being copies of arange(n_k). '
       'Trusted: stop-writer table frozen from the documented protocol; summary axiom of utils._maxvol (validated by C08).')

_PENDING = 'check not built yet in this session (see DESIGN.md section 7 build order); not claimed'
NOT_APPLICABLE = {p: _PENDING for p in
                  ['C01', 'C02', 'C03', 'C04', 'C05', 'C06', 'C07', 'C08', 'C11', 'C12', 'C13', 'C14',
                   'C15', 'C16', 'C17', 'C18', 'C19', 'C20'] if p not in CLAIMS}
