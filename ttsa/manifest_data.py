"""Single source of the MANIFEST claims (tools/gen_manifest.py renders it)."""

NOTES = ('Static analysis only. Every check parses the current /repo/teneva/*.py, '
         'decides the structural clauses listed in level_claimed.text for symbolic '
         'sizes and reports a specific construct; the numerical core of each property '
         '(listed in level_note) is not decided and is not claimed. Exit codes: 0 ok, '
         '1 VIOLATION, 2 ANALYSIS-ERROR (anchor vanished / floor not met).')

CLAIMS = {
 'C09': dict(
  technique='interprocedural may-alias / effect analysis by abstract interpretation (whole public API)',
  text='Decides, for every exported function and every documented flag variant of the entry table '
       '(d = 2,3 cores, symbolic sizes): no write (subscript store, in-place operator, mutating method, '
       'out=, SciPy overwrite_a / _b / _x, shuffle; numbers given as 0-d arrays) reaches storage that may belong to an argument, and no returned '
       'array/list may share storage with an argument; the documented exceptions (inplace flag, info/cache '
       'dictionaries, pass-through helpers) are an explicit table and the in-place footprint is checked to '
       'be exactly two adjacent cores. No function modifies a module-level object, wraps a package function in a module-level memo, modifies a mutable default '
       '(other than the documented info / cache dictionaries), remembers a result on the object regardless of further parameters, or '
       'keeps a memo table whose key omits a varying item the value reads. Every entry variant is run a second time with the other documented kind of each argument (mode sizes as an '
       'ndarray, numbers as 0-d arrays, integers as NumPy integers): same purity rules, plus truth / membership tests that '
       'only work for the list kind and inputs that are then rejected on every path. This is the whole property except '
       'the trust in the NumPy view-vs-copy table.',
  note='Trusted: view-vs-copy table of the NumPy model (errs toward "may be a view"); preconditions PRE-TT, '
       'PRE-DOC (undocumented parameters at defaults). User callbacks receive internal state by reference '
       '(not an argument of the caller).'),
 'C10': dict(
  technique='random-source provenance (def-use + abstract interpretation), mutable-default / np.empty / clock dataflow rules',
  text='Decides from source, package-wide: no reference to the process-wide numpy.random namespace outside '
       'the two documented places; every draw-method call has a receiver derived from teneva._rand(seed) or a '
       'generator parameter bound to one at every call site; seeded functions forward their seed; mutable '
       'default arguments are reset at entry for every key that is read; no np.empty buffer is filled only '
       'conditionally and then used whole; perf_counter values reach only info["t"] / log text; no set '
       'iteration, hash() or id(); no state survives a call (module-level objects modified by functions, module-level '
       'memo wrappers, modified mutable defaults, parameter-blind attribute memos, under-keyed memo tables).',
  note='Not decided: bit-identity of NumPy/BLAS kernels across calls (trusted). numpy.random.Generator is '
       'assumed deterministic for a given seed.'),
}

CLAIMS['C06'] = dict(
  technique='protocol rules on structured control flow (dominance, path events, who-may-write) + symbolic shape typing of every return path',
  text='Decides: every objective call in the request wrapper is dominated by the budget test on the same batch; the '
       'evaluation counter is increased exactly once by len(batch) after a successful call and on no None / uncalled '
       'path; only indices absent from the cache are evaluated and hits are counted; the complete package-wide set '
       'of writers of info["stop"] with literal, guarding condition and priority e_vld > e > nswp, a reason that is '
       'already set is never overwritten by a newly computed one; every request '
       'inside a half-sweep is followed by a stop test whose branch folds the pending factor on the correct side '
       'into the current core, refreshes info from the returned tensor and returns it; nswp is increased once per '
       'sweep; the ValueError rejections precede the first effect and, by abstract execution of the None / value '
       'patterns of the stop and validation arguments, reject exactly the documented combinations (0 given alone is a '
       'criterion, not "unset"); every return path (including interruption at '
       'every core of either half-sweep, d = 2,3) is a well-formed tensor of the original mode sizes; batches handed '
       'to the objective are int arrays of width d.',
  note='Not decided: finiteness of the returned cores, tightness of m, index values beyond being copies of arange(n_k). '
       'Trusted: stop-writer table frozen from the documented protocol; summary axiom of utils._maxvol (validated by C08).')

CLAIMS['C12'] = dict(
  technique='callability (inspect.signature binding of resolved NumPy/SciPy calls) + symbolic shape typing + guard/domain rules',
  text='Decides the structural part only: every NumPy/SciPy/opt_einsum call of func.py, func_full.py, grid.py binds against '
       'the installed signatures and exists; the basis recurrence, coefficient contractions, DCT axis, even-coefficient '
       'slices, dense siblings and the least-squares fit are dimension-consistent for symbolic sizes n_k >= 2; func_int, '
       'func_gets and func_int_general return well-formed tensors with the expected mode sizes; the outside-the-box test '
       'has both sides and keeps the fill value; the documented rejections (asymmetric box, unknown kind) are in place; '
       'func_basis stores the linear term for every basis size >= 2 (abstract execution at m = 2, 3, 5); no float is stored '
       'into an integer buffer (an integer fill value does not make the result buffer integer); the rows built by func_basis '
       'are T_0 .. T_{m-1} as polynomials (bounded symbolic execution for m = 1, 2, 3, 5).',
  note='Not decided (numerical core of the property): exactness on polynomials, differentiation matrices, fit accuracy, '
       'agreement of values between TT and dense routines.')
CLAIMS['C14'] = dict(
  technique='RNG provenance + symbolic shape/kind typing + normalisation dataflow of p= + pivot typestate',
  text='Decides the structural part only: every draw of the samplers comes from teneva._rand(seed); every sampler returns '
       '[m, d] of the right kind and every store fits its slot; the p= vector of every choice() is non-negative, divided '
       'by its own sum and as long as the population; the marginal / conditional contractions are dimension consistent; '
       'sample_square orthogonalises to core 0, reads the first marginal from core 0 and sweeps right over '
       'right-orthogonal cores; the pivot core whose entries are squared for the first marginal carries a power-of-two '
       'normalisation (exponent-ledger facet); with unique=True every returned row set is a row subset of an np.unique result '
       '(distinct-rows facet); the LHS remainder is drawn without replacement and columns have length m. '
       'Inside the samplers a carried interface whose bond is one rank on one path and another rank on another path is a contraction mismatch (join expansion); truth tests of multi-element arrays (ndarray shape variant of sample_tt) are reported; the marginal table of sample is filled by sums over the mode axis (no other reduction kind).',
  note='Not decided: that the conditionals multiply to the tensor entry (the distribution itself), uniqueness in '
       'distribution, goodness of fit.')
CLAIMS['C20'] = dict(
  technique='symbolic ndim/shape typing of the least-squares operands and of the producer/consumer layout',
  text='Decides the structural part only: the operand handed to the least-squares solver in svd_incomplete is a matrix and '
       'the right-hand side 1-/2-D (the defect that made the function raise for every input); contractions on the path '
       'are consistent where typed; the result is a list of d three-axis float cores; sample_tt returns '
       '(int [rows,d], [d+1], [d]) as the consumer expects; every mode index is fitted against its own rows (both least-squares operands vary with the loop over the mode index); the rank of the skeleton helper is max(1, min(cap, len - dropped)) as a value. '
       'Truth tests of multi-element arrays in sample_tt (ndarray shape variant) are reported. '
       'Every block compression of svd_incomplete is capped by the caller\'s r (1 at the end), and the cap parameter is not re-bound inside the sweep to a value that does not derive from it.',
  note='Not decided: recovery of the sampled tensor (numerical, generic), the block layout values.')

CLAIMS['C01'] = dict(
  technique='symbolic shape typing by abstract interpretation (einsum letter unification, block concatenation, Kronecker reshape) + scalar-degree and term-count facets',
  text='Decides the structural part only, for d = 2,3 (thorough: 4, 5) and symbolic unequal ranks / mode sizes: every contraction, '
       'einsum, concatenation (axis and zero-block sizes of add), Kronecker reshape, index and store of the evaluation and '
       'algebra routines is dimension consistent for tensor and number operands; add/sub/mul/outer/add_many/outer_many/copy '
       'return well-formed tensors with ranks a+b / a*b / a and the input mode sizes; full returns exactly the d mode axes; '
       'ranks/shape/size report the core dimensions; a number operand enters the cores with total degree 1; mean and the '
       'natural-norm interface vectors (both directions) divide every sum over a mode index by the size of that very mode, sum '
       'adds all prod(n) terms undivided (term-count facet); no product over the vector of mode sizes is formed in integer '
       'arithmetic.',
  note='Not decided (the numerical core): values, weights of mean, block contents, rounding, the bit-for-bit integer claim; '
       'getter (numba). Loops over cores are unrolled for d <= 5: first/middle/last core behaviour is covered, not an induction on d.')
CLAIMS['C07'] = dict(
  technique='kind/shape typing of the ALS sweeps + solve-path and weight-dependency rules + stop protocol rules',
  text='Decides the structural part only: the slice-skipping test is applied to a value whose truth means "no samples"; '
       'interface updates (einsum with out=), normal equations and core reshapes are dimension consistent in both half-sweeps '
       'of als and als_func; constant-rank mode returns the shape and ranks of the initial tensor; every core-slice update goes '
       'through the regularised weighted helper with lamb and w forwarded; w enters both AtA and Aty; the system is AtA + lamb I; '
       'missing slices are rejected unless allowed; sweep counter / callback / stop protocol; adaptive mode sends the weights '
       'toward the core visited next; every path through one sweep step recomputes the interface of the next core; optional '
       'numeric parameters are tested with "is None". '
       'The constant-rank result keeps the ranks of Y0 for over-ranked initial tensors too (min / max over free ranks and mode sizes are expanded).',
  note='Not decided: monotone descent, per-core optimality as values, restart equivalence, sample-order independence.')
CLAIMS['C11'] = dict(
  technique='well-formedness typing of every TT-returning routine for unconstrained symbolic sizes + NaN-taint / guarded-division dataflow',
  text='Decides: every TT-returning routine (29 functions, every documented flag literal, d = 2,3) returns a well-formed tensor '
       'with the expected mode sizes for unconstrained symbolic sizes (covers rank 1, d = 2, mode size 1, over-ranked cores); '
       'the truncated factorisations keep the rank floor max(1,.); no division / reciprocal / log with a data-derived, unguarded '
       'denominator flows into a returned tensor or into norm/sum/mean/mul_scalar/erank/accuracy; the -1 sentinel branch of '
       'accuracy dominates the quotient; no square root of a possibly negative scalar product is returned unguarded; no '
       'emptiness test of a sample selection is applied to the size of its boolean mask (mean of an empty slice = NaN); the '
       'eigenvalues of a Gram matrix are clamped at 0 before their square root is taken. '
       'accuracy_on_data returns the sentinel -1 for each of the three missing-data patterns.',
  note='Not decided: overflow/underflow, LAPACK finiteness, NaN from user data. Accepted denominators are an explicit table '
       '(dense convenience path of accuracy). Grid sizes n_k >= 2 assumed for the Chebyshev routines.')

CLAIMS['C02'] = dict(
  technique='orthogonality typestate (abstract interpretation with qr/rq/svd/eigh axioms) + unit/homogeneity facet + rank selection as a value (prefix-mask count domain, exact integer joins, grid evaluation of the truncated bond) + forwarding rules',
  text='Decides the structural part only: in the right-to-left sweep of truncate the factor kept in each finished core has '
       'orthonormal rows and the weights travel left, in eigen and SVD mode (the rule that found the SVD-mode defect); the three '
       'm-vs-n selectors of matrix_svd agree on every ordering; pivot, norm core and sweep start coincide; tail energies (sigma^2) '
       'are compared with e^2 in one unit and, in the stabilised mode, at one power-of-two scale, with e rescaled by the norm, '
       'and are not formed as a difference of prefix sums; the caller\'s cap (Python or NumPy number) is the object that reaches '
       'every factorisation; rank = max(1, min(cap, len - dropped)) on a bounded grid '
       'and the droppable tail is the longest with energy <= e^2; e and r reach every factorisation call and the final rounding '
       'of add_many; results are well formed with the input mode sizes. '
       'No quantity that scales with the data is compared with a non-zero literal written in the comparison (absolute thresholds inside matrix_svd / matrix_skeleton / truncate). The accuracy of truncate is divided by sqrt(len(tensor) - 1).',
  note='Not decided: the inequality ||Y-Z|| <= e||Y||, quasi-optimal ranks as values, behaviour exactly at a threshold, rounding. '
       'Trusted: orthogonality axioms of LAPACK-backed factorizations.')
CLAIMS['C03'] = dict(
  technique='orthogonality typestate + factor summaries per give_to literal + unit facet + rank selection as a value (prefix-mask count domain, exact integer joins, grid evaluation of the truncated bond) + shape typing',
  text='Decides the structural part only: every finished core of TT-SVD has orthonormal columns and the weights travel with the '
       'remainder (the rule that found the scale-dependent defect); matrix_skeleton returns (weighted, rows)/(cols, weighted)/'
       '(half, half) for give_to l/r/m and matrix_svd an orthonormal-row right factor on both Gram sides; selectors agree; '
       'threshold units; with rel=True the singular values are divided by the largest one; rank formula; unfolding reshapes of '
       'svd / svd_matrix / full_matrix consistent; results well formed. '
       'Every factorisation of the TT-SVD sweep receives the caller\'s accuracy itself (same object / same default literal in the call log); no data-scaled quantity is compared with an absolute literal; flatten / ravel / reshape never follow memory order (order K / A).',
  note='Not decided: the error bound numerically, exact-rank reproduction, best-approximation property of the factor product. '
       'The interleaving permutation tables are checked for q <= 6 (bounded).')
CLAIMS['C04'] = dict(
  technique='orthogonality typestate per pivot + shape typing + abstract rejection paths + in-place footprint (alias facet) + exponent ledger',
  text='Decides the structural part only, for every pivot at d = 2,3: cores left of the pivot are reshaped reduced-QR Q factors '
       '(orthonormal columns), right of it economic-RQ Q factors (orthonormal rows), the pivot carries the weights and the '
       'triangular factor is multiplied into the neighbour on its own bond; no bond grows; results well formed; out-of-range '
       'pivots/modes raise ValueError and in-range ones do not (abstract execution of the guards for every literal index); the '
       'in-place variants store exactly two adjacent cores, the default ones none; with use_stab the exponent ledger closes and '
       'every sweep step rescales. '
       'A valid pivot / mode given as a NumPy integer is accepted. '
       'The same typestates hold for a tensor whose ranks are all 1.',
  note='Not decided: orthonormality to rounding, entries of moderate magnitude.')
CLAIMS['C16'] = dict(
  technique='power-of-two exponent ledger as identities of linear forms over symbolic exponents (abstract interpretation)',
  text='Decides: on every return path of core_stab, mul_scalar, norm, accuracy, orthogonalize (every pivot), truncate and '
       'optima_tt_beam in their stabilised modes (d = 2,3) the scale of the returned mantissas plus the returned exponent equals '
       'the scale of the input, exactly, as linear forms in the fresh exponent symbols; log2 is guarded by the threshold test; '
       'the exponent is an integer; 2**(p1-p2) is dominated by both saturation guards; orthogonalize and mul_scalar rescale at '
       'every step of their core loops (the core_stab calls of the abstract run are counted per step, none re-scales an orthonormal core, none sits under a test of a magnitude); every return path of the stabilised norm hands back the exponent of mul_scalar.',
  note='Not decided: that mantissas stay in range for thousands of dimensions, rounding, coincidence of stabilised and plain '
       'values. Ledger axioms for qr/rq/svd/eigh are trusted.')

CLAIMS['C05'] = dict(
  technique='symbolic shape typing of every fold / return path with independent rank symbols per maxvol call + freshness and cache-flow rules',
  text='Decides the structural part only: every fold of the pending factor, the QR/maxvol interface, request widths and answer fold '
       'are dimension consistent and every return path (incl. interruptions) is a well-formed tensor of the original mode sizes; '
       'info r/e/e_vld are recomputed from the returned tensor after its last core store, e against a copy from the head of the '
       'sweep; the cache argument reaches only the request wrapper, with_cache and the callback options; cached and uncached '
       'branches return float arrays in batch order; cache entries pair index k with value k; only unseen indices are evaluated. '
       'The values the request wrapper returns are float64 on the cached and on the uncached path whatever the oracle hands back (the oracle\'s own object is not passed on); the cached and the uncached request are asked under the same conditions.',
  note='Not decided: that maxvol/QR interpolation reproduces a rank-rho tensor, genericity, bit-level equality of cached and '
       'uncached runs; the Kronecker order of the index assembly is left to the existing accuracy tests. utils._maxvol enters '
       'through a summary axiom (validated for maxvol by C08).')
CLAIMS['C08'] = dict(
  technique='abstract execution of the rejections with literal shapes + shape typing + select/mask ordering rule + guarded-division rule',
  text='Decides a narrow structural part: maxvol rejects n <= r and accepts tall input, maxvol_rect rejects inconsistent '
       'dr_min/dr_max, _maxvol dispatches to the identity selection / maxvol / maxvol_rect with dr_max clamped to n - r and dr_min to dr_max (call log of the abstract run on a literal grid); maxvol returns (int [r], [n, r]) and the LU / triangular '
       'solves / rank-one update / identity rows are dimension consistent; in maxvol_rect a selected row is masked before F is '
       're-masked in the same iteration and the maxvol rows are masked first; the carried squared row norms are updated to '
       'F - l v**2 (polynomial identity); the pivot division is behind the |B[i,j]| <= e '
       'break and the Sherman-Morrison factor divides by 1 + squared norm. '
       'No absolute literal is compared with a quantity at the scale of the matrix (LU pivots). '
       'Every early exit of the maxvol swap loop implies |B[i, j]| <= e for the entry of largest modulus.',
  note='Not decided (the numerical core): A = B A[I], max|B| <= e, row-norm bound, distinctness as a value fact. The column '
       'growth of maxvol_rect is widened (shape of B only partly typed).')
CLAIMS['C13'] = dict(
  technique='symbolic 2x2 transfer-pattern check of the core slot stores + identity-pattern facet + shape typing + build-order / object-state (alias) rules',
  text='Decides the structural part only: with noise 0 the slot stores of ANOVA.cores_1 propagate [1, S] to [1, S + f] and close to '
       'f0 + sum f for every d; the chaining cores of the pair terms are identities in the two bond axes, constant along the mode '
       'axis; the stored pair term is 0 for a never observed index pair and conditional mean - f0 - f1 - f1 otherwise (path-wise '
       'symbolic value); order-1 results have ranks equal to r; the order-2 cap is forwarded; pair-term tensors are '
       'dimension consistent; build_0 < build_1 < build_2 and f1 = conditional mean - f0, f0 = mean; cores/calc/sample never '
       'write arrays owned by the object; functional variant: coefficient offset agreement; noise from self.rand.',
  note='Not decided: values of conditional means, truncation error for order 2, ridge-fit accuracy.')
CLAIMS['C15'] = dict(
  technique='layout facet (ordered products through kron / reshape) + pivot, ledger, value-provenance and ordering rules',
  text='Decides the structural part only: in both sweep directions of the beam search the candidate matrix and both halves of the '
       'extended index table enumerate the composite row in the same order and are filtered by the same selection; pivot = first '
       'core per direction; 2**(p/d) once per core; every reported value is get(Y, i) of the argument at the reported index; '
       '(i_min, y_min, i_max, y_max) ordered by the comparison on every return path; the candidates are re-ordered by the argsort '
       'permutation unconditionally at every step; the normalised Chebyshev basis of the functional variant is sqrt(1/2), T_1, '
       'T_2, ... as polynomials; the end point appended to the candidate list of the one-dimensional maximiser is the one tested '
       'for absence; optima_qtt rejections and back-mapping with the checked exponent.',
  note='Not decided: exactness under a full beam / rank 1, numerical range of candidate norms (overflow of squares), '
       'optima_tt_maxvol.')
CLAIMS['C17'] = dict(
  technique='layout facet with tagged binary modes + pairing rule for ravel/unravel + shape typing at mode sizes 2,4,8 + abstract rejections',
  text='Decides the structural part only: core_qtt_to_tt merges binary modes first-core-fastest (little-endian), the index maps use '
       'ravel/unravel with equal dims, order="F" and equal column blocks (the same convention); core_tt_to_qtt at mode sizes '
       '2, 4, 8 returns q cores of mode size 2 whose outer bonds are exactly the original ranks and whose inner bonds chain, the '
       'inner cores being orthonormal-row right factors of the successive truncations; the index maps answer a batch with a '
       'batch and a single index with a single index on every return path; '
       'tt_to_qtt / qtt_to_tt results well formed; e, r forwarded; non-powers of two rejected, powers accepted '
       '(by abstract execution at mode sizes 6, 12, 8, with a symbolic and with even literal left ranks: the rejection '
       'depends on the mode size alone); the rejection test of the three quantised entry points is 2**q != n, not a one-sided comparison. '
       'The first unfolding of core_tt_to_qtt enumerates (left rank, mode) with the left rank fastest; a single QTT-core merges into a new array.',
  note='Not decided: accuracy of the round trip; digit order produced by the halving loop as values.')
CLAIMS['C18'] = dict(
  technique='rational-function normal forms of the node formulas (composition = identity, endpoints) + clamp, rejection and shape rules',
  text='Decides: poi_to_ind (before rounding) composed with ind_to_poi is the identity as a rational-function identity for uniform '
       'and Chebyshev grids (arccos(cos u) = u on [0, pi]); index 0 / n-1 map to the documented box ends; scaling maps a, b to '
       'the canonical ends; after scaling and after rounding both clamps follow with matching bounds; unknown kinds, inconsistent '
       'option lengths, an option list whose length differs from an explicit d, and scalar options without d are rejected '
       '(abstract execution; a matching list is accepted); option broadcasting, batches, grid_flat and cdf_getter are '
       'dimension consistent with the right result shapes on every return path; the rows of grid_flat enumerate the '
       'multi-indices with the first index fastest (layout facet); the empirical CDF keeps one step per sample. '
       'With reps=1 an option comes back as [1, d].',
  note='Not decided: floating-point round trip at cell boundaries, nearest-node ties.')
CLAIMS['C19'] = dict(
  technique='scalar-degree facet + symbolic 2x2 transfer pattern + shape typing + constant-folded index helpers',
  text='Decides the structural part only: const / delta carry v with total degree 1 on both branches of the tiny-value test; '
       'vector_delta / matrix_delta carry v with degree 1 in exactly one core (degree facet of the returned cores; an in-place '
       'scaling of a core that is a view of a shared table reaches every core that is a view of the same row); poly cores propagate and close the running sum; all '
       'constructors return well-formed tensors of the requested shape and rank profile and the flat random vector is cut into '
       'pieces of exactly n r r entries; index helpers reject out-of-range positions, normalise negatives and emit little-endian '
       'digits (folded for q <= 3); zero entries of const only under their guard; a float-documented option (shift of poly) '
       'is never converted to an integer; random constructors draw from _rand(seed). '
       'Numeric literals stored into a core have degree 0; the bonds of the random constructors are the requested ranks for every ordering of the free ranks / mode sizes; membership tests on ndarrays are reported.',
  note='Not decided: distribution of random entries, entries of order one for rand_stab.')

_PENDING = 'check not built yet in this session (see DESIGN.md section 7 build order); not claimed'
NOT_APPLICABLE = {p: _PENDING for p in
                  ['C01', 'C02', 'C03', 'C04', 'C05', 'C06', 'C07', 'C08', 'C11', 'C12', 'C13', 'C14',
                   'C15', 'C16', 'C17', 'C18', 'C19', 'C20'] if p not in CLAIMS}
